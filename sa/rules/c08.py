"""C08 — an interrupted external-data save never damages an existing data file."""

from __future__ import annotations

import ast

from ..cfg import CFG
from ..facts import calls_in, stmt_of
from ..index import FuncInfo, dotted_of, norm, own_nodes, text, short

PROPERTY = "C08"
RULES = {
    "R1": "the destination is only ever replaced: the writer is handed a path derived from tempfile.mkdtemp, every "
    "write-mode file-system call in the single-file path targets a temp-derived path, and the only call whose "
    "target may be the destination is os.replace(temp, destination)",
    "R2": "ordering: os.replace is dominated by the completion of writer.write(); every invalidate() of an "
    "overwritten tensor is dominated by os.replace and is not in a handler or finally; release() may precede",
    "R3": "cleanup: removal of the temp file and temp directory is in the finally of the try that contains the write "
    "and the replace; nothing between mkdtemp and that try can raise OSError uncaught",
    "R4": "the sharded path never overwrites: _check_no_existing_shard_files(all destinations) dominates every shard write"
    " ; only a branch whose test implies that no shard limit was given may take the replacing single-file path",
    "R5": "small external tensors are copied to memory before any data file is rewritten",
    "R6": "a memo key determines the memoised answer (shared rule S6): in the external-data module, a cache of the form "
    "`if K not in M: M[K] = E` keys on everything loop-varying that E reads - the answer to 'is this tensor backed by the "
    "file being replaced' depends on the tensor's full path, not on its relative location alone, so tensors are "
    "invalidated exactly when their own file was replaced",
    "R7": "a short source is an error, not a short file: every normal exit of ExternalTensor.tofile passes the test of the "
    "remaining-bytes loop (the loop that raises OSError when the source ends early), so a kernel-copy fast path cannot "
    "return with bytes still missing - otherwise the save succeeds with a truncated data file and replaces the good one",
    "R8": "errors of data-bearing file operations propagate: on the write path (the external-data module, the safetensors "
    "writer and the tofile methods of the tensor classes) no write, flush, close, truncate, fsync, tofile, kernel copy, "
    "copymode, replace or rename sits under `contextlib.suppress` of OSError (or a base class of it) or in a try whose handler "
    "for OSError / Exception / BaseException does not re-raise - buffered bytes reach the file when it is flushed or closed, so "
    "an error swallowed there (disk full, quota, I/O error) lets the save report success and replace the good data file by "
    "one with holes; only the removal of temporary files may ignore that they are already gone",
    "R9": "who may invalidate, and whom: outside the tensor class itself, an external tensor is invalidated only in a function that replaces a "
    "file with os.replace, and only as an element of a collection selected by file identity (a filter that reaches os.path.samefile) - "
    "never by comparing names: `os.path.normpath(t.location) == os.path.normpath(relative_path)` also matches a file of the same name in "
    "another directory, whose bytes nobody touched, and misses the same file reached through a link",
    "R10": "the temporary file has a name: its path is `join(<temporary directory>, basename(<destination>))`, and a destination without a "
    "base name ('' or 'dir/') is refused before the temporary directory is created - otherwise the temporary path is the directory "
    "itself, opening it fails, the cleanup's os.remove fails on it with an error other than FileNotFoundError and the temporary "
    "directory is left behind next to the data",
    "R11": "the file that is replaced is the file the tensors were matched against: a destination that is a symbolic link is resolved all the "
    "way (`os.path.realpath`), as `os.path.samefile` does when the tensors backed by the destination are looked for - where the "
    "single-file writer tests `os.path.islink(<path>)`, what it takes for the destination is `os.path.realpath(<path>)`, and the "
    "external-data module never resolves one level only (`os.readlink`): with a chain of links the intermediate link would be replaced "
    "by a regular file, the real file kept its bytes, and the tensors reading from it would be invalidated although it was not replaced",
    "R12": "a worker's failure always reaches the caller: every future the writers submit is consumed with `.result()` (which re-raises "
    "whatever the worker raised), in the function that submitted it - or with `.exception()` whose outcome is re-raised under no other "
    "test than `is not None`; a filter such as `isinstance(error, Exception)` drops a cancellation (CancelledError, KeyboardInterrupt …) "
    "raised by a callback or a tensor inside a worker: the parallel writer then returns normally and the half-written temporary file is "
    "renamed over the destination - neither the previous bytes nor the complete new ones",
    "R13": "no handler of the write path swallows what a tensor raised: in the external-data module, a `try` whose body asks a tensor for "
    "its bytes (`.tofile(…)`, `.tobytes()`, `.numpy()`, `__array__`) has no handler that ends without re-raising - `try: tensor.tofile(file) "
    "except AttributeError: file.write(tensor.tobytes())` also catches an AttributeError raised *inside* a tensor's tofile() after part of "
    "its bytes were written: the save carries on, writes the whole tensor after the partial bytes and renames a file that is neither "
    "the previous one nor the complete new one over the destination, and no exception reaches the caller (whether a tensor has a method "
    "is asked with hasattr, before the call)",
}
FLOORS = {"R1": 5, "R2": 2, "R3": 4, "R4": 3, "R5": 1, "R6": 1, "R7": 1, "R8": 12, "R9": 1, "R10": 1, "R11": 1, "R12": 2, "R13": 1}
EXPLANATION = (
    "Path-taint analysis (temp-derived vs destination-derived) over every file-system call of the single-file "
    "writer, dominator queries for the write → replace → invalidate ordering, try/finally structure of the "
    "cleanup, and dominance of the existence check over every shard write."
)
NOT_DECIDED = "atomicity of os.replace (trusted to the OS); state after the process dies in the middle of a write() call"
ASSUMPTIONS = ["os.replace is atomic on the same file system; tempfile.mkdtemp(dir=dest dir) creates a fresh private directory"]

ED = "onnx_ir.external_data"
# write-mode primitives: name -> index of the argument that is written/replaced/removed
WRITE_PRIMS = {
    "os.replace": 1, "os.rename": 1, "os.remove": 0, "os.unlink": 0, "os.rmdir": 0, "os.truncate": 0,
    "shutil.move": 1, "shutil.copy": 1, "shutil.copyfile": 1, "shutil.copy2": 1, "shutil.copymode": 1,
    "shutil.copystat": 1, "shutil.rmtree": 0, "os.open": 0, "os.link": 1, "os.symlink": 1,
    "os.chmod": 0, "os.lchmod": 0, "os.chown": 0, "os.utime": 0, "os.chflags": 0, "shutil.chown": 0,
}  # fmt: skip
# … of which these never touch the file system and accept any str (no ValueError for an embedded null byte)
PURE_STRING = {"os.path.join", "os.path.basename", "os.path.dirname", "os.fspath", "os.path.normpath", "isinstance", "len", "str", "repr"}
PURE = {"os.path.join", "os.path.basename", "os.path.dirname", "os.fspath", "os.path.normpath", "isinstance",
        "os.path.realpath", "os.path.islink", "len", "str", "repr"}  # fmt: skip


def _taint(f: FuncInfo, seeds_temp, seeds_dest):
    """name -> {'T','D'} flowing through assignments in f (flow-insensitive, 3 rounds)."""
    t: dict[str, set[str]] = {}
    for n in seeds_temp:
        t.setdefault(n, set()).add("T")
    for n in seeds_dest:
        t.setdefault(n, set()).add("D")

    def of(e) -> set[str]:
        out = set()
        for x in ast.walk(e):
            if isinstance(x, ast.Name) and x.id in t:
                out |= t[x.id]
            if isinstance(x, ast.Call) and dotted_of(x.func) in ("tempfile.mkdtemp", "tempfile.mkstemp", "tempfile.NamedTemporaryFile", "tempfile.TemporaryDirectory"):
                out.add("T")
        return out

    for _ in range(3):
        for n in own_nodes(f.node):
            if isinstance(n, ast.Assign):
                k = of(n.value)
                # a path joined under the temp dir is a temp path even if its basename comes from the destination
                if "T" in k:
                    k = {"T"}
                for tg in n.targets:
                    if isinstance(tg, ast.Name) and k:
                        t.setdefault(tg.id, set()).update(k)
            elif isinstance(n, ast.withitem) and n.optional_vars is not None and isinstance(n.optional_vars, ast.Name):
                k = of(n.context_expr)
                if k:
                    t.setdefault(n.optional_vars.id, set()).update({"T"} if "T" in k else k)
    return t, of


def _open_mode(call: ast.Call) -> str | None:
    if dotted_of(call.func) not in ("open", "io.open"):
        return None
    m = call.args[1] if len(call.args) > 1 else next((k.value for k in call.keywords if k.arg == "mode"), None)
    if m is None:
        return "r"
    return m.value if isinstance(m, ast.Constant) else "?"


def rule_r1_r2_r3(ctx):
    repo = ctx.repo
    f = repo.func(f"{ED}:_write_external_data")
    # the destination is the path parameter of the function: by role (the one parameter declared as a path), not by spelling
    path_params = [a.arg for a in f.node.args.posonlyargs + f.node.args.args + f.node.args.kwonlyargs
                   if a.annotation is not None and "PathLike" in norm(a.annotation)]
    ctx.require(len(path_params) == 1, f"_write_external_data: destination path parameter not found ({path_params})")
    dest_param = path_params[0]
    t, of = _taint(f, [], [dest_param])
    cfg = CFG(f.node)
    # R1 (i) writer constructed on a temp path
    ctors = [c for c in calls_in(f) if dotted_of(c.func) == "_ExternalDataWriter"]
    ctx.require(len(ctors) == 1, "_ExternalDataWriter construction not found in _write_external_data")
    wcls = repo.cls(f"{ED}:_ExternalDataWriter")
    init = wcls.methods["__init__"]
    init_path = [a.arg for a in init.node.args.posonlyargs + init.node.args.args + init.node.args.kwonlyargs
                 if a.annotation is not None and "PathLike" in norm(a.annotation)]
    ctx.require(len(init_path) == 1, "_ExternalDataWriter.__init__: file path parameter not found")
    idx = init.params.index(init_path[0]) - 1
    arg = ctors[0].args[idx] if idx < len(ctors[0].args) else next((k.value for k in ctors[0].keywords if k.arg == init_path[0]), None)
    k = of(arg) if arg is not None else set()
    ctx.check("R1", f"writer file path {norm(arg) if arg is not None else '?'} is temp-derived", k == {"T"}, f, ctors[0],
              "the data writer is pointed at a path that is (or may be) the destination itself: a failure mid-write "
              "leaves a truncated or mixed destination file",
              how="taint from tempfile.mkdtemp through os.path.join", construct=f"writer path taint {sorted(k)}")
    # (ii) write-mode primitives in _write_external_data
    n_prims = 0
    replace_calls = []
    for c in calls_in(f):
        d = dotted_of(c.func) or ""
        if d in WRITE_PRIMS:
            n_prims += 1
            i = WRITE_PRIMS[d]
            target = c.args[i] if i < len(c.args) else None
            tk = of(target) if target is not None else {"?"}
            if d == "os.replace":
                replace_calls.append(c)
                src = of(c.args[0]) if c.args else set()
                ok = src == {"T"} and tk == {"D"}
                ctx.check("R1", f"os.replace({norm(c.args[0])}, {norm(target)}): temp → destination", ok, f, c,
                          "os.replace does not move the finished temp file onto the destination", how="argument taints",
                          construct=f"os.replace taints {sorted(src)}->{sorted(tk)}")
            else:
                ctx.check("R1", f"{d}(… {norm(target) if target is not None else '?'}) targets a temp path", tk == {"T"}, f, c,
                          f"{d} writes/removes a path that is not temp-derived (taint {sorted(tk)}): the destination can be "
                          "modified other than by the atomic replace",
                          how="target argument taint", construct=f"{d} target taint {sorted(tk)}")
        m = _open_mode(c)
        if m is not None and any(x in m for x in "wax+?"):
            n_prims += 1
            tk = of(c.args[0]) if c.args else {"?"}
            ctx.check("R1", f"open({norm(c.args[0])}, {m!r}) targets a temp path", tk == {"T"}, f, c,
                      "a file is opened for writing on a non-temp path inside the single-file writer",
                      how="target argument taint", construct=f"open target taint {sorted(tk)}")
    ctx.check("R1", "the finished temp file is installed by exactly one os.replace", len(replace_calls) == 1, f, f.node,
              f"_write_external_data installs the new file with {len(replace_calls)} os.replace call(s): the destination is not "
              "replaced atomically", how="count of os.replace calls", construct=f"os.replace count {len(replace_calls)}")
    if len(replace_calls) != 1:
        return
    # (iii) inside the writer class every open uses self._file_path, which only __init__ binds to the ctor argument
    binds = [n for n in own_nodes(init.node) if isinstance(n, ast.Assign) and norm(n.targets[0]) == "self._file_path"]
    ok = len(binds) == 1 and norm(binds[0].value) == init_path[0]
    others = [fn.local for fn in wcls.methods.values() if fn is not init and any(
        isinstance(n, (ast.Assign, ast.AugAssign)) and "self._file_path" in norm(n.targets[0] if isinstance(n, ast.Assign) else n.target)
        for n in own_nodes(fn.node))]
    ctx.check("R1", "writer's self._file_path is bound once, from the constructor argument", ok and not others, init, init.node,
              f"self._file_path rebound in {others}" if others else "self._file_path is not the constructor's file_path", how="who-may-write")
    for fn in repo.all_funcs():
        if fn.owner_class is not wcls:
            continue
        for c in calls_in(fn):
            m = _open_mode(c)
            if m is not None:
                ok = c.args and norm(c.args[0]) == "self._file_path"
                ctx.check("R1", f"{fn.local}: open({norm(c.args[0]) if c.args else ''}, {m!r})", bool(ok), fn, c,
                          "the writer opens a path other than the temp path it was constructed with", how="argument is self._file_path")
            d = dotted_of(c.func) or ""
            if d in WRITE_PRIMS:
                ctx.check("R1", f"{fn.local}: {d} inside the writer", False, fn, c,
                          "the writer class itself replaces/removes files; only _write_external_data may", how="primitive table")
    # R2 ordering
    rep = replace_calls[0]
    rn = cfg.nodes_containing(rep)[0]
    # the writer object: whatever name the constructed _ExternalDataWriter is bound to (assignment or with-item)
    wnames = set()
    par = getattr(ctors[0], "_parent", None)
    if isinstance(par, ast.Assign):
        wnames |= {t.id for t in par.targets if isinstance(t, ast.Name)}
    elif isinstance(par, ast.withitem) and isinstance(par.optional_vars, ast.Name):
        wnames.add(par.optional_vars.id)
    wr = [c for c in calls_in(f) if isinstance(c.func, ast.Attribute) and c.func.attr == "write" and (
        norm(c.func.value) in wnames or c.func.value is ctors[0])]
    ctx.require(len(wr) == 1, "writer.write() call not found")
    wn = cfg.nodes_containing(wr[0])[0]
    ok = cfg.dominates(wn, rn) and wn.id != rn.id and isinstance(getattr(wr[0], "_parent", None), ast.Expr)
    ctx.check("R2", "writer.write() completes before os.replace", ok, f, rep,
              "the destination can be replaced before (or without) the new file being completely written",
              how="dominator query")
    inv = [c for c in calls_in(f) if isinstance(c.func, ast.Attribute) and c.func.attr == "invalidate"]
    ctx.require(bool(inv), "invalidate() call not found in _write_external_data")
    for c in inv:
        cn = cfg.nodes_containing(c)[0]
        in_handler = any(isinstance(a, ast.ExceptHandler) for a in _anc(c)) or _in_finally(c)
        # dominated by os.replace on normal edges: every path from entry reaches replace first
        ok = cfg.dominates(rn, cn) and not in_handler and not cfg.path_exists_avoiding(cfg.entry, {cn.id}, {rn.id}, exc=True)
        ctx.check("R2", f"{norm(c)} happens only after the replace succeeded", ok, f, c,
                  "tensors are invalidated although their backing file may not have been replaced (failure before or "
                  "during os.replace leaves valid data unreadable)",
                  how="dominated by os.replace on every path incl. exceptional ones; not in a handler/finally")
    # R3 cleanup: the try whose finally (or re-raising catch-all handler) removes the temp file and the temp directory
    def _cleanup_calls(t: ast.Try):
        blocks = [t.finalbody]
        for h in t.handlers:
            catch_all = h.type is None or (dotted_of(h.type) or "") in ("BaseException",)
            if catch_all and any(isinstance(x, ast.Raise) and x.exc is None for x in ast.walk(h)):
                blocks.append(h.body)
        return [[dotted_of(c.func) for st in b for c in ast.walk(st) if isinstance(c, ast.Call)] for b in blocks if b]

    def _protects(t: ast.Try):
        return any(any(x in cs for x in ("os.remove", "os.unlink")) or any(x in cs for x in ("os.rmdir", "shutil.rmtree")) for cs in _cleanup_calls(t))

    all_trys = [n for n in own_nodes(f.node) if isinstance(n, ast.Try)]
    prot = [t for t in all_trys if _protects(t)]
    critical = [("writer.write()", wr[0]), ("os.replace", rep)]
    critical += [(norm(c.func), c) for c in calls_in(f) if dotted_of(c.func) in ("shutil.copymode", "shutil.copystat", "os.chmod")]
    critical += [(norm(c.func) + "()", c) for c in calls_in(f) if isinstance(c.func, ast.Attribute) and c.func.attr == "release"]
    for label, c in critical:
        inside = any(any(x is c for st in t.body for x in ast.walk(st)) for t in prot)
        ctx.check("R3", f"{label} runs inside the try that removes the temp file and directory", inside, f, c,
                  f"{label} can raise after the temp directory (and the complete new data file) exists, but it is outside the try whose "
                  "finally/handler removes them: a failure of this step leaves the temp directory and file behind",
                  how="membership of the fallible step in the body of the cleanup try", construct=f"{label} outside the cleanup try")
    trys = [t for t in prot if any(x is wr[0] for st in t.body for x in ast.walk(st))] or prot or all_trys
    if not trys:
        ctx.violation("R3", f, f.node, "no try statement protects the write of the new data file: nothing removes the temp file and directory on failure",
                      construct="no cleanup try")
        return
    tr = trys[0]
    in_body = any(x is wr[0] for s in tr.body for x in ast.walk(s)) and any(x is rep for s in tr.body for x in ast.walk(s))
    ctx.check("R3", "write and replace share one try body", in_body, f, tr, "write and replace are not in the same try body", nontrivial=False)
    fin_calls = [x for cs in _cleanup_calls(tr) for x in cs]
    for prim, what in (("os.remove", "temp file"), ("os.rmdir", "temp directory")):
        alt = {"os.remove": ("os.remove", "os.unlink"), "os.rmdir": ("os.rmdir", "shutil.rmtree")}[prim]
        ok = any(x in fin_calls for x in alt)
        ctx.check("R3", f"finally removes the {what}", ok, f, tr,
                  f"the {what} is not removed in the finally of the write/replace try: it is left behind on failure",
                  how="call present in finalbody", construct=f"finally lacks {prim}")
    # each cleanup tolerates the other's absence: wrapped in suppress(FileNotFoundError) or try/except
    naked = [s for s in (tr.finalbody or [st for h in tr.handlers for st in h.body]) if isinstance(s, ast.Expr) and isinstance(s.value, ast.Call) and dotted_of(s.value.func) in WRITE_PRIMS]
    ctx.check("R3", "cleanup steps cannot mask each other", not naked, f, tr,
              "a cleanup call can raise (e.g. temp file already moved) and skip the remaining cleanup", how="each in suppress()/try", nontrivial=False)
    # between mkdtemp and the try
    mk = [n for n in own_nodes(f.node) if isinstance(n, ast.Assign) and isinstance(n.value, ast.Call) and dotted_of(n.value.func) == "tempfile.mkdtemp"]
    ctx.require(len(mk) == 1, "tempfile.mkdtemp assignment not found")
    body = f.node.body
    i0, i1 = body.index(mk[0]), body.index(tr)
    ctx.check("R3", "mkdtemp precedes the try at the same level", i0 < i1, f, mk[0], "mkdtemp is not before the try", nontrivial=False)
    for s in body[i0 + 1 : i1]:
        for c in (x for x in ast.walk(s) if isinstance(x, ast.Call)):
            d = dotted_of(c.func) or norm(c.func)
            ok = d in PURE_STRING
            ctx.check("R3", f"between mkdtemp and try: {d}() cannot raise", ok, f, c,
                      f"{d}() runs after the temp directory exists but outside the try/finally: an exception here (an OSError it does not catch, "
                      "or a ValueError for a path with an embedded null byte) leaks the temp directory",
                      how="only string manipulations of the pure-call table may stand between mkdtemp and the protecting try",
                      construct=f"{d}() between mkdtemp and the cleanup try")
    # dir= of mkdtemp is the destination's directory (same file system, needed for atomic replace)
    dkw = next((k.value for k in mk[0].value.keywords if k.arg == "dir"), None)
    ok = dkw is not None and "D" in of(dkw)
    ctx.check("R3", "temp directory is created next to the destination", ok, f, mk[0],
              "the temp directory is not created in the destination's directory: os.replace may cross file systems",
              how="dir= argument is destination-derived")


def _catches_oserror(ctx, f: FuncInfo, call: ast.Call) -> bool:
    tg, _ = ctx.typer.callees(f, call)
    if not tg:
        return False
    for g in tg:
        for c in calls_in(g):
            d = dotted_of(c.func) or ""
            if d.startswith(("os.", "shutil.", "tempfile.")) and d not in PURE or d == "open":
                ok = False
                for a in _anc(c):
                    if isinstance(a, ast.Try) and any(
                        h.type is None or dotted_of(h.type) in ("OSError", "Exception", "BaseException") for h in a.handlers
                    ) and any(x is c for s in a.body for x in ast.walk(s)):
                        ok = True
                if not ok:
                    return False
    return True


def _anc(node):
    p = getattr(node, "_parent", None)
    while p is not None and not isinstance(p, (ast.FunctionDef, ast.AsyncFunctionDef)):
        yield p
        p = getattr(p, "_parent", None)


def _in_finally(node) -> bool:
    child = node
    for a in _anc(node):
        if isinstance(a, ast.Try) and any(x is child for x in a.finalbody):
            return True
        child = a
    return False


def rule_r4(ctx):
    repo = ctx.repo
    f = repo.func(f"{ED}:_write_external_tensors")
    cfg = CFG(f.node)
    chk = [c for c in calls_in(f) if dotted_of(c.func) == "_check_no_existing_shard_files"]
    ctx.check("R4", "_write_external_tensors calls _check_no_existing_shard_files once", len(chk) == 1, f, f.node,
              "the sharded path does not check for existing destination files: a pre-existing shard is overwritten in place",
              how="call present", construct=f"existence check calls {len(chk)}")
    if len(chk) != 1:
        return
    cn = cfg.nodes_containing(chk[0])[0]
    # shard writes: direct calls and executor.submit(convert_tensors_to_external, …) other than the single-file return
    writes = []
    for c in calls_in(f):
        d = dotted_of(c.func) or ""
        if d == "convert_tensors_to_external":
            writes.append(c)
        elif isinstance(c.func, ast.Attribute) and c.func.attr == "submit" and c.args and dotted_of(c.args[0]) == "convert_tensors_to_external":
            writes.append(c)
    def implies_unsharded(t) -> bool:
        # the test holds only when no shard limit was given: `<limit> is None`, or a conjunction containing it
        if isinstance(t, ast.Compare) and len(t.ops) == 1 and isinstance(t.ops[0], ast.Is) and norm(t.left) == "max_shard_size_bytes" \
                and isinstance(t.comparators[0], ast.Constant) and t.comparators[0].value is None:
            return True
        return isinstance(t, ast.BoolOp) and isinstance(t.op, ast.And) and any(implies_unsharded(v) for v in t.values)

    def in_body(a, c):
        return any(c is x for s_ in a.body for x in ast.walk(s_))

    single = [c for c in writes if isinstance(stmt_of(c), ast.Return) and any(
        isinstance(a, ast.If) and implies_unsharded(a.test) and in_body(a, c) for a in _anc(c))]
    shard = [c for c in writes if c not in single]
    ctx.require(len(shard) >= 2, "shard write sites not found")
    for c in shard:
        wn = cfg.nodes_containing(c)[0]
        ok = cfg.dominates(cn, wn) and isinstance(getattr(chk[0], "_parent", None), ast.Expr)
        ctx.check("R4", f"existence check dominates {norm(c.func)}(… {norm(c.args[0])[:30]} …)", ok, f, c,
                  "a shard file can be written without first checking that no destination exists: a pre-existing "
                  "file is overwritten in place",
                  how="dominator query")
    # the checked list covers the paths that are written: both derive from the same relative-path list
    # both the checked destinations and the shard jobs are built from one list of relative shard paths
    arg = chk[0].args[0] if chk[0].args else None
    src = None
    ok_join = False
    if isinstance(arg, ast.Name):
        for n in own_nodes(f.node):
            if isinstance(n, ast.Assign) and any(isinstance(t, ast.Name) and t.id == arg.id for t in n.targets) and isinstance(n.value, ast.ListComp):
                it = n.value.generators[0].iter
                src = it.id if isinstance(it, ast.Name) else None
                ok_join = any(isinstance(x, ast.Call) and dotted_of(x.func) == "os.path.join" and x.args and "D" not in ("",) for x in ast.walk(n.value.elt))
    elif isinstance(arg, ast.ListComp):
        it = arg.generators[0].iter
        src = it.id if isinstance(it, ast.Name) else None
        ok_join = any(isinstance(x, ast.Call) and dotted_of(x.func) == "os.path.join" for x in ast.walk(arg.elt))
    # loops that create the shard write jobs (they contain a shard write or feed the list the submit loop iterates)
    job_loops = [n for n in own_nodes(f.node) if isinstance(n, ast.For) and src is not None and any(isinstance(x, ast.Name) and x.id == src for x in ast.walk(n.iter))]
    ok = src is not None and ok_join and bool(job_loops)
    ctx.check("R4", f"checked destinations ({norm(arg) if arg is not None else '?'}) are built from the same list as the shard jobs ({src})", ok, f, chk[0],
              "the existence check covers a different list of paths than the one written", how="shared source list of relative paths")
    g = repo.func(f"{ED}:_check_no_existing_shard_files")
    raises = [n for n in own_nodes(g.node) if isinstance(n, ast.Raise)]
    ok = len(raises) == 1 and "os.path.exists" in text(g.node) and not any(isinstance(n, ast.Try) for n in own_nodes(g.node))
    if ok:
        comp = [n for n in own_nodes(g.node) if isinstance(n, ast.ListComp)]
        ok = len(comp) == 1 and norm(comp[0].generators[0].iter) == g.params[0] and len(comp[0].generators[0].ifs) == 1
        # the raise is reached exactly when the list of existing paths (the comprehension's result) is not empty: `if existing: raise`,
        # or `if not existing: return` followed by the raise
        cpar = getattr(comp[0], "_parent", None) if comp else None
        ename = cpar.targets[0].id if isinstance(cpar, ast.Assign) and isinstance(cpar.targets[0], ast.Name) else None

        def nonempty_polarity(t):
            """True: the test holds when the list is non-empty; False: when it is empty; None: something else."""
            if isinstance(t, ast.UnaryOp) and isinstance(t.op, ast.Not):
                r = nonempty_polarity(t.operand)
                return None if r is None else not r
            if isinstance(t, ast.Name) and t.id == ename:
                return True
            if isinstance(t, ast.Compare) and len(t.ops) == 1 and any(isinstance(x, ast.Name) and x.id == ename for x in ast.walk(t.left)) \
                    and isinstance(t.comparators[0], ast.Constant) and t.comparators[0].value == 0:
                return True if isinstance(t.ops[0], (ast.Gt, ast.NotEq, ast.GtE)) else (False if isinstance(t.ops[0], (ast.Eq, ast.LtE)) else None)
            return None

        par = getattr(raises[0], "_parent", None)
        rets = [n for n in own_nodes(g.node) if isinstance(n, ast.Return)]
        if isinstance(par, ast.If) and any(raises[0] is x for x in par.body):
            ok = ok and ename is not None and nonempty_polarity(par.test) is True and not rets
        elif isinstance(par, ast.If) and any(raises[0] is x for x in par.orelse):
            ok = ok and ename is not None and nonempty_polarity(par.test) is False
        elif par is g.node:
            # unconditional raise at the end: every return before it sits under `if <list is empty>`
            guards = [getattr(r, "_parent", None) for r in rets]
            ok = ok and ename is not None and bool(rets) and all(isinstance(q, ast.If) and any(r is x for x in q.body) and nonempty_polarity(q.test) is False
                                                                 for q, r in zip(guards, rets))
        else:
            ok = False
    ctx.check("R4", "_check_no_existing_shard_files rejects if any destination exists", ok, g, g.node,
              "the existence check does not reject on every existing destination", how="single raise guarded by the non-empty list of existing paths")


def rule_r5(ctx, rule="R5"):
    f = ctx.repo.func(f"{ED}:unload_from_model")
    cfg = CFG(f.node)
    a = [c for c in calls_in(f) if dotted_of(c.func) == "convert_tensors_from_external"]
    b = [c for c in calls_in(f) if dotted_of(c.func) == "_write_external_tensors"]
    ctx.require(len(b) == 1, "unload_from_model: _write_external_tensors call not found")
    if len(a) != 1:
        ctx.check(rule, "convert_tensors_from_external dominates _write_external_tensors", False, f, b[0],
                  "small external tensors are not copied to memory before the data files are rewritten", how="call present",
                  construct="missing convert_tensors_from_external")
        return
    an, bn = cfg.nodes_containing(a[0])[0], cfg.nodes_containing(b[0])[0]
    ctx.check(rule, "convert_tensors_from_external dominates _write_external_tensors", cfg.dominates(an, bn) and an.id != bn.id, f, b[0],
              "data files are rewritten before the small external tensors that read from them are copied to memory",
              how="dominator query")


_S6_EXAMPLE = """
def f(tensors, dest):
    seen = {}
    for t in tensors:
        k = t.location
        if k not in seen:
            seen[k] = same(t.path, dest)
"""


def rule_r6(ctx):
    from ..index import FuncInfo as _FI, set_parents
    from ..shared import memo_key_gaps

    # expected number of memo sites on a correct tree is zero: exercise the detector on a built-in example
    ex = ast.parse(_S6_EXAMPLE)
    set_parents(ex)

    class _Stub:
        node = ex.body[0]

    got = memo_key_gaps(_Stub)
    ctx.require(len(got) == 1 and got[0][2] == ["t.path"], "S6 detector does not recognise its built-in positive example")
    ctx.ob("R6", "built-in positive example: memo keyed by t.location caching a function of t.path is detected", True, how="detector self-check")
    for f in ctx.repo.module(ED).all_funcs:
        if isinstance(f.node, ast.Lambda):
            continue
        for memo, st, missing in memo_key_gaps(f):
            ctx.check("R6", f"{f.local}: memo `{memo}` is keyed by everything its value depends on", not missing, f, st,
                      f"`{norm(st)}` caches an answer that depends on {missing} under a key that does not: two tensors with the same key but a "
                      "different path share one answer, so a tensor is invalidated although its own file was not replaced (or kept valid "
                      "although it was)",
                      how="attribute chains of the loop variables read by the memoised expression ⊆ those read by the key",
                      construct=f"memo {memo} key misses {missing}")


def rule_r7(ctx):
    f = ctx.repo.func("onnx_ir._core:ExternalTensor.tofile")
    cfg = CFG(f.node)
    # the completeness loop: `while <remaining> > 0:` whose body raises when a read returns nothing
    loops = [n for n in own_nodes(f.node) if isinstance(n, ast.While) and isinstance(n.test, ast.Compare) and isinstance(n.test.ops[0], (ast.Gt, ast.NotEq))
             and any(isinstance(x, ast.Raise) for st in n.body for x in ast.walk(st))]
    ctx.require(len(loops) == 1, f"ExternalTensor.tofile: remaining-bytes loop not found ({len(loops)} candidates)")
    tn = [n for n in cfg.node_of(loops[0]) if n.kind == "test"][0]
    ok = not cfg.path_exists_avoiding(cfg.entry, {cfg.exit.id}, {tn.id}, exc=False)
    early = [r for r in own_nodes(f.node) if isinstance(r, ast.Return)]
    ctx.check("R7", "ExternalTensor.tofile: every normal exit passes the remaining-bytes check", ok, f, early[0] if early and not ok else loops[0],
              "tofile can return without reaching the loop that verifies that all bytes were copied (and raises when the source is too short): "
              "a source file that ends early yields a short data file and a successful save, which then replaces the existing destination",
              how="the test of the remaining-bytes loop lies on every path from entry to a normal exit", construct="tofile exit bypasses the remaining-bytes check")


_DATA_OPS = {"write", "writelines", "flush", "close", "truncate", "tofile", "fsync", "sendfile", "copy_file_range", "copyfileobj",
             "copymode", "copystat", "replace", "rename", "serialize_file", "save_file", "pwrite", "ftruncate"}
_COVERS_OSERROR = {"OSError", "IOError", "EnvironmentError", "Exception", "BaseException"}


def rule_r8(ctx):
    mods = [ED, "onnx_ir._safetensors", "onnx_ir._core", "onnx_ir.tensor_adapters", "onnx_ir._io"]
    n = 0
    for mn in mods:
        m = ctx.repo.modules.get(mn)
        if m is None:
            continue
        for f in m.all_funcs:
            if isinstance(f.node, ast.Lambda):
                continue
            if mn in ("onnx_ir._core", "onnx_ir.tensor_adapters") and f.name not in ("tofile", "_tofile"):
                continue
            for c in calls_in(f):
                name = c.func.attr if isinstance(c.func, ast.Attribute) else None  # methods and module functions, never a local callable
                if name not in _DATA_OPS:
                    continue
                if name in ("replace", "rename") and (dotted_of(c.func) or "").split(".")[0] not in ("os", "shutil"):
                    continue  # str.replace etc.
                n += 1
                swallowed = None
                child, p = c, getattr(c, "_parent", None)
                while p is not None and p is not f.node:
                    if isinstance(p, (ast.With, ast.AsyncWith)) and any(child is x or any(child is y for y in ast.walk(x)) for x in p.body):
                        for it in p.items:
                            ce = it.context_expr
                            if isinstance(ce, ast.Call) and (dotted_of(ce.func) or "").endswith("suppress"):
                                names = {(dotted_of(a) or "").split(".")[-1] for a in ce.args}
                                if names & _COVERS_OSERROR:
                                    swallowed = p
                    if isinstance(p, ast.Try) and any(child is x for x in p.body):
                        for h in p.handlers:
                            hn = set()
                            if h.type is None:
                                hn = {"BaseException"}
                            else:
                                for t in (h.type.elts if isinstance(h.type, ast.Tuple) else [h.type]):
                                    hn.add((dotted_of(t) or "").split(".")[-1])
                            if hn & _COVERS_OSERROR and not any(isinstance(x, ast.Raise) for st in h.body for x in ast.walk(st)):
                                swallowed = h
                    child, p = p, getattr(p, "_parent", None)
                ctx.check("R8", f"{f.local}: errors of {short(norm(c))} propagate", swallowed is None, f, c,
                          f"an OSError raised by `{short(norm(c))}` is swallowed ({short(norm(swallowed.items[0].context_expr)) if isinstance(swallowed, ast.With) else 'except without re-raise'}): "
                          "bytes still in the buffer are lost when this call fails (disk full, quota, I/O error), yet the save goes on, renames the incomplete "
                          "temporary file over the existing data file and reports success",
                          how="enclosing contextlib.suppress / try-except of every data-bearing file operation on the write path", nontrivial=False,
                          construct=f"swallowed error of {short(norm(c))}")
    ctx.require(n >= 12, f"only {n} data-bearing file operations found on the write path")


def _reaches_samefile(repo, m, e, depth=0) -> bool:
    """The expression calls os.path.samefile, directly or through a function of the module."""
    for c in ast.walk(e):
        if not isinstance(c, ast.Call):
            continue
        d = dotted_of(c.func) or ""
        if d.endswith("samefile"):
            return True
        g = m.functions.get(d)
        if g is not None and depth < 3 and not isinstance(g.node, ast.Lambda) and any(_reaches_samefile(repo, m, st, depth + 1) for st in g.node.body):
            return True
    return False


def _alias_root(f, name: str) -> str:
    """The name a local stands for when it is bound once to another name (`destination_path = resolved`), followed to the end."""
    seen = set()
    while name not in seen:
        seen.add(name)
        bs = [a.value for a in own_nodes(f.node) if isinstance(a, (ast.Assign, ast.AnnAssign)) and getattr(a, "value", None) is not None
              and any(isinstance(t, ast.Name) and t.id == name for t in (a.targets if isinstance(a, ast.Assign) else [a.target]))]
        if len(bs) == 1 and isinstance(bs[0], ast.Name):
            name = bs[0].id
        else:
            break
    return name


def _local_reaches_samefile(repo, m, f, e) -> bool:
    """… the test itself, or a local it reads that is bound (anywhere in the function) to an expression that does."""
    if _reaches_samefile(repo, m, e):
        return True
    for x in ast.walk(e):
        if isinstance(x, ast.Name):
            for a in own_nodes(f.node):
                if isinstance(a, ast.Assign) and any(isinstance(t, ast.Name) and t.id == x.id for t in a.targets) and _reaches_samefile(repo, m, a.value):
                    return True
    return False


def rule_r9(ctx):
    repo = ctx.repo
    n = 0
    for m in repo.pkg_modules():
        for f in m.all_funcs:
            if isinstance(f.node, ast.Lambda) or (f.owner_class is not None and f.owner_class.name in ("ExternalTensor", "MetadataStore")):
                continue
            if repo.transparent_callers(f) is not None:
                continue  # a private helper that exists only as a part of its callers: examined inside each of them (E1b)
            for c in calls_in(f):
                if not (isinstance(c.func, ast.Attribute) and c.func.attr == "invalidate" and not c.args and not c.keywords):
                    continue
                n += 1
                replaces = any((dotted_of(x.func) or "") in ("os.replace", "os.rename", "shutil.move") for x in calls_in(f))
                # the receiver is the target of a loop over a local collection …
                recv = c.func.value
                loop = getattr(c, "_parent", None)
                while loop is not None and not (isinstance(loop, ast.For) and isinstance(loop.target, ast.Name) and isinstance(recv, ast.Name) and loop.target.id == recv.id):
                    loop = getattr(loop, "_parent", None)
                selected = False
                if loop is not None and isinstance(loop.iter, ast.Name):
                    coll = _alias_root(f, loop.iter.id)
                    defs = [a.value for a in own_nodes(f.node) if isinstance(a, (ast.Assign, ast.AnnAssign)) and a.value is not None
                            and any(isinstance(t, ast.Name) and t.id == coll for t in (a.targets if isinstance(a, ast.Assign) else [a.target]))]
                    # … every definition of which filters by file identity
                    selected = bool(defs) and all(isinstance(v, (ast.ListComp, ast.SetComp, ast.GeneratorExp)) and any(
                        _reaches_samefile(repo, m, cond) for g in v.generators for cond in g.ifs) for v in defs)
                    if not selected and defs:
                        # or a loop that appends under such a test
                        apps = [x for x in calls_in(f) if isinstance(x.func, ast.Attribute) and x.func.attr in ("append", "add") and norm(x.func.value) == coll]
                        def guarded(x):
                            p = getattr(x, "_parent", None)
                            while p is not None and p is not f.node:
                                if isinstance(p, ast.If) and _local_reaches_samefile(repo, m, f, p.test):
                                    return True
                                p = getattr(p, "_parent", None)
                            return False
                        selected = bool(apps) and all(guarded(x) for x in apps) and all(
                            isinstance(v, (ast.List, ast.Set)) and not v.elts or (isinstance(v, ast.Call) and dotted_of(v.func) in ("list", "set") and not v.args) for v in defs)
                ok = replaces and selected
                why = ("the function replaces no file" if not replaces else "the tensors are not selected by file identity (no filter that reaches os.path.samefile decides which ones are invalidated)")
                ctx.check("R9", f"{f.local}: {norm(c)} only for tensors whose file was replaced", ok, f, c,
                          f"`{norm(c)}`: {why} - a tensor is invalidated although the bytes of its backing file were not replaced (a file of the same name in another "
                          "directory), so reading it raises and the model cannot be saved again, while the file it points to is intact",
                          how="invalidate() call sites outside the tensor class: enclosing function calls os.replace; receiver ranges over a collection filtered through os.path.samefile",
                          construct=f"invalidate in {f.local}")
    ctx.require(n >= 1, "no invalidate() call found outside the tensor class")


def rule_r10(ctx):
    f = ctx.repo.func("onnx_ir.external_data:_write_external_data")
    cfg = CFG(f.node)
    mk = [c for c in calls_in(f) if (dotted_of(c.func) or "") == "tempfile.mkdtemp"]
    ctx.require(len(mk) == 1, "_write_external_data: tempfile.mkdtemp call not found")
    # the temporary path and the expression whose base name it takes
    def unlocal(x):
        # a local bound once stands for its expression (`_base = os.path.basename(dest)`)
        if isinstance(x, ast.Name):
            bs = [a.value for a in own_nodes(f.node) if isinstance(a, ast.Assign) and any(isinstance(t, ast.Name) and t.id == x.id for t in a.targets)]
            if len(bs) == 1:
                return bs[0]
        return x

    def is_base(x):
        x = unlocal(x)
        return isinstance(x, ast.Call) and (dotted_of(x.func) or "") == "os.path.basename" and bool(x.args)

    joins = [a for a in own_nodes(f.node) if isinstance(a, ast.Assign) and isinstance(a.value, ast.Call) and (dotted_of(a.value.func) or "") == "os.path.join"
             and any(is_base(x) for x in a.value.args)]
    ctx.require(bool(joins), "_write_external_data: the temporary path is not join(<dir>, basename(<destination>))")
    def root(e):
        return _alias_root(f, e.id) if isinstance(e, ast.Name) else norm(e)

    based = {root(unlocal(x).args[0]) for a in joins for x in a.value.args if is_base(x)}
    mn = cfg.nodes_containing(mk[0])[0]
    ok = False
    for iff in (x for x in own_nodes(f.node) if isinstance(x, ast.If) and x.body and isinstance(x.body[-1], ast.Raise)):
        t = iff.test
        neg = isinstance(t, ast.UnaryOp) and isinstance(t.op, ast.Not)
        inner = t.operand if neg else t
        inner = unlocal(inner)
        is_basename = isinstance(inner, ast.Call) and (dotted_of(inner.func) or "") == "os.path.basename" and inner.args and root(inner.args[0]) in based
        empty_cmp = isinstance(t, ast.Compare) and len(t.ops) == 1 and isinstance(t.ops[0], ast.Eq) and any(
            isinstance(x, ast.Call) and (dotted_of(x.func) or "") == "os.path.basename" and x.args and root(x.args[0]) in based for x in (t.left, t.comparators[0])) and any(
            isinstance(x, ast.Constant) and x.value == "" for x in (t.left, t.comparators[0]))
        if (neg and is_basename) or empty_cmp:
            tn = [x for x in cfg.node_of(iff) if x.kind == "test"]
            if tn and cfg.dominates(tn[0], mn):
                ok = True
    ctx.check("R10", "_write_external_data: a destination without a base name is refused before the temporary directory exists", ok, f, mk[0],
              f"the temporary path is `{norm(joins[0].value)[:70]}` and nothing refuses a destination whose base name is empty before `tempfile.mkdtemp`: for 'dir/' (or '') the "
              "temporary path is the temporary directory itself - the write fails, `os.remove` in the cleanup fails on a directory with an error that is not suppressed, and the "
              "temporary directory stays behind",
              how="a rejection on `not os.path.basename(<destination>)` dominates tempfile.mkdtemp", construct="temporary file without a name")


def rule_r11(ctx):
    m = ctx.repo.module("onnx_ir.external_data")
    f = ctx.repo.func("onnx_ir.external_data:_write_external_data")
    n = 0
    for x in own_nodes(f.node):
        tests = []
        if isinstance(x, ast.IfExp):
            tests = [(x.test, x.body, x)]
        elif isinstance(x, ast.If):
            tests = [(x.test, st.value, st) for st in x.body if isinstance(st, ast.Assign)]
        for t, chosen, node in tests:
            links = [c for c in ast.walk(t) if isinstance(c, ast.Call) and (dotted_of(c.func) or "") == "os.path.islink" and c.args]
            if not links:
                continue
            n += 1
            ok = isinstance(chosen, ast.Call) and (dotted_of(chosen.func) or "") == "os.path.realpath" and chosen.args and norm(chosen.args[0]) == norm(links[0].args[0])
            ctx.check("R11", f"_write_external_data: a link destination is resolved with os.path.realpath({norm(links[0].args[0])})", ok, f, node,
                      f"`{norm(chosen)[:80]}` is what the writer takes for the destination when `{norm(links[0])}` holds: unless that is the fully resolved path, the file that "
                      "os.replace replaces is not the file `os.path.samefile` matched the tensors against - for a link to a link the intermediate link becomes a regular "
                      "file, the real data file keeps its bytes and the tensors reading from it are invalidated all the same",
                      how="the alternative chosen under os.path.islink(p) is os.path.realpath(p)", construct="link destination resolved one level only")
    one_level = [c for g in m.all_funcs if not isinstance(g.node, ast.Lambda) for c in calls_in(g) if (dotted_of(c.func) or "") in ("os.readlink",)]
    for c in one_level:
        ctx.check("R11", "the external-data module resolves links completely", False, f, c,
                  f"`{norm(c)[:60]}` follows a symbolic link by one level: the path it gives can itself be a link, so what is written or replaced is not the file the "
                  "tensors are matched against", how="no os.readlink in the external-data module", construct="os.readlink in the external-data module")
    ctx.require(n >= 1, "_write_external_data: the resolution of a symbolic-link destination was not found")


def rule_r12(ctx):
    m = ctx.repo.module(ED)
    n = 0
    for f in ctx.repo.live(m.all_funcs):
        if isinstance(f.node, ast.Lambda):
            continue
        submits = [c for c in calls_in(f) if isinstance(c.func, ast.Attribute) and c.func.attr == "submit"]
        if not submits:
            continue
        n += 1
        results = [c for c in calls_in(f) if isinstance(c.func, ast.Attribute) and c.func.attr == "result" and not c.args]
        excs = [c for c in calls_in(f) if isinstance(c.func, ast.Attribute) and c.func.attr == "exception" and not c.args]
        bad = None
        why = ""
        if not results and not excs:
            bad, why = submits[0], "the futures it submits are never consumed with `.result()`"
        for c in excs:
            # the name the outcome is bound to, and the raise of it
            par = getattr(c, "_parent", None)
            nm = par.targets[0].id if isinstance(par, ast.Assign) and isinstance(par.targets[0], ast.Name) else None
            raises = [r for r in own_nodes(f.node) if isinstance(r, ast.Raise) and r.exc is not None and nm is not None and norm(r.exc) == nm]
            if not raises:
                bad, why = c, f"the outcome of `{norm(c)}` is not raised again"
                continue
            for r in raises:
                q = getattr(r, "_parent", None)
                while q is not None and q is not f.node:
                    if isinstance(q, ast.If):
                        t = q.test
                        plain = isinstance(t, ast.Compare) and len(t.ops) == 1 and isinstance(t.ops[0], ast.IsNot) and norm(t.left) == nm \
                            and isinstance(t.comparators[0], ast.Constant) and t.comparators[0].value is None
                        plain = plain or (isinstance(t, ast.Name) and t.id == nm)
                        if not plain and any(isinstance(y, ast.Name) and y.id == nm for y in ast.walk(t)):
                            bad, why = t, f"`raise {nm}` is governed by `{norm(t)}`, which lets some outcomes pass unraised"
                    q = getattr(q, "_parent", None)
        ctx.check("R12", f"{f.local}: every failure of a submitted worker is raised to the caller", bad is None, f, bad if bad is not None else f.node,
                  f"{why}: a worker that ends with an exception outside that filter (asyncio.CancelledError, KeyboardInterrupt, SystemExit - a callback cancelling the save) is taken "
                  "for a success; the writer returns normally, and the temporary file with a hole where that tensor should be is renamed over the existing data file",
                  how="futures submitted in the writers are consumed by `.result()`, or by `.exception()` re-raised under `is not None` only",
                  construct="worker outcome filtered before it is raised")
    ctx.require(n >= 2, f"only {n} functions that submit work to an executor found in the writers")


def rule_r13(ctx):
    m = ctx.repo.module(ED)
    n = 0
    for f in ctx.repo.live(m.all_funcs):
        if isinstance(f.node, ast.Lambda):
            continue
        for t in (x for x in own_nodes(f.node) if isinstance(x, ast.Try)):
            n += 1
            asks = next((c for st in t.body for c in ast.walk(st) if isinstance(c, ast.Call) and isinstance(c.func, ast.Attribute)
                         and c.func.attr in ("tofile", "tobytes", "numpy", "__array__")), None)
            if asks is None:
                continue
            for h in t.handlers:
                reraises = bool(h.body) and isinstance(h.body[-1], ast.Raise)
                ctx.check("R13", f"{f.local}: the handler `except {norm(h.type) if h.type is not None else ''}` around `{norm(asks)[:40]}` re-raises", reraises, f, h,
                          f"`except {norm(h.type) if h.type is not None else ''}:` around `{norm(asks)[:50]}` ends without raising: an exception of that class that comes from inside the tensor "
                          "(after it has written part of its bytes) is taken for something else and the save carries on - the destination is replaced by a file that mixes partial and "
                          "complete tensor bytes, and the caller is told nothing",
                          how="try statements of the external-data module whose body calls tofile / tobytes / numpy on a tensor × handlers that do not end in `raise`",
                          construct=f"tensor exception swallowed by except {norm(h.type) if h.type is not None else ''}")
    ctx.ob("R13", f"{n} try statements of the external-data module examined", True, how="handlers around tensor byte producers")
    ctx.require(n >= 3, f"only {n} try statements found in the external-data module")


def run(ctx):
    rule_r13(ctx)
    rule_r12(ctx)
    rule_r11(ctx)
    rule_r10(ctx)
    rule_r9(ctx)
    rule_r8(ctx)
    rule_r7(ctx)
    rule_r6(ctx)
    rule_r1_r2_r3(ctx)
    rule_r4(ctx)
    rule_r5(ctx)
