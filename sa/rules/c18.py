"""C18 — region extraction and capture analysis are exact."""

from __future__ import annotations

import ast

from ..cfg import CFG
from ..facts import calls_in
from ..index import dotted_of, norm, own_nodes
from ..shared import s1_sites

PROPERTY = "C18"
RULES = {
    "R1": "independence: every return of extract() is the result of a clone-producing call on a view built inside the "
    "function (the clone's independence is C13's)",
    "R2": "nested scopes: GRAPH and GRAPHS attributes are handled alike in the region search and in the implicit-usage "
    "analysis (S1); graph_stack pushes and pops are paired on every path",
    "R3": "boundedness: the frontier validation (raise on a required value not covered by the inputs) comes after the "
    "traversal and dominates the normal return; the traversal stops at the given inputs and records initializers",
    "R4": "ownership anchors are owning graphs: a parameter that the region search / capture analysis compares by identity "
    "with `<value>.graph` receives, at every call site (followed up through forwarding parameters), an expression whose "
    "inferred classes are all Graph - a GraphView or Function is never the `.graph` of a value, so the test would be "
    "constantly false and captured outer values would be skipped",
}
FLOORS = {"R1": 1, "R2": 4, "R3": 3, "R4": 2}
EXPLANATION = (
    "Return-value provenance of extract(), sibling agreement of the two subgraph-attribute branches, push/pop pairing "
    "and dominance of the boundary validation over the result."
)
NOT_DECIDED = (
    "exactness of the node set and of the capture sets; evaluation equivalence of the extracted graph (properties of values)"
)
ASSUMPTIONS = ["GraphView.clone() / Cloner.clone_graph produce independent graphs (decided by C13)"]

EX = "onnx_ir._convenience._extractor"
IU = "onnx_ir.analysis._implicit_usage"


def _anchor_params(ctx, f) -> set[str]:
    """Parameters of f compared by identity with <Value-typed>.graph."""
    out = set()
    for n in own_nodes(f.node):
        if isinstance(n, ast.Compare) and len(n.ops) == 1 and isinstance(n.ops[0], (ast.Is, ast.IsNot)):
            a, b = n.left, n.comparators[0]
            for x, y in ((a, b), (b, a)):
                if isinstance(x, ast.Attribute) and x.attr == "graph" and isinstance(y, ast.Name) and y.id in f.params \
                        and (not ctx.typer.recv_classes(f, x.value) or any(k.name == "Value" for k in ctx.typer.recv_classes(f, x.value))):
                    out.add(y.id)
    return out


def _arg_for(call: ast.Call, g, param: str):
    if param in g.params:
        i = g.params.index(param)
        if i < len(call.args) and not any(isinstance(a, ast.Starred) for a in call.args[: i + 1]):
            return call.args[i]
    for k in call.keywords:
        if k.arg == param:
            return k.value
    return None


def _narrowed(f, call, name: str):
    """Classes `name` is narrowed to by enclosing `if isinstance(name, T)` tests (T as written), or None."""
    p = getattr(call, "_parent", None)
    prev = call
    while p is not None and p is not f.node:
        if isinstance(p, ast.If) and prev in p.body:
            for t in ast.walk(p.test):
                if isinstance(t, ast.Call) and dotted_of(t.func) == "isinstance" and len(t.args) == 2 and norm(t.args[0]) == name:
                    return t.args[1]
        prev, p = p, getattr(p, "_parent", None)
    return None


def rule_r4(ctx):
    repo, ty = ctx.repo, ctx.typer
    graph_cls = repo.cls("onnx_ir._core:Graph")
    funcs = [f for mn in (EX, IU) for f in repo.modules[mn].all_funcs]
    anchors = {(f.key, p) for f in funcs for p in _anchor_params(ctx, f)}
    ctx.require(bool(anchors), "no ownership-anchor parameter (compared by identity with <value>.graph) found")
    ctx.tables["ownership anchor parameters"] = sorted(f"{k}({p})" for k, p in anchors)
    work, done, n = list(anchors), set(), 0
    by_key = {f.key: f for f in funcs}
    while work:
        key, param = work.pop()
        if (key, param) in done:
            continue
        done.add((key, param))
        g = by_key[key]
        for f in funcs:
            for c in calls_in(f):
                hits, _ = ty.callees(f, c, False)
                if g not in hits:
                    continue
                arg = _arg_for(c, g, param)
                if arg is None:
                    continue
                if isinstance(arg, ast.Name) and arg.id in f.params and not any(
                        isinstance(x, (ast.Assign, ast.AnnAssign)) and any(norm(t) == arg.id for t in (x.targets if isinstance(x, ast.Assign) else [x.target]))
                        for x in own_nodes(f.node)):
                    work.append((f.key, arg.id))  # forwarded parameter: the obligation moves to f's callers
                    ctx.ob("R4", f"{f.local} forwards its parameter {arg.id} to {g.local}({param})", True, nontrivial=False, how="followed to the callers")
                    continue
                n += 1
                classes = [a[1] for a in ty.type_of(f, arg) if a[0] == "cls"]
                if isinstance(arg, ast.Name):
                    nt = _narrowed(f, c, arg.id)
                    if nt is not None:
                        classes = [a[1] for a in ty.ann(nt, f.module) if a[0] == "cls"] or classes
                bad = [k for k in classes if not repo.is_subclass(k, graph_cls)]
                ctx.check("R4", f"{f.local}: {g.local}({param}={norm(arg)}) is an owning graph", not bad, f, c,
                          f"`{norm(arg)}` may be a {'/'.join(sorted(k.name for k in bad))}, which is never the `.graph` of a value: the identity "
                          f"test in {g.local} is then always false, so outer-scope values captured by nested subgraphs are not followed "
                          "and their producers / initializers are left out of the extracted region",
                          how="inferred classes of the argument (declared/assigned types, isinstance narrowing) ⊆ Graph",
                          construct=f"{g.local}({param}={norm(arg)})")
    ctx.require(n >= 1, "no call site supplies an ownership anchor")


def run(ctx):
    rule_r4(ctx)
    repo = ctx.repo
    f = repo.func(f"{EX}:extract")
    rets = [n for n in own_nodes(f.node) if isinstance(n, ast.Return)]
    ctx.require(bool(rets), "extract: no return")
    views = {norm(n.targets[0]) for n in own_nodes(f.node) if isinstance(n, ast.Assign) and isinstance(n.value, ast.Call)
             and (dotted_of(n.value.func) or "").endswith("GraphView")}
    for r in rets:
        v = r.value
        ok = isinstance(v, ast.Call) and isinstance(v.func, ast.Attribute) and v.func.attr in ("clone", "clone_graph") and (
            norm(v.func.value) in views or (v.args and norm(v.args[0]) in views))
        ctx.check("R1", f"extract: {norm(r)}", bool(ok), f, r,
                  "extract returns an object that is (or shares nodes/values with) the source graph instead of a clone of a view",
                  how="returned expression is <view built here>.clone() / Cloner.clone_graph(<view>)")
    n = 0
    for g, node, ok, detail, label in s1_sites(repo, {EX, IU}):
        n += 1
        ctx.check("R2", f"S1 {g.local}: {label}"[:150], ok, g, node, detail, how="GRAPH/GRAPHS sibling agreement", construct=f"S1 {label}")
    ctx.require(n >= 2, "GRAPH/GRAPHS dispatch in extractor / implicit usage not found")
    p = repo.func(f"{IU}:_process_node")
    cfg = CFG(p.node)
    pushes = [c for c in calls_in(p) if norm(c.func) == "graph_stack.append"]
    pops = [c for c in calls_in(p) if norm(c.func) == "graph_stack.pop"]
    ok = len(pushes) == len(pops) and len(pushes) >= 2
    for a in pushes:
        an = cfg.nodes_containing(a)[0]
        blk = getattr(getattr(a, "_parent", None), "_parent", None)
        mate = [b for b in pops if getattr(getattr(b, "_parent", None), "_parent", None) is blk]
        ok = ok and len(mate) == 1 and cfg.dominates(an, cfg.nodes_containing(mate[0])[0]) and \
            not any(isinstance(x, (ast.Return, ast.Break, ast.Continue, ast.Raise)) for s in getattr(blk, "body", []) for x in ast.walk(s))
    ctx.check("R2", f"_process_node: {len(pushes)} graph_stack pushes each paired with a pop in the same block", bool(ok), p, p.node,
              "a subgraph is pushed on the scope stack and not popped on some path: captures are attributed to the wrong graphs",
              how="push dominates its pop; no early exit in between")
    # every subgraph gets an entry, even when it captures nothing
    inits = [n for n in own_nodes(p.node) if isinstance(n, ast.Assign) and isinstance(n.targets[0], ast.Subscript) and norm(n.targets[0].value) == "implicit_usages"]
    ctx.check("R2", "every visited subgraph gets a capture set", len(inits) == len(pushes), p, p.node,
              "a subgraph without captures is missing from the result", how="one initialisation per push", nontrivial=False)
    c = repo.func(f"{IU}:_collect_implicit_usages")
    brk = [n for n in own_nodes(c.node) if isinstance(n, ast.If) and " is inp.graph" in norm(n.test) and any(isinstance(s, ast.Break) for s in n.body)]
    rev = [n for n in own_nodes(c.node) if isinstance(n, ast.For) and norm(n.iter) == "reversed(graph_stack)"]
    ctx.check("R2", "a captured value is charged to every enclosing graph up to (not including) its owner", bool(brk) and bool(rev), c, c.node,
              "captures are not propagated through all enclosing subgraphs", how="reverse walk of the stack, break at the owning graph")
    # R3
    s = repo.func(f"{EX}:_find_subgraph_bounded_by_values")
    cfg = CFG(s.node)
    raises = [n for n in own_nodes(s.node) if isinstance(n, ast.Raise)]
    rets = [n for n in own_nodes(s.node) if isinstance(n, ast.Return)]
    loops = [n for n in own_nodes(s.node) if isinstance(n, ast.While)]
    ok = len(raises) == 1 and len(rets) == 1 and len(loops) == 1
    if ok:
        iff = getattr(raises[0], "_parent", None)
        ok = isinstance(iff, ast.If)
        # the test is about the frontier values collected above (not a constant): it names a local that is filled in
        # a loop over the frontier
        tested = {x.id for x in ast.walk(iff.test) if isinstance(x, ast.Name)} if ok else set()
        filled = {norm(c.func.value) for c in calls_in(s) if isinstance(c.func, ast.Attribute) and c.func.attr in ("append", "add")}
        ok = ok and bool(tested & filled)
        tn = [x for x in cfg.node_of(iff) if x.kind == "test"][0]
        wn = [x for x in cfg.node_of(loops[0]) if x.kind == "test"][0]
        ok = ok and cfg.dominates(tn, cfg.node_of(rets[0])[0]) and cfg.dominates(wn, tn) and iff in s.node.body and loops[0] in s.node.body \
            and s.node.body.index(loops[0]) < s.node.body.index(iff)
    ctx.check("R3", "the frontier validation follows the traversal and dominates the return", bool(ok), s, s.node,
              "the region is returned without checking that every required non-initializer value is covered by the inputs",
              how="while-loop → validation test → return, by dominators")
    vis = [n for n in own_nodes(s.node) if isinstance(n, (ast.Assign, ast.AnnAssign)) and norm(n.targets[0] if isinstance(n, ast.Assign) else n.target) == "visited_values"]
    ok = bool(vis) and "set(inputs)" in norm(vis[0].value)
    ctx.check("R3", "the traversal stops at the given inputs", ok, s, s.node, "inputs are not pre-marked as visited: the region grows past its boundary",
              how="visited_values initialised with the inputs")
    chk = [n for n in own_nodes(s.node) if isinstance(n, ast.If) and "not in inputs_set" in norm(n.test) and "is_initializer()" in norm(n.test)]
    ctx.check("R3", "a frontier value is accepted only if it is a given input or an initializer", bool(chk), s, s.node,
              "the frontier test accepts values that are neither inputs nor initializers", how="`val not in inputs_set and not val.is_initializer()`")
    srt = [c for c in calls_in(s) if norm(c.func) == "all_nodes.sort"]
    ctx.check("R3", "extracted nodes are put back in their original order", bool(srt) and "node_index" in norm(srt[0]), s, s.node,
              "nodes are returned in traversal order", how="sort by original index", nontrivial=False)
    ini = [n for n in own_nodes(s.node) if isinstance(n, ast.Call) and norm(n.func) == "initialized_values.add"]
    ctx.check("R3", "initializers met during the traversal are recorded", bool(ini), s, s.node, "needed initializers are not collected", nontrivial=False)
