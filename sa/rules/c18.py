"""C18 — region extraction and capture analysis are exact."""

from __future__ import annotations

import ast

from ..cfg import CFG
from ..facts import calls_in
from ..index import FuncInfo, dotted_of, norm, own_nodes, short
from ..shared import s1_sites

PROPERTY = "C18"
RULES = {
    "R1": "independence: every return of extract() is the result of a clone-producing call on a view built inside the "
    "function (the clone's independence is C13's)",
    "R2": "nested scopes: GRAPH and GRAPHS attributes are handled alike in the region search and in the implicit-usage "
    "analysis (S1); graph_stack pushes and pops are paired on every path",
    "R3": "original order: the position table behind the final sort enumerates the searched graph-like (a parameter that is "
    "not an ownership anchor) ; boundedness: the frontier validation (raise on a required value not covered by the inputs) comes after the "
    "traversal and dominates the normal return; the traversal stops at the given inputs and records initializers",
    "R4": "ownership anchors are owning graphs: a parameter that the region search / capture analysis compares by identity "
    "with `<value>.graph` receives, at every call site (followed up through forwarding parameters), an expression whose "
    "inferred classes are all Graph - a GraphView or Function is never the `.graph` of a value, so the test would be "
    "constantly false and captured outer values would be skipped",
    "R5": "the clone that ends an extraction rejects uncovered outer-scope values: the Cloner constructed by the clone() "
    "method that extract() returns through has allow_outer_scope_values false - passed explicitly as False, or left "
    "to a parameter default that is the constant False (the frontier check only sees direct inputs of the selected "
    "nodes; values captured by nested bodies are caught by the cloner)",
    "R6": "the clone that ends an extraction looks its graph outputs up strictly: in Cloner.clone_graph the values of "
    "`graph.outputs` are resolved by a method that only reads the value map (an unmapped output raises) - a method that "
    "creates a fresh Value for an unmapped one lets extract() return a graph whose output is neither an input, an initializer "
    "nor a node output instead of raising for an uncovered required value",
    "R7": "no answer survives an edit (shared rule S14): in the extractor, the capture analysis and the traversal they share, no "
    "function is memoised (functools.cache / lru_cache / cached_property) over a graph, node or value argument - such a cache is "
    "keyed by object identity and never invalidated, so the captured set of a nested body is frozen at the first extraction and a "
    "second extraction after an edit selects too much (spurious boundary error) or too little (clone fails)",
    "R8": "a boundary name means a value of the graph extracted from: the table through which the extractor resolves inputs / outputs given "
    "as strings is built from that graph alone - every call of a name-to-value mapping helper that has an option to descend into "
    "subgraphs switches it off (`include_subgraphs=False`); with the helper's default, a name is matched against every nested body "
    "first-come-first-served, so a name shared by a value inside an If body and a later top-level value selects the nested one and the "
    "extraction by name differs from the extraction by object (KeyError, or a spurious `not properly bounded`)",
    "R9": "a reference attribute holds no graph (shared rule S18): where the extractor and the implicit-capture analysis dispatch on "
    "`attr.type == GRAPH / GRAPHS` and read the attribute's graphs, an is_ref() test that skips the attribute comes first - a node of a "
    "function body may take its branches from attribute parameters (`RefAttr('then_branch', 'p', GRAPH)`); such an attribute holds "
    "nothing to walk, and a perfectly bounded region (or a function whose implicit captures are asked for) must not end in TypeError",
    "R10": "what a loop found is not read off its last iteration (shared rule S17): in the extractor, the implicit-usage analysis and the "
    "cloner, a statement that follows a loop reads neither the loop's variable nor a flag that the loop body resets at the start of every "
    "iteration - `return tuple(new) if spec_changed else original` after the loop over a node's configurations answers for the last "
    "configuration only, so the remapped earlier ones are dropped and the extracted node keeps sharding specs bound to values of the source",
}
FLOORS = {"R1": 1, "R2": 4, "R3": 3, "R4": 2, "R5": 1, "R6": 1, "R7": 1, "R8": 1, "R9": 2, "R10": 10}
EXPLANATION = (
    "Return-value provenance of extract(), sibling agreement of the two subgraph-attribute branches, push/pop pairing "
    "and dominance of the boundary validation over the result."
)
NOT_DECIDED = (
    "exactness of the node set and of the capture sets; evaluation equivalence of the extracted graph (properties of values)"
)
ASSUMPTIONS = ["GraphView.clone() / Cloner.clone_graph produce independent graphs (decided by C13)"]

EX = "onnx_ir._convenience._extractor"
IU = "onnx_ir.analysis._implicit_usage"


def _unalias(f, e):
    """A local bound exactly once stands for the expression it is bound to (`enclosing = stack[1:]`)."""
    if isinstance(e, ast.Name) and e.id not in f.params:
        binds = [n for n in own_nodes(f.node) if (isinstance(n, ast.Assign) and any(isinstance(t, ast.Name) and t.id == e.id for t in n.targets))
                 or (isinstance(n, (ast.AnnAssign, ast.AugAssign, ast.NamedExpr, ast.For)) and isinstance(getattr(n, "target", None), ast.Name) and n.target.id == e.id)]
        if len(binds) == 1 and isinstance(binds[0], (ast.Assign, ast.AnnAssign)) and binds[0].value is not None:
            return binds[0].value
    return e


def _graph_read(f, x):
    """The `<e>.graph` read an expression denotes: the attribute itself, or a local bound once to one (`owner = v.graph`)."""
    if isinstance(x, ast.Attribute) and x.attr == "graph":
        return x
    if isinstance(x, ast.Name) and x.id not in f.params:
        binds = [n for n in own_nodes(f.node) if (isinstance(n, ast.Assign) and any(isinstance(t, ast.Name) and t.id == x.id for t in n.targets))
                 or (isinstance(n, (ast.AnnAssign, ast.AugAssign, ast.NamedExpr, ast.For)) and isinstance(getattr(n, "target", None), ast.Name) and n.target.id == x.id)]
        if len(binds) == 1 and isinstance(binds[0], ast.Assign) and isinstance(binds[0].value, ast.Attribute) and binds[0].value.attr == "graph":
            return binds[0].value
    return None


def _anchor_params(ctx, f) -> set[str]:
    """Parameters of f compared by identity with <Value-typed>.graph."""
    out = set()
    for n in own_nodes(f.node):
        if isinstance(n, ast.Compare) and len(n.ops) == 1 and isinstance(n.ops[0], (ast.Is, ast.IsNot)):
            a, b = n.left, n.comparators[0]
            for x, y in ((a, b), (b, a)):
                x = _graph_read(f, x)
                if x is not None and isinstance(y, ast.Name) and y.id in f.params \
                        and (not ctx.typer.recv_classes(f, x.value) or any(k.name == "Value" for k in ctx.typer.recv_classes(f, x.value))):
                    out.add(y.id)
    return out


def _arg_for(call: ast.Call, g, param: str):
    if param in g.params:
        i = g.params.index(param)
        if i < len(call.args) and not any(isinstance(a, ast.Starred) for a in call.args[: i + 1]):
            return call.args[i]
    for k in call.keywords:
        if k.arg == param:
            return k.value
    return None


def _narrowed(f, call, name: str):
    """Classes `name` is narrowed to by enclosing `if isinstance(name, T)` tests (T as written), or None."""
    p = getattr(call, "_parent", None)
    prev = call
    while p is not None and p is not f.node:
        if isinstance(p, ast.If) and prev in p.body:
            for t in ast.walk(p.test):
                if isinstance(t, ast.Call) and dotted_of(t.func) == "isinstance" and len(t.args) == 2 and norm(t.args[0]) == name:
                    return t.args[1]
        prev, p = p, getattr(p, "_parent", None)
    return None


def rule_r4(ctx):
    repo, ty = ctx.repo, ctx.typer
    graph_cls = repo.cls("onnx_ir._core:Graph")
    funcs = [f for mn in (EX, IU) for f in repo.modules[mn].all_funcs]
    anchors = {(f.key, p) for f in funcs for p in _anchor_params(ctx, f)}
    ctx.require(bool(anchors), "no ownership-anchor parameter (compared by identity with <value>.graph) found")
    ctx.tables["ownership anchor parameters"] = sorted(f"{k}({p})" for k, p in anchors)
    work, done, n = list(anchors), set(), 0
    by_key = {f.key: f for f in funcs}
    while work:
        key, param = work.pop()
        if (key, param) in done:
            continue
        done.add((key, param))
        g = by_key[key]
        for f in funcs:
            for c in calls_in(f):
                hits, _ = ty.callees(f, c, False)
                if g not in hits:
                    continue
                arg = _arg_for(c, g, param)
                if arg is None:
                    continue
                if isinstance(arg, ast.Name) and arg.id in f.params and not any(
                        isinstance(x, (ast.Assign, ast.AnnAssign)) and any(norm(t) == arg.id for t in (x.targets if isinstance(x, ast.Assign) else [x.target]))
                        for x in own_nodes(f.node)):
                    work.append((f.key, arg.id))  # forwarded parameter: the obligation moves to f's callers
                    ctx.ob("R4", f"{f.local} forwards its parameter {arg.id} to {g.local}({param})", True, nontrivial=False, how="followed to the callers")
                    continue
                n += 1
                classes = [a[1] for a in ty.type_of(f, arg) if a[0] == "cls"]
                if isinstance(arg, ast.Name):
                    nt = _narrowed(f, c, arg.id)
                    if nt is not None:
                        classes = [a[1] for a in ty.ann(nt, f.module) if a[0] == "cls"] or classes
                bad = [k for k in classes if not repo.is_subclass(k, graph_cls)]
                ctx.check("R4", f"{f.local}: {g.local}({param}={norm(arg)}) is an owning graph", not bad, f, c,
                          f"`{norm(arg)}` may be a {'/'.join(sorted(k.name for k in bad))}, which is never the `.graph` of a value: the identity "
                          f"test in {g.local} is then always false, so outer-scope values captured by nested subgraphs are not followed "
                          "and their producers / initializers are left out of the extracted region",
                          how="inferred classes of the argument (declared/assigned types, isinstance narrowing) ⊆ Graph",
                          construct=f"{g.local}({param}={norm(arg)})")
    ctx.require(n >= 1, "no call site supplies an ownership anchor")
    rule_order_source(ctx, funcs, done)


def rule_order_source(ctx, funcs, anchor_params):
    """"In their original order": the position table that sorts the selected nodes enumerates the graph-like that is being
    searched - a parameter that is not an ownership anchor (the anchor is the owning Graph of the boundary values; for a
    view it lists other nodes, in another order, than the source of the extraction)."""
    n = 0
    for f in funcs:
        if f.module.name != EX:
            continue
        for c in calls_in(f):
            is_sort = (isinstance(c.func, ast.Attribute) and c.func.attr == "sort") or dotted_of(c.func) == "sorted"
            key = next((k.value for k in c.keywords if k.arg == "key"), None)
            if not is_sort or key is None:
                continue
            if isinstance(key, ast.Lambda):
                tabs = [x.value.id for x in ast.walk(key.body) if isinstance(x, ast.Subscript) and isinstance(x.value, ast.Name)]
            elif isinstance(key, ast.Attribute) and key.attr in ("__getitem__", "get") and isinstance(key.value, ast.Name):
                tabs = [key.value.id]  # key=<table>.__getitem__ / <table>.get
            else:
                continue
            for tab in tabs:
                for a in own_nodes(f.node):
                    if not (isinstance(a, ast.Assign) and any(isinstance(t, ast.Name) and t.id == tab for t in a.targets)):
                        continue
                    enum = [x for x in ast.walk(a.value) if isinstance(x, ast.Call) and dotted_of(x.func) == "enumerate" and x.args]
                    if not enum:
                        continue
                    n += 1
                    src = enum[0].args[0]
                    ok = isinstance(src, ast.Name) and src.id in f.params and (f.key, src.id) not in anchor_params
                    ctx.check("R3", f"{f.local}: the order table `{tab}` enumerates the searched graph-like, not the ownership anchor", ok, f, a,
                              f"positions of the selected nodes are taken from `{norm(src)}`"
                              + (" - the ownership anchor (the Graph that owns the boundary values)" if isinstance(src, ast.Name) and (f.key, src.id) in anchor_params else "")
                              + ": for a GraphView source this is another node sequence than the one being extracted from, so the result's order differs "
                              "from the source's order (or the sort fails on nodes the table does not list)",
                              how="sort key → position table → enumerate(<parameter>); parameter classified by the R4 anchor analysis",
                              construct=f"order table enumerates {'an ownership anchor' if isinstance(src, ast.Name) and (f.key, src.id) in anchor_params else 'a non-parameter'}")
    ctx.require(n >= 1, "the position table that restores the original node order was not found")


def rule_r5(ctx):
    repo = ctx.repo
    f = repo.func(f"{EX}:extract")
    # the clone() method extract() returns through: <local bound to a GraphView(...)>.clone()
    views = {}
    for n in own_nodes(f.node):
        if isinstance(n, ast.Assign) and isinstance(n.targets[0], ast.Name) and isinstance(n.value, ast.Call):
            k = ctx.typer.ctor_class(f, n.value)
            if k is not None:
                views[n.targets[0].id] = k
    n_sites = 0
    for r in (x for x in own_nodes(f.node) if isinstance(x, ast.Return)):
        v = r.value
        if not (isinstance(v, ast.Call) and isinstance(v.func, ast.Attribute) and v.func.attr == "clone" and isinstance(v.func.value, ast.Name)
                and v.func.value.id in views):
            continue
        m = repo.lookup(views[v.func.value.id], "clone")
        if not isinstance(m, FuncInfo):
            continue
        passed = next((k.value for k in v.keywords if k.arg == "allow_outer_scope_values"), None)
        for c in calls_in(m):
            k = ctx.typer.ctor_class(m, c)
            if k is None or k.name != "Cloner":
                continue
            n_sites += 1
            init = repo.lookup(k, "__init__")
            arg = next((kw.value for kw in c.keywords if kw.arg == "allow_outer_scope_values"), None)
            eff, src = None, ""
            if arg is None:
                # the constructor's own default
                a = init.node.args
                d = {p.arg: dv for p, dv in zip(a.kwonlyargs, a.kw_defaults) if dv is not None}
                d.update({p.arg: dv for p, dv in zip(reversed(a.posonlyargs + a.args), reversed(a.defaults))})
                eff, src = d.get("allow_outer_scope_values"), f"default of {k.name}.__init__"
            elif isinstance(arg, ast.Name) and arg.id in m.params:
                # forwarded parameter of clone(): what extract() passes, else clone()'s default
                if passed is not None:
                    eff, src = passed, "argument of extract()'s clone call"
                else:
                    a = m.node.args
                    d = {p.arg: dv for p, dv in zip(a.kwonlyargs, a.kw_defaults) if dv is not None}
                    d.update({p.arg: dv for p, dv in zip(reversed(a.posonlyargs + a.args), reversed(a.defaults))})
                    eff, src = d.get(arg.id), f"default of {m.local}({arg.id})"
            else:
                eff, src = arg, f"argument in {m.local}"
            ok = isinstance(eff, ast.Constant) and eff.value is False
            ctx.check("R5", f"{m.local}: Cloner(allow_outer_scope_values) is False ({src})", ok, m, c,
                      f"the clone that ends extract() is built with allow_outer_scope_values = {norm(eff) if eff is not None else '?'} ({src}): a value of the "
                      "source graph captured by a nested body and not covered by the inputs is wired into the result instead of raising - "
                      "the extracted graph refers to an object of the source",
                      how="effective value of the flag at the Cloner construction reached from extract()'s return", construct="outer-scope values allowed in extract()'s clone")
    if n_sites == 0:
        # extract() does not return through a clone() at all: that is R1's violation, nothing to add here
        ctx.ob("R5", "extract() does not return through <view>.clone() (reported by R1)", True, nontrivial=False)


def rule_r6(ctx, rule="R6", consequence="an output that is an uncovered source value then appears in the extracted graph as a dangling value instead of making extract() raise"):
    cl = ctx.repo.cls("onnx_ir._cloner:Cloner")
    cg = cl.methods.get("clone_graph") if cl else None
    ctx.require(cg is not None, "Cloner.clone_graph not found")
    gp = cg.params[1] if len(cg.params) > 1 else None

    def creates(m, depth=0, seen=None):
        """Node inside method m (self-calls followed) that stores into the value map or constructs a Value."""
        seen = seen if seen is not None else set()
        if m.name in seen or depth > 3:
            return None
        seen.add(m.name)
        for x in own_nodes(m.node):
            if isinstance(x, (ast.Assign, ast.AugAssign)):
                for t in (x.targets if isinstance(x, ast.Assign) else [x.target]):
                    if isinstance(t, ast.Subscript) and isinstance(t.value, ast.Attribute) and "value_map" in t.value.attr:
                        return x
            if isinstance(x, ast.Call):
                d = dotted_of(x.func) or ""
                if d.split(".")[-1] == "Value":
                    return x
                if isinstance(x.func, ast.Attribute) and isinstance(x.func.value, ast.Name) and x.func.value.id == "self" and x.func.attr in cl.methods:
                    r = creates(cl.methods[x.func.attr], depth + 1, seen)
                    if r is not None:
                        return r
        return None

    n = 0
    for comp in (x for x in own_nodes(cg.node) if isinstance(x, (ast.ListComp, ast.GeneratorExp)) or isinstance(x, ast.For)):
        it = comp.generators[0].iter if not isinstance(comp, ast.For) else comp.iter
        if norm(it) != f"{gp}.outputs":
            continue
        body = [comp.elt] if not isinstance(comp, ast.For) else comp.body
        calls = [c for b in body for c in ast.walk(b) if isinstance(c, ast.Call) and isinstance(c.func, ast.Attribute)
                 and isinstance(c.func.value, ast.Name) and c.func.value.id == "self" and c.func.attr in cl.methods]
        for c in calls:
            n += 1
            bad = creates(cl.methods[c.func.attr])
            ctx.check(rule, f"clone_graph resolves graph outputs with {c.func.attr} (read-only lookup)", bad is None, cg, c,
                      f"graph outputs are resolved with `{c.func.attr}`, which creates a value for an output that was never cloned "
                      f"(`{short(norm(bad)) if bad is not None else ''}`): {consequence}",
                      how="method applied to the elements of <graph>.outputs in clone_graph: no store into the value map, no Value(...) construction (self-calls followed)",
                      construct="graph outputs resolved by a creating lookup")
        # … or with the value map itself: only the strict form `map[v]` (KeyError for an output that was not cloned); `.get(v, v)`,
        # `.get(v)` or the output itself let a value of the ORIGINAL through
        tv = comp.generators[0].target if not isinstance(comp, ast.For) else comp.target
        for b in body:
            for x in ast.walk(b):
                lenient = None
                if isinstance(x, ast.Call) and isinstance(x.func, ast.Attribute) and x.func.attr in ("get", "setdefault", "pop") and "value_map" in norm(x.func.value):
                    lenient = x
                elif x is b and isinstance(x, ast.Name) and isinstance(tv, ast.Name) and x.id == tv.id:
                    lenient = x
                elif isinstance(x, ast.Subscript) and "value_map" in norm(x.value):
                    n += 1
                    ctx.ob(rule, f"clone_graph resolves graph outputs with {norm(x)[:40]} (strict lookup)", True, how="subscript of the value map")
                if lenient is not None:
                    n += 1
                    ctx.check(rule, f"clone_graph resolves graph outputs strictly ({norm(lenient)[:40]})", False, cg, lenient,
                              f"graph outputs are resolved with `{norm(lenient)[:60]}`, which answers for an output that was never cloned (with the original's value, or None) "
                              f"instead of refusing it: {consequence}",
                              how="element expression over <graph>.outputs in clone_graph: a self-method that only reads the value map, or `map[v]`",
                              construct="graph outputs resolved by a lenient lookup")
    ctx.require(n >= 1, "lookup of the graph outputs in Cloner.clone_graph not found")


def rule_r8(ctx):
    repo = ctx.repo
    m = repo.module(EX)
    n = 0
    for f in repo.live(m.all_funcs):
        if isinstance(f.node, ast.Lambda):
            continue
        for c in calls_in(f):
            d = dotted_of(c.func) or ""
            g = None
            for cand in ctx.typer.type_of(f, c.func):
                if cand[0] == "func":
                    g = cand[1]
            if g is None or isinstance(g.node, ast.Lambda):
                continue
            a = g.node.args
            opts = {x.arg: dflt for x, dflt in zip(a.kwonlyargs, a.kw_defaults)} | dict(zip([x.arg for x in a.args][len(a.args) - len(a.defaults):], a.defaults))
            sub = [k for k in opts if "subgraph" in k.lower()]
            if not sub or not any(w in norm(g.node.returns or ast.Constant(value="")) for w in ("dict", "Mapping")):
                continue
            n += 1
            kw = next((k.value for k in c.keywords if k.arg == sub[0]), None)
            eff = kw if kw is not None else opts[sub[0]]
            ok = isinstance(eff, ast.Constant) and eff.value is False
            ctx.check("R8", f"{f.local}: {d.split('.')[-1]}(…) resolves names among the values of the given graph only", ok, f, c,
                      f"`{norm(c)[:70]}` builds the name table with `{sub[0]}` {'= ' + norm(eff) if eff is not None else 'unset'}: names of values inside nested bodies take part, first occurrence "
                      "winning - a boundary given by name can resolve to a value local to an If / Loop body instead of the graph's own value of that name",
                      how="calls in the extractor to mapping helpers with a subgraph option: the option is the constant False (explicitly or by default)",
                      construct=f"name table of {f.local} includes subgraphs")
    ctx.require(n >= 1, "the extractor builds no name table through a mapping helper with a subgraph option")


def run(ctx):
    from ..shared import rule_s14

    rule_r8(ctx)
    from ..shared import rule_s17, rule_s18

    rule_s17(ctx, "R10", lambda f: f.module.name in ("onnx_ir._cloner", "onnx_ir._convenience._extractor", "onnx_ir.analysis._implicit_usage"),
             "the extracted graph keeps references to objects of the source", floor=10)

    rule_s18(ctx, "R9", lambda name: name.startswith(("onnx_ir._convenience", "onnx_ir.analysis")),
             "extracting a bounded region that contains such a node, or analysing the implicit captures of such a function, fails instead of answering", floor=2)

    rule_s14(ctx, "R7", lambda name: name.startswith(("onnx_ir._convenience", "onnx_ir.analysis", "onnx_ir.traversal")) or name == "onnx_ir._cloner",
             "the second extraction from an edited graph works with the captured values of the first")
    rule_r6(ctx)
    rule_r4(ctx)
    rule_r5(ctx)
    repo = ctx.repo
    f = repo.func(f"{EX}:extract")
    rets = [n for n in own_nodes(f.node) if isinstance(n, ast.Return)]
    ctx.require(bool(rets), "extract: no return")
    views = {norm(n.targets[0]) for n in own_nodes(f.node) if isinstance(n, ast.Assign) and isinstance(n.value, ast.Call)
             and (dotted_of(n.value.func) or "").endswith("GraphView")}
    for r in rets:
        v = r.value
        ok = isinstance(v, ast.Call) and isinstance(v.func, ast.Attribute) and v.func.attr in ("clone", "clone_graph") and (
            norm(v.func.value) in views or (v.args and norm(v.args[0]) in views))
        ctx.check("R1", f"extract: {norm(r)}", bool(ok), f, r,
                  "extract returns an object that is (or shares nodes/values with) the source graph instead of a clone of a view",
                  how="returned expression is <view built here>.clone() / Cloner.clone_graph(<view>)")
    n = 0
    for g, node, ok, detail, label in s1_sites(repo, {EX, IU}):
        n += 1
        ctx.check("R2", f"S1 {g.local}: {label}"[:150], ok, g, node, detail, how="GRAPH/GRAPHS sibling agreement", construct=f"S1 {label}")
    ctx.require(n >= 2, "GRAPH/GRAPHS dispatch in extractor / implicit usage not found")
    p = repo.func(f"{IU}:_process_node")
    cfg = CFG(p.node)
    # the stack is the parameter that is both appended to and popped (role, not spelling)
    appended = {norm(c.func.value) for c in calls_in(p) if isinstance(c.func, ast.Attribute) and c.func.attr == "append" and isinstance(c.func.value, ast.Name)}
    popped = {norm(c.func.value) for c in calls_in(p) if isinstance(c.func, ast.Attribute) and c.func.attr == "pop" and isinstance(c.func.value, ast.Name)}
    stacks = sorted((appended & popped) & set(p.params))
    ctx.require(len(stacks) == 1, f"_process_node: scope-stack parameter not found ({stacks})")
    pushes = [c for c in calls_in(p) if norm(c.func) == f"{stacks[0]}.append"]
    pops = [c for c in calls_in(p) if norm(c.func) == f"{stacks[0]}.pop"]
    usage_params = [q for q in p.params if any(
        (isinstance(n, ast.Assign) and isinstance(n.targets[0], ast.Subscript) and norm(n.targets[0].value) == q)
        or (isinstance(n, ast.Call) and isinstance(n.func, ast.Attribute) and n.func.attr == "setdefault" and norm(n.func.value) == q) for n in own_nodes(p.node))]
    ok = len(pushes) == len(pops) and len(pushes) >= 1  # one push per dispatch branch, or one for a loop both branches feed
    for a in pushes:
        an = cfg.nodes_containing(a)[0]
        blk = getattr(getattr(a, "_parent", None), "_parent", None)
        mate = [b for b in pops if getattr(getattr(b, "_parent", None), "_parent", None) is blk]
        ok = ok and len(mate) == 1 and cfg.dominates(an, cfg.nodes_containing(mate[0])[0]) and \
            not any(isinstance(x, (ast.Return, ast.Break, ast.Continue, ast.Raise)) for s in getattr(blk, "body", []) for x in ast.walk(s))
    ctx.check("R2", f"_process_node: {len(pushes)} graph_stack pushes each paired with a pop in the same block", bool(ok), p, p.node,
              "a subgraph is pushed on the scope stack and not popped on some path: captures are attributed to the wrong graphs",
              how="push dominates its pop; no early exit in between")
    # every subgraph gets an entry, even when it captures nothing
    inits = [n for n in own_nodes(p.node) if (isinstance(n, ast.Assign) and isinstance(n.targets[0], ast.Subscript) and norm(n.targets[0].value) in usage_params)
             or (isinstance(n, ast.Call) and isinstance(n.func, ast.Attribute) and n.func.attr == "setdefault" and norm(n.func.value) in usage_params)]
    ctx.check("R2", "every visited subgraph gets a capture set", len(inits) == len(pushes), p, p.node,
              "a subgraph without captures is missing from the result", how="one initialisation per push", nontrivial=False)
    c = repo.func(f"{IU}:_collect_implicit_usages")
    # for <g> in reversed(<stack parameter>): if <g> is <input>.graph: break  - innermost first, stop at the owner
    ok = False
    def innermost_first(it):
        """(stack name, skips the bottom element) when `it` walks a stack parameter from its top: reversed(S), reversed(S[1:]),
        S[::-1], S[:0:-1] - also through a local bound once to such an expression."""
        it = _unalias(c, it)
        if isinstance(it, ast.Call) and dotted_of(it.func) == "reversed" and it.args:
            a = _unalias(c, it.args[0])
            if isinstance(a, ast.Name):
                return a.id, False
            if isinstance(a, ast.Subscript) and isinstance(a.slice, ast.Slice) and a.slice.upper is None and a.slice.step is None and isinstance(a.value, ast.Name):
                lo = a.slice.lower
                return a.value.id, isinstance(lo, ast.Constant) and lo.value == 1
        if isinstance(it, ast.Subscript) and isinstance(it.slice, ast.Slice) and isinstance(it.value, ast.Name) and it.slice.lower is None \
                and isinstance(it.slice.step, ast.UnaryOp) and isinstance(it.slice.step.op, ast.USub) and isinstance(it.slice.step.operand, ast.Constant) and it.slice.step.operand.value == 1:
            up = it.slice.upper
            if up is None:
                return it.value.id, False
            if isinstance(up, ast.Constant) and up.value == 0:
                return it.value.id, True
        return None, False

    for lp in (n for n in own_nodes(c.node) if isinstance(n, ast.For)):
        sname, _skip = innermost_first(lp.iter)
        if not (sname is not None and sname in c.params and isinstance(lp.target, ast.Name)):
            continue
        g = lp.target.id
        for iff in (n for n in ast.walk(lp) if isinstance(n, ast.If)):
            t = iff.test
            if isinstance(t, ast.Compare) and len(t.ops) == 1 and isinstance(t.ops[0], ast.Is):
                sides = [t.left, t.comparators[0]]
                if any(isinstance(x, ast.Name) and x.id == g for x in sides) and any(_graph_read(c, x) is not None for x in sides) \
                        and any(isinstance(b, ast.Break) for b in iff.body):
                    ok = True
    # … and the analysed graph itself (the bottom of the stack) has no entry in the result: the walk must not index the table
    # with it - it ranges over the stack without its first element, or stops at it, or the entry point gives the root an entry
    entry_fn = repo.func(f"{IU}:analyze_implicit_usage")
    root_has_entry = any(isinstance(n, (ast.Assign, ast.AnnAssign)) and isinstance(getattr(n, "value", None), ast.Dict) and n.value.keys for n in own_nodes(entry_fn.node)) or \
        any(isinstance(n, ast.Assign) and isinstance(n.targets[0], ast.Subscript) and norm(n.targets[0].value) in {norm(t) for a in own_nodes(entry_fn.node) if isinstance(a, (ast.Assign, ast.AnnAssign))
                                                                                                           for t in ([a.target] if isinstance(a, ast.AnnAssign) else a.targets)}
            for n in own_nodes(entry_fn.node))
    safe = root_has_entry
    for lp in (n for n in own_nodes(c.node) if isinstance(n, ast.For)):
        sname, skips_bottom = innermost_first(lp.iter)
        if sname is None:
            continue
        stores = [x for x in ast.walk(lp) if isinstance(x, ast.Subscript) and isinstance(lp.target, ast.Name) and norm(x.slice) == lp.target.id]
        if not stores:
            continue
        sliced = skips_bottom and sname in c.params
        stops = any(isinstance(i_, ast.If) and any(isinstance(b, ast.Break) for b in i_.body) and isinstance(i_.test, ast.Compare) and len(i_.test.ops) == 1
                    and isinstance(i_.test.ops[0], ast.Is) and any(isinstance(sd, ast.Subscript) and isinstance(sd.slice, ast.Constant) and sd.slice.value == 0
                                                                 for sd in (i_.test.left, i_.test.comparators[0])) for i_ in ast.walk(lp))
        safe = safe or sliced or stops
    ctx.check("R2", "the analysed graph itself is never used as a key of the result", safe, c, c.node,
              "the walk over the scope stack reaches the graph the analysis was started on - which has no entry in the result - whenever a captured value belongs to none of the graphs "
              "on the stack (the analysis is run on a nested graph, or an input value belongs to no graph): KeyError instead of the capture sets",
              how="the loop over reversed(<stack>) excludes the first element (`<stack>[1:]`), stops at `<stack>[0]`, or the entry point creates an entry for the root",
              construct="result table indexed with the analysed graph")
    ctx.check("R2", "a captured value is charged to every enclosing graph up to (not including) its owner", ok, c, c.node,
              "captures are not propagated through all enclosing subgraphs", how="reverse walk of the stack, break at the owning graph")
    # R3
    s = repo.func(f"{EX}:_find_subgraph_bounded_by_values")
    cfg = CFG(s.node)
    raises = [n for n in own_nodes(s.node) if isinstance(n, ast.Raise)]
    rets = [n for n in own_nodes(s.node) if isinstance(n, ast.Return)]
    loops = [n for n in own_nodes(s.node) if isinstance(n, ast.While)]
    ok = len(raises) == 1 and len(rets) == 1 and len(loops) == 1
    if ok:
        iff = getattr(raises[0], "_parent", None)
        ok = isinstance(iff, ast.If)
        # the test is about the frontier values collected above (not a constant): it names a local that is filled in
        # a loop over the frontier
        tested = {x.id for x in ast.walk(iff.test) if isinstance(x, ast.Name)} if ok else set()
        filled = {norm(c.func.value) for c in calls_in(s) if isinstance(c.func, ast.Attribute) and c.func.attr in ("append", "add")}
        # … or derived from such a local (a comprehension / sorted() over the frontier instead of an append loop)
        for _ in range(3):
            for a in own_nodes(s.node):
                if isinstance(a, (ast.Assign, ast.AnnAssign)) and getattr(a, "value", None) is not None and any(
                        isinstance(x, ast.Name) and x.id in filled for x in ast.walk(a.value)):
                    for t in (a.targets if isinstance(a, ast.Assign) else [a.target]):
                        if isinstance(t, ast.Name):
                            filled.add(t.id)
        ok = ok and bool(tested & filled)
        tn = [x for x in cfg.node_of(iff) if x.kind == "test"][0]
        wn = [x for x in cfg.node_of(loops[0]) if x.kind == "test"][0]
        ok = ok and cfg.dominates(tn, cfg.node_of(rets[0])[0]) and cfg.dominates(wn, tn) and iff in s.node.body and loops[0] in s.node.body \
            and s.node.body.index(loops[0]) < s.node.body.index(iff)
    ctx.check("R3", "the frontier validation follows the traversal and dominates the return", bool(ok), s, s.node,
              "the region is returned without checking that every required non-initializer value is covered by the inputs",
              how="while-loop → validation test → return, by dominators")
    inputs_p = s.params[1]

    def defs_of(name):
        return [n.value for n in own_nodes(s.node) if isinstance(n, (ast.Assign, ast.AnnAssign)) and getattr(n, "value", None) is not None
                and any(isinstance(t, ast.Name) and t.id == name for t in (n.targets if isinstance(n, ast.Assign) else [n.target]))]

    def from_inputs(name, depth=0):
        # built from the inputs parameter, directly or through locals that are (`inputs_set = frozenset(inputs)`; `visited = set(inputs_set)`)
        for d in defs_of(name):
            for x in ast.walk(d):
                if isinstance(x, ast.Name) and (x.id == inputs_p or (x.id != name and depth < 3 and from_inputs(x.id, depth + 1))):
                    return True
        return False

    # the visited set: the name tested by `if <value> in <V>: continue` inside the traversal loop
    ok = False
    if loops:
        for iff in (n for n in ast.walk(loops[0]) if isinstance(n, ast.If) and any(isinstance(b, ast.Continue) for b in n.body)):
            t = iff.test
            if isinstance(t, ast.Compare) and len(t.ops) == 1 and isinstance(t.ops[0], ast.In) and isinstance(t.comparators[0], ast.Name):
                ok = ok or from_inputs(t.comparators[0].id)
    ctx.check("R3", "the traversal stops at the given inputs", ok, s, s.node, "inputs are not pre-marked as visited: the region grows past its boundary",
              how="the visited set tested by the traversal loop is initialised from the inputs")
    # frontier acceptance: `<v> not in <set built from the inputs> and not <v>.is_initializer()`
    chk = []
    # the filter may be the test of an `if` in an append loop or the condition of a comprehension
    conds = [(n, n.test) for n in own_nodes(s.node) if isinstance(n, ast.If)] + [(n, c_) for n in own_nodes(s.node) if isinstance(n, ast.comprehension) for c_ in n.ifs]
    for iff, t in conds:
        if isinstance(t, ast.BoolOp) and isinstance(t.op, ast.And):
            has_notin = any(isinstance(v, ast.Compare) and isinstance(v.ops[0], ast.NotIn) and isinstance(v.comparators[0], ast.Name)
                            and (from_inputs(v.comparators[0].id) or v.comparators[0].id == inputs_p) for v in t.values)
            has_init = any(isinstance(v, ast.UnaryOp) and isinstance(v.op, ast.Not) and isinstance(v.operand, ast.Call)
                           and isinstance(v.operand.func, ast.Attribute) and v.operand.func.attr == "is_initializer" for v in t.values)
            if has_notin and has_init:
                chk.append(iff)
    ctx.check("R3", "a frontier value is accepted only if it is a given input or an initializer", bool(chk), s, s.node,
              "the frontier test accepts values that are neither inputs nor initializers", how="`<v> not in <inputs> and not <v>.is_initializer()`")
    # original order: the returned node list is sorted by an index table built from enumerate(<graph parameter>)
    rv = rets[0].value if rets else None
    first = rv.elts[0] if isinstance(rv, ast.Tuple) and rv.elts else None
    lst = first.id if isinstance(first, ast.Name) else None
    srt = [c for c in calls_in(s) if isinstance(c.func, ast.Attribute) and c.func.attr == "sort" and isinstance(c.func.value, ast.Name) and c.func.value.id == lst]
    if isinstance(first, ast.Call) and dotted_of(first.func) == "sorted" and first.args:
        srt = [first]  # `return sorted(<list>, key=…), …`
    idx_ok = False
    for c in srt:
        key = next((k.value for k in c.keywords if k.arg == "key"), None)
        names = {x.id for x in ast.walk(key) if isinstance(x, ast.Name)} if key is not None else set()
        idx_ok = idx_ok or any(any(isinstance(x, ast.Call) and dotted_of(x.func) == "enumerate" for x in ast.walk(d)) for nm in names for d in defs_of(nm))
    ctx.check("R3", "extracted nodes are put back in their original order", bool(srt) and idx_ok, s, s.node,
              "nodes are returned in traversal order", how="returned list sorted by an index built from enumerate(graph)", nontrivial=False)
    # initializers met during the traversal are recorded in the collection that is returned
    coll = rv.elts[1].id if isinstance(rv, ast.Tuple) and len(rv.elts) > 1 and isinstance(rv.elts[1], ast.Name) else None
    ini = [n for n in (ast.walk(loops[0]) if loops else []) if isinstance(n, ast.Call) and isinstance(n.func, ast.Attribute) and n.func.attr == "add"
           and isinstance(n.func.value, ast.Name) and n.func.value.id == coll]
    ctx.check("R3", "initializers met during the traversal are recorded", bool(ini), s, s.node, "needed initializers are not collected", nontrivial=False)
