"""C13 — clones are faithful and fully independent of their originals."""

from __future__ import annotations

import ast

from ..cfg import CFG
from ..facts import calls_in
from ..index import ClassInfo, FuncInfo, dotted_of, norm, own_nodes, short
from ..shared import s1_sites

PROPERTY = "C13"
RULES = {
    "R1": "no mutable sub-object is shared: every value that flows from a field of an original object into a "
    "constructor argument or attribute of a clone passes through a copying operation when the field's declared class "
    "is mutable (tensors and attribute objects exempt by the statement)"
    " ; copy.copy counts only for classes without mutable sub-objects, and package copy() methods the cloner relies on must copy the receiver's mutable containers",
    "R2": "field coverage: every attribute the serializer reads from Value/Node/Graph/Function/Model is transferred by "
    "the cloner",
    "R3": "outer-scope guard: passing an unmapped original value into a clone node is dominated by the "
    "allow_outer_scope_values test whose other branch raises; GRAPH/GRAPHS attributes are cloned alike (S1)",
    "R4": "the functional pass wrapper uses its model parameter only as the receiver of .clone()",
    "R5": "accumulated change flags of the cloner are monotone (shared rule S3): a flag initialised false outside a loop, "
    "assigned inside it and read after it is only set by monotone forms - `changed = <this iteration>` forgets earlier "
    "iterations, so a rebuilt (remapped) collection is dropped and the clone keeps references into the original",
    "R6": "shared tensors do not carry names between copies (shared with C03-R6): clones share tensor objects with their originals "
    "and renaming a Value renames its tensor, so the serializer names every initializer after its Value (alignment statement "
    "dominating the emission, or the proto's name overwritten unconditionally) - never after the tensor's own, possibly stale, name",
    "R7": "collections are transferred element for element: in the cloner and the clone() methods, a comprehension or loop that "
    "maps a collection of the original (inputs, outputs, initializers, nodes, attributes, functions) to its image in the clone has "
    "no filter on the source element - the only admitted filter tests the *result* of the cloning call for None - so the clone "
    "holds an image of every element: a value that is both an input and an initializer stays an initializer of the clone",
    "R8": "every reference of the clone points into the clone (shared with C18-R6): in Cloner.clone_graph the values of `graph.outputs` are "
    "resolved strictly - by a method that only reads the value map, or by `map[v]` - never by `.get(v, v)`, a creating lookup or the "
    "output itself: an output that was not cloned (a value produced outside a view) must make the clone raise, not become an output of "
    "the clone that IS the original's value (the new graph then marks the original's value as its own output)",
    "R9": "a copying operation copies: no class of the IR core with state that can change (a property setter, a public slot, __setitem__) "
    "defines a copy hook - __deepcopy__, __copy__, __reduce__ / __reduce_ex__, copy() - that can return the object itself: the cloner "
    "relies on `copy.deepcopy(value.type)` / `shape.copy()` to give the clone objects of its own, and `def __deepcopy__(self, memo): "
    "return self` on the tensor types makes every clone share its types with the original, so `clone_value.dtype = …` re-types the "
    "original (a functionalized pass alters its input)",
    "R10": "no container of the source moves into the clone by assignment: in the cloner (and the clone methods of the core classes), a store "
    "`<new>.<field> = <old>.<field>` of one and the same field between two different objects is never made for a field that the package "
    "initialises as a mutable container (`self.<field> = set()` / `{}` / `[]` / `dict(...)` … in a constructor) - the new object is a new "
    "object, but the set or dict inside it is then the original's: marks added or cleared on one copy (the invalidated keys of a metadata "
    "store) appear on the other, so a functionalized pass alters its input model",
    "R11": "the clone has attribute objects of its own: `Cloner.clone_attr` never returns the attribute it was given - an Attr is mutable "
    "(`name`, `doc_string`, `meta`, and the Shape inside the TypeAndShape of a TYPE_PROTO attribute), so an Attr object that sits in "
    "the attribute sets of both the original and the clone carries every later edit of one copy over to the other",
    "R12": "the clone's inputs are the original's, position by position: where the cloner maps `<node>.inputs`, nothing is left out - a "
    "comprehension over the inputs has no condition, and a loop over them has no `continue` (an omitted optional input is carried over as "
    "None): dropping the None of `Resize(x, <no roi>, scales)` shifts every later input one slot to the left, so the clone serializes "
    "differently from the original and means another computation",
}
FLOORS = {"R1": 26, "R2": 30, "R3": 2, "R4": 1, "R5": 2, "R6": 1, "R7": 7, "R8": 1, "R9": 3, "R10": 5, "R11": 2, "R12": 1}
EXPLANATION = (
    "A sharing analysis over the cloner and the clone() methods: each data flow original.field → clone is classified "
    "by the mutability of the field's declared class (computed from the source: setters, __setitem__, self-stores) "
    "and by whether a copying operation intervenes; plus coverage of the serialized attribute set and guard dominance."
)
NOT_DECIDED = "equality of the serialized protos of clone and original as values"
ASSUMPTIONS = [
    "tensors (TensorProtocol) and Attr objects may be shared: the statement requires new graphs, nodes, values, shapes, "
    "types and metadata containers",
]

CL = "onnx_ir._cloner"
CORE = "onnx_ir._core"
IMMUTABLE_NAMES = {"str", "int", "bool", "float", "None", "bytes", "DataType", "AttributeType", "OperatorIdentifier"}
EXEMPT_CLASSES = {"Attr": "attribute objects are shared like tensors (immutable value, name/doc only)",
                  "MetadataStore": "meta is copied entry-wise by clone_meta"}  # fmt: skip
COPY_CALLS = ("copy.copy", "copy.deepcopy", "dict", "list", "tuple", "set")


def class_is_mutable(ctx, c: ClassInfo, _seen=None) -> bool:
    _seen = _seen or set()
    if c.key in _seen:
        return False
    _seen.add(c.key)
    if c.name in EXEMPT_CLASSES:
        return False
    repo = ctx.repo
    tp = repo.modules.get("onnx_ir._protocols")
    if tp and "TensorProtocol" in tp.classes and repo.is_subclass(c, tp.classes["TensorProtocol"]):
        return False
    if c.is_frozen_dataclass():
        return False
    for k in repo.mro(c):
        if not isinstance(k, ClassInfo) or k.external:
            continue
        if any("set" in p for p in k.props.values()):
            return True
        if "__setitem__" in k.methods or "__delitem__" in k.methods:
            return True
        for f in k.methods.values():
            if f.name in ("__init__", "__new__", "__post_init__"):
                continue
            for n in own_nodes(f.node):
                if isinstance(n, (ast.Assign, ast.AugAssign)):
                    tg = n.targets if isinstance(n, ast.Assign) else [n.target]
                    if any(isinstance(t, ast.Attribute) and norm(t.value) == "self" and not t.attr.startswith("_expr_cache") for t in tg):
                        return True
    # protocol: mutable if any implementing class is
    subs = repo.subclasses(c)
    if c.name.endswith("Protocol") and subs:
        return any(class_is_mutable(ctx, s, _seen) for s in subs if not s.name.endswith("Protocol"))
    return False


def _field_annotation(ctx, c: ClassInfo, attr: str):
    """(annotation node, module) of attribute `attr` on class c: property return, annotated field or protocol member."""
    repo = ctx.repo
    for k in repo.mro(c):
        if not isinstance(k, ClassInfo):
            continue
        if attr in k.props and "get" in k.props[attr] and k.props[attr]["get"].node.returns is not None:
            return k.props[attr]["get"].node.returns, k.module
        if attr in k.ann_fields:
            return k.ann_fields[attr], k.module
        init = k.methods.get("__init__")
        if init is not None:
            for n in own_nodes(init.node):
                if isinstance(n, ast.AnnAssign) and isinstance(n.target, ast.Attribute) and n.target.attr == attr and norm(n.target.value) == "self":
                    return n.annotation, k.module
            # plain `self.attr = <param>`: take the parameter's annotation
            for n in own_nodes(init.node):
                if isinstance(n, ast.Assign) and isinstance(n.targets[0], ast.Attribute) and n.targets[0].attr == attr and isinstance(n.value, ast.Name):
                    for a in init.node.args.args + init.node.args.kwonlyargs:
                        if a.arg == n.value.id and a.annotation is not None:
                            return a.annotation, k.module
    return None, None


def mutable_reason(ctx, f: FuncInfo, e: ast.Attribute) -> str | None:
    """Why the object read by `e` (= <original>.<field>) is mutable, or None if it is not / unknown-immutable."""
    for c in ctx.typer.recv_classes(f, e.value):
        ann, mod = _field_annotation(ctx, c, e.attr)
        if ann is None:
            continue
        text = norm(ann)
        if any(k in text for k in ("dict[", "list[", "set[", "MutableSequence", "MutableMapping", "Dict[", "List[")):
            return f"declared `{text}` (mutable container)"
        for a in ctx.typer.ann(ann, mod):
            if a[0] == "cls" and class_is_mutable(ctx, a[1]):
                return f"declared `{text}`; class {a[1].name} is mutable (has setters / writes to self)"
    return None


SHALLOW_COPIES = ("copy.copy",)


def _class_fields(c: ClassInfo, repo) -> set[str]:
    out = set()
    for k in repo.mro(c):
        if not isinstance(k, ClassInfo) or k.external:
            continue
        out |= set(k.slots or ()) | set(k.ann_fields)
        init = k.methods.get("__init__")
        if init is not None:
            for n in own_nodes(init.node):
                if isinstance(n, (ast.Assign, ast.AnnAssign)):
                    for t in n.targets if isinstance(n, ast.Assign) else [n.target]:
                        if isinstance(t, ast.Attribute) and norm(t.value) == "self":
                            out.add(t.attr)
    return out


def shallow_copy_shares(ctx, f: FuncInfo, e: ast.Attribute) -> str | None:
    """`copy.copy(<original>.<field>)` gives a new outer object whose own fields still point at the original's
    sub-objects: name a sub-field whose declared class is mutable, if there is one."""
    repo = ctx.repo
    for c in ctx.typer.recv_classes(f, e.value):
        ann, mod = _field_annotation(ctx, c, e.attr)
        if ann is None:
            continue
        todo = []
        for a in ctx.typer.ann(ann, mod):
            if a[0] == "cls":
                k = a[1]
                todo += [s for s in repo.subclasses(k) if not s.name.endswith("Protocol")] if k.name.endswith("Protocol") else [k]
        for k in todo:
            for fld in sorted(_class_fields(k, repo)):
                fa, fm = _field_annotation(ctx, k, fld)
                if fa is None:
                    continue
                text = norm(fa)
                if any(x in text for x in ("dict[", "list[", "set[", "MutableSequence", "MutableMapping")):
                    return f"{k.name}.{fld} is declared `{text}` (mutable container)"
                for b in ctx.typer.ann(fa, fm):
                    if b[0] == "cls" and class_is_mutable(ctx, b[1]):
                        return f"{k.name}.{fld} is declared `{text}` and class {b[1].name} is mutable"
    return None


def _shallow_copied_reads(e: ast.expr):
    for n in ast.walk(e):
        if isinstance(n, ast.Call) and dotted_of(n.func) in SHALLOW_COPIES and n.args and isinstance(n.args[0], ast.Attribute):
            yield n.args[0]


def _direct_reads(e: ast.expr):
    """Attribute reads that reach the result of `e` without passing through a copying operation."""
    if isinstance(e, ast.Attribute):
        yield e
    elif isinstance(e, ast.IfExp):
        yield from _direct_reads(e.body)
        yield from _direct_reads(e.orelse)
    elif isinstance(e, ast.BoolOp):
        for v in e.values:
            yield from _direct_reads(v)
    elif isinstance(e, ast.NamedExpr):
        yield from _direct_reads(e.value)
    elif isinstance(e, ast.Starred):
        yield from _direct_reads(e.value)
    # Call / Dict / comprehension / constants: a new object (copying operation or fresh value)


def _root(e):
    while isinstance(e, (ast.Attribute, ast.Subscript)):
        e = e.value
    return e.id if isinstance(e, ast.Name) else None


def clone_functions(ctx) -> list[FuncInfo]:
    repo = ctx.repo
    c = repo.cls(f"{CL}:Cloner")
    out = [c.methods[n] for n in ("_clone_or_get_value", "clone_node", "clone_graph", "clone_attr") if n in c.methods]
    ctx.require(len(out) == 4, "Cloner methods not found")
    for cn in ("Graph", "GraphView", "Model", "Function"):
        k = repo.cls(f"{CORE}:{cn}")
        ctx.require("clone" in k.methods, f"{cn}.clone not found")
        out.append(k.methods["clone"])
    return out


def _originals(f: FuncInfo) -> set[str]:
    """Names denoting original objects: IR-typed parameters (self of a clone() method) and loop variables over them."""
    names = set()
    params = f.params
    if f.name == "clone":
        names.add(params[0])
    else:
        names |= {p for p in params[1:] if p not in ("deep_copy", "key")}
    for _ in range(2):
        for n in own_nodes(f.node):
            if isinstance(n, (ast.For, ast.comprehension)):
                it = n.iter
                srcs = it.args if isinstance(it, ast.Call) and dotted_of(it.func) in ("zip", "enumerate", "reversed") else [it]
                tgts = n.target.elts if isinstance(n.target, ast.Tuple) and len(n.target.elts) == len(srcs) else [n.target] * len(srcs)
                for t, s in zip(tgts, srcs):
                    r = _root(s.func.value if isinstance(s, ast.Call) and isinstance(s.func, ast.Attribute) else s)
                    if r in names:
                        for x in ast.walk(t):
                            if isinstance(x, ast.Name):
                                names.add(x.id)
    return names


def rule_r1(ctx):
    ty = ctx.typer
    n_flows = 0
    for f in clone_functions(ctx):
        orig = _originals(f)
        sinks = []  # (value expr, description, node)
        for c in calls_in(f):
            if ty.ctor_class(f, c) is not None and ty.ctor_class(f, c).module.name == CORE:
                for i, a in enumerate(c.args):
                    sinks.append((a, f"{norm(c.func)}(arg {i})", c))
                for k in c.keywords:
                    if k.arg:
                        sinks.append((k.value, f"{norm(c.func)}({k.arg}=…)", c))
        for n in own_nodes(f.node):
            if isinstance(n, ast.Assign) and isinstance(n.targets[0], ast.Attribute) and _root(n.targets[0]) not in orig | {"self"}:
                sinks.append((n.value, f"{norm(n.targets[0])} = …", n))
        for val, desc, node in sinks:
            for rd in _direct_reads(val):
                if _root(rd) not in orig:
                    continue
                n_flows += 1
                why = mutable_reason(ctx, f, rd)
                ctx.check("R1", f"{f.local}: {desc} ← {norm(rd)}", why is None, f, node,
                          f"`{norm(rd)}` is handed to the clone uncopied and is mutable ({why}): editing it through the clone "
                          "changes the original",
                          how="declared type of the field → class mutability computed from the source; copying operation on the flow?",
                          construct=f"{desc} <- {norm(rd)}")
            for rd in _shallow_copied_reads(val):
                if _root(rd) not in orig:
                    continue
                n_flows += 1
                why = shallow_copy_shares(ctx, f, rd)
                ctx.check("R1", f"{f.local}: {desc} ← copy.copy({norm(rd)})", why is None, f, node,
                          f"`copy.copy({norm(rd)})` is a shallow copy: the clone gets a new outer object that still shares a "
                          f"mutable sub-object with the original ({why})",
                          how="fields of every class the declared type admits → declared class of each field → mutability",
                          construct=f"{desc} <- copy.copy({norm(rd)})")
    ctx.require(n_flows >= 25, f"only {n_flows} original→clone flows recognised")
    # the attribute map of a clone node is a new container
    cn = ctx.repo.func(f"{CL}:Cloner.clone_node")
    # what is handed to the Node constructor as `attributes` is a list built in this function
    attrs_new = False
    for c in calls_in(cn):
        k = ty.ctor_class(cn, c)
        if k is None or k.name != "Node":
            continue
        a = next((kw.value for kw in c.keywords if kw.arg == "attributes"), None)
        if a is None:
            init = ctx.repo.lookup(k, "__init__")
            ps = init.params[1:] if isinstance(init, FuncInfo) else []
            if "attributes" in ps and ps.index("attributes") < len(c.args):
                a = c.args[ps.index("attributes")]
        if a is None:
            continue
        defs = [a]
        if isinstance(a, ast.Name):
            defs = [n.value for n in own_nodes(cn.node) if isinstance(n, (ast.Assign, ast.AnnAssign)) and getattr(n, "value", None) is not None
                    and any(isinstance(t, ast.Name) and t.id == a.id for t in (n.targets if isinstance(n, ast.Assign) else [n.target]))]
        attrs_new = bool(defs) and all(isinstance(d, (ast.ListComp, ast.List, ast.Tuple, ast.GeneratorExp, ast.DictComp))
                                       or (isinstance(d, ast.Call) and dotted_of(d.func) in ("list", "tuple", "dict")) for d in defs)
    ctx.check("R1", "clone_node builds a new attribute list", attrs_new, cn, cn.node, "the clone node reuses the original's attribute container",
              how="new_attributes is a comprehension", nontrivial=False)


COPYING = ("list", "tuple", "dict", "set", "frozenset", "sorted", "copy.copy", "copy.deepcopy")


def _is_copy_of(e: ast.expr, name: str) -> bool | None:
    """True: e builds a new container from `name`; False: e is `name` itself (alias); None: e does not carry `name`."""
    if isinstance(e, ast.Name):
        return False if e.id == name else None
    if isinstance(e, ast.Attribute):
        return False if norm(e) == name else None
    if isinstance(e, ast.IfExp):
        rs = [_is_copy_of(x, name) for x in (e.body, e.orelse)]
        return False if False in rs else (True if True in rs else None)
    if isinstance(e, ast.BoolOp):
        rs = [_is_copy_of(x, name) for x in e.values]
        return False if False in rs else (True if True in rs else None)
    if isinstance(e, (ast.ListComp, ast.SetComp, ast.DictComp, ast.GeneratorExp, ast.List, ast.Tuple, ast.Set, ast.Dict, ast.BinOp)):
        return True if any(norm(x) == name for x in ast.walk(e) if isinstance(x, (ast.Name, ast.Attribute))) else None
    if isinstance(e, ast.Call):
        d = dotted_of(e.func) or ""
        mentions = any(norm(x) == name for a in list(e.args) + [k.value for k in e.keywords] for x in ast.walk(a) if isinstance(x, (ast.Name, ast.Attribute)))
        if isinstance(e.func, ast.Attribute) and e.func.attr == "copy" and norm(e.func.value) == name:
            return True
        return True if mentions and (d in COPYING or d.split(".")[-1] in COPYING) else (None if not mentions else True)
    return None


def _mutable_container_fields(c: ClassInfo, repo) -> set[str]:
    out = set()
    for k in repo.mro(c):
        if not isinstance(k, ClassInfo) or k.external:
            continue
        init = k.methods.get("__init__")
        if init is None:
            continue
        for n in own_nodes(init.node):
            if isinstance(n, (ast.Assign, ast.AnnAssign)) and getattr(n, "value", None) is not None:
                t = n.targets[0] if isinstance(n, ast.Assign) else n.target
                if isinstance(t, ast.Attribute) and norm(t.value) == "self":
                    ann = norm(n.annotation) if isinstance(n, ast.AnnAssign) else ""
                    v = n.value
                    if ann.startswith(("list[", "dict[", "set[", "List[", "Dict[")) or isinstance(v, (ast.List, ast.ListComp, ast.Dict, ast.DictComp, ast.Set)) \
                            or (isinstance(v, ast.Call) and dotted_of(v.func) in ("list", "dict", "set")):
                        out.add(t.attr)
    return out


def copy_method_aliases(ctx, m: FuncInfo) -> list[tuple]:
    """Fields of the object returned by copy method `m` that alias the receiver's mutable containers."""
    repo = ctx.repo
    c = m.cls
    me = m.params[0]
    fields = _mutable_container_fields(c, repo)
    out = []
    # (1) objects built field by field (after __new__): new.F = <alias of self.F>
    for n in own_nodes(m.node):
        if isinstance(n, ast.Assign) and isinstance(n.targets[0], ast.Attribute) and norm(n.targets[0].value) != me and n.targets[0].attr in fields:
            for fld in fields:
                if _is_copy_of(n.value, f"{me}.{fld}") is False:
                    out.append((n.targets[0].attr, n, f"`{norm(n)}` stores the receiver's own {fld} container in the copy"))
    # (2) objects built by the constructor: argument self.F bound to a parameter that __init__ stores without copying
    init = repo.lookup(c, "__init__")
    for call in (x for x in own_nodes(m.node) if isinstance(x, ast.Call)):
        k = ctx.typer.ctor_class(m, call)
        if k is None or k is not c or not isinstance(init, FuncInfo):
            continue
        params = init.params[1:]
        bound = {}
        for i, a in enumerate(call.args):
            if i < len(params):
                bound[params[i]] = a
        for kw in call.keywords:
            if kw.arg:
                bound[kw.arg] = kw.value
        for p, a in bound.items():
            for fld in fields:
                if _is_copy_of(a, f"{me}.{fld}") is False:
                    for n in own_nodes(init.node):
                        if isinstance(n, (ast.Assign, ast.AnnAssign)) and getattr(n, "value", None) is not None:
                            t = n.targets[0] if isinstance(n, ast.Assign) else n.target
                            if isinstance(t, ast.Attribute) and norm(t.value) == "self" and _is_copy_of(n.value, p) is False:
                                out.append((t.attr, call, f"{c.name}.__init__ stores its parameter `{p}` as is (`{norm(n)}`) and the copy passes `{norm(a)}`"))
    return out


def rule_r5(ctx):
    """Copy methods the cloner relies on really copy the mutable containers of their receiver."""
    ty = ctx.typer
    seen, n = set(), 0
    for f in clone_functions(ctx):
        for c in calls_in(f):
            if not (isinstance(c.func, ast.Attribute) and c.func.attr in ("copy", "__copy__")):
                continue
            for k in ty.recv_classes(f, c.func.value):
                m = ctx.repo.lookup(k, c.func.attr)
                if not isinstance(m, FuncInfo) or m.cls is None or m.cls.external or m.key in seen:
                    continue
                seen.add(m.key)
                n += 1
                al = copy_method_aliases(ctx, m)
                ctx.check("R1", f"{m.local} (used by {f.local}) copies the receiver's mutable containers", not al, m, al[0][1] if al else m.node,
                          (f"{m.local} returns an object whose `{al[0][0]}` is the receiver's own container ({al[0][2]}): the clone's "
                           "object is new but editing that part through the clone changes the original") if al else "",
                          how="fields stored after __new__ and constructor parameters stored by __init__: alias vs copying expression",
                          construct=f"{m.local} aliases {al[0][0] if al else ''}")
    ctx.require(n >= 1, "no package copy method is used by the cloner (Shape.copy expected)")


def rule_r2(ctx):
    """Attributes the serializer reads ⊆ attributes the cloner transfers."""
    from . import c03

    repo = ctx.repo
    reads: dict[str, dict] = {c: {} for c in ("Model", "Graph", "Function", "Node", "Value")}
    for f in c03.ser_funcs(ctx):
        for n in own_nodes(f.node):
            if isinstance(n, ast.Attribute) and isinstance(n.ctx, ast.Load) and not n.attr.startswith("_"):
                par = getattr(n, "_parent", None)
                if isinstance(par, ast.Call) and par.func is n:
                    continue
                for cn in c03._ir_class_of(ctx, f, n.value):
                    if cn in reads:
                        reads[cn].setdefault(n.attr, (f, n))
        for c in calls_in(f):
            if dotted_of(c.func) == "getattr" and len(c.args) >= 2 and isinstance(c.args[1], ast.Constant):
                for cn in c03._ir_class_of(ctx, f, c.args[0]):
                    if cn in reads:
                        reads[cn].setdefault(c.args[1].value, (f, c))
    transferred: dict[str, set[str]] = {c: set() for c in reads}
    for f in clone_functions(ctx):
        orig = _originals(f)
        for n in own_nodes(f.node):
            if isinstance(n, ast.Attribute) and isinstance(n.ctx, ast.Load) and _root(n) in orig:
                for cn in c03._ir_class_of(ctx, f, n.value):
                    if cn in transferred:
                        transferred[cn].add(n.attr.lstrip("_"))  # clone() methods read the private field directly
            if isinstance(n, (ast.For, ast.comprehension)):
                for cn in c03._ir_class_of(ctx, f, n.iter):
                    if cn in transferred and _root(n.iter) in orig:
                        transferred[cn].add("<nodes>")
    ctx.tables["cloner_transfers"] = {k: sorted(v) for k, v in transferred.items()}
    exempt = {
        ("Model", "opset_imports"): "view of graph.opset_imports, cloned with the graph",
        ("Function", "inputs"): "cloned with the function's graph", ("Function", "outputs"): "cloned with the function's graph",
        ("Function", "doc_string"): "cloned with the function's graph", ("Function", "opset_imports"): "cloned with the function's graph",
        ("Function", "metadata_props"): "cloned with the function's graph",
    }
    for cn, attrs in reads.items():
        for attr, (f, node) in sorted(attrs.items()):
            if (cn, attr) in exempt:
                ctx.ob("R2", f"{cn}.{attr}", True, nontrivial=False, how=f"exempt: {exempt[(cn, attr)]}")
                continue
            ok = attr in transferred[cn]
            ctx.check("R2", f"{cn}.{attr} (serialized) is transferred by the cloner", ok, f, node,
                      f"{cn}.{attr} is serialized but never read from the original while cloning: the clone serializes differently",
                      how="attribute reads on original-typed objects in the cloner / clone() methods",
                      symbol=f"{CL}:Cloner", construct=f"{cn}.{attr} not transferred")


def rule_graph_attr_returns(ctx):
    """Every way out of the GRAPH / GRAPHS branches of clone_attr is a new attribute built from cloned graphs: returning
    the original attribute there (for an empty subgraph, a 'placeholder', …) shares the Graph object with the source."""
    f = ctx.repo.func(f"{CL}:Cloner.clone_attr")
    attr_p = f.params[2] if len(f.params) > 2 else "attr"
    n = 0
    for iff in (x for x in own_nodes(f.node) if isinstance(x, ast.If)):
        kinds = {(dotted_of(y) or "").rsplit(".", 1)[-1] for y in ast.walk(iff.test) if isinstance(y, ast.Attribute)} & {"GRAPH", "GRAPHS"}
        if not kinds:
            continue
        cloned = {a.targets[0].id for st in iff.body for a in ast.walk(st) if isinstance(a, ast.Assign) and isinstance(a.targets[0], ast.Name)
                  and any(isinstance(c, ast.Call) and isinstance(c.func, ast.Attribute) and c.func.attr == "clone_graph" for c in ast.walk(a.value))}
        for r in (y for st in iff.body for y in ast.walk(st) if isinstance(y, ast.Return)):
            n += 1
            v = r.value
            fresh = isinstance(v, ast.Call) and (dotted_of(v.func) or "").split(".")[-1].startswith(("Attr", "RefAttr")) and any(
                (isinstance(a, ast.Name) and a.id in cloned) or any(
                    isinstance(c, ast.Call) and isinstance(c.func, ast.Attribute) and c.func.attr == "clone_graph" for c in ast.walk(a))
                for a in list(v.args) + [k.value for k in v.keywords])
            ctx.check("R3", f"clone_attr: {sorted(kinds)[0]} branch returns a new attribute built from cloned graphs ({norm(r)[:50]})", fresh, f, r,
                      f"`{norm(r)}` leaves the {sorted(kinds)[0]} branch without cloning: the clone's node keeps the original's attribute and with it the "
                      "same Graph object (its nodes, values, initializers) - editing the clone's branch edits the original",
                      how="returns inside the GRAPH/GRAPHS branches are Attr(..., <clone_graph result>, ...) constructions",
                      construct=f"{sorted(kinds)[0]} branch returns {norm(r)[:60]}")
    ctx.require(n >= 2, "clone_attr: returns of the GRAPH/GRAPHS branches not found")


def rule_r3_r4(ctx):
    repo = ctx.repo
    cn = repo.func(f"{CL}:Cloner.clone_node")
    cfg = CFG(cn.node)
    # pass-through points: where an original input (the loop variable itself, not its image in the value map) is put on its way
    # into the new node's inputs - appended to a local list directly, or bound to a local that is appended later
    loop = [n for n in own_nodes(cn.node) if isinstance(n, ast.For) and norm(n.iter) == f"{cn.params[1]}.inputs"]
    ctx.require(len(loop) == 1, "clone_node: input loop not found")
    var = norm(loop[0].target)
    appended = {norm(c.args[0]) for c in ast.walk(loop[0]) if isinstance(c, ast.Call) and isinstance(c.func, ast.Attribute) and c.func.attr == "append"
                and isinstance(c.func.value, ast.Name) and c.args and isinstance(c.args[0], ast.Name)}
    points = [c for c in ast.walk(loop[0]) if isinstance(c, ast.Call) and isinstance(c.func, ast.Attribute) and c.func.attr == "append"
              and isinstance(c.func.value, ast.Name) and c.args and norm(c.args[0]) == var]
    points += [a for a in ast.walk(loop[0]) if isinstance(a, ast.Assign) and len(a.targets) == 1 and isinstance(a.targets[0], ast.Name)
               and a.targets[0].id in appended and norm(a.value) == var]
    ctx.require(len(points) >= 1, "clone_node: pass-through of original inputs not found")

    def literals(node):
        """Path condition of node inside the loop as (atom, polarity) pairs; `not A`, `A not in B`, `A is not B` are read as the
        negation of `A`, `A in B`, `A is B`; an earlier sibling `if T: raise/continue/return` contributes the negation of T."""
        out = []

        def add(test, pol):
            while isinstance(test, ast.UnaryOp) and isinstance(test.op, ast.Not):
                test, pol = test.operand, not pol
            if isinstance(test, ast.Compare) and len(test.ops) == 1 and isinstance(test.ops[0], (ast.NotIn, ast.IsNot)):
                pos = ast.Compare(left=test.left, ops=[ast.In() if isinstance(test.ops[0], ast.NotIn) else ast.Is()], comparators=test.comparators)
                out.append((norm(pos), not pol))
            else:
                out.append((norm(test), pol))

        child, p = node, getattr(node, "_parent", None)
        while p is not None and child is not loop[0]:
            if isinstance(p, ast.If):
                if any(child is x for x in p.body):
                    add(p.test, True)
                elif any(child is x for x in p.orelse):
                    add(p.test, False)
            for fld in ("body", "orelse"):
                blk = getattr(p, fld, None)
                if isinstance(blk, list) and any(child is x for x in blk):
                    for sib in blk[: [i for i, x in enumerate(blk) if x is child][0]]:
                        if isinstance(sib, ast.If) and sib.body and isinstance(sib.body[-1], (ast.Raise, ast.Continue, ast.Return)) and not sib.orelse:
                            add(sib.test, False)
            child, p = p, getattr(p, "_parent", None)
        return out

    n_guarded = 0
    for c in points:
        lits = literals(c if isinstance(c, ast.stmt) else getattr(c, "_parent", c))
        if (f"{var} is None", True) in lits:
            ctx.ob("R3", f"clone_node: {norm(c)} under `{var} is None`", True, nontrivial=False, how="None input")
            continue
        n_guarded += 1
        unmapped = (f"{var} in self._value_map", False) in lits
        allowed = ("self._allow_outer_scope_values", True) in lits
        # the other way out of the allow_outer_scope_values test rejects
        rejects = any(isinstance(n, ast.If) and "self._allow_outer_scope_values" in norm(n.test) and (
            any(isinstance(x, ast.Raise) for x in n.body) or any(isinstance(x, ast.Raise) for x in n.orelse)) for n in ast.walk(loop[0]))
        ok = unmapped and allowed and rejects
        ctx.check("R3", f"clone_node: pass-through {norm(c)} is guarded by allow_outer_scope_values", ok, cn, c,
                  "an original (outer-scope) value is wired into the clone without the allow_outer_scope_values test: the "
                  "clone silently refers to an object of the source",
                  how="path condition of the pass-through: value unmapped and allow_outer_scope_values true; the other branch raises")
    ctx.require(n_guarded >= 1, "clone_node: no pass-through of an unmapped input found")
    n = 0
    for f, node, ok, detail, label in s1_sites(repo, {CL}):
        n += 1
        ctx.check("R3", f"S1 {f.local}: {label}"[:150], ok, f, node, detail, how="GRAPH/GRAPHS sibling agreement", construct=f"S1 {label}")
    ctx.require(n >= 1, "no GRAPH/GRAPHS dispatch in the cloner")
    rule_outer_scope_explicit(ctx)
    w = repo.cls("onnx_ir.passes._pass_infra:_FunctionalPassWrapper").methods.get("call")
    ctx.require(w is not None, "_FunctionalPassWrapper.call not found")
    mp = w.params[1]
    uses = [x for x in own_nodes(w.node) if isinstance(x, ast.Name) and x.id == mp]
    ok = bool(uses) and all(isinstance(getattr(u, "_parent", None), ast.Attribute) and u._parent.attr == "clone"
                            and isinstance(getattr(u._parent, "_parent", None), ast.Call) for u in uses)
    ctx.check("R4", "_FunctionalPassWrapper.call: model only cloned", ok, w, w.node,
              "the functionalized pass runs on (or otherwise touches) its input model", how="every use of the parameter is <model>.clone()")


def rule_s3(ctx, rule="R5", modules=(CL,), mention=None, floor=2):
    from ..shared import accumulator_flags, nonmonotone_flags

    n = 0
    for f in (g for mn in modules for g in ctx.repo.module(mn).all_funcs):
        if isinstance(f.node, ast.Lambda):
            continue
        if mention is not None and not any(isinstance(x, (ast.Attribute, ast.Name)) and mention in (x.attr if isinstance(x, ast.Attribute) else x.id)
                                           for x in ast.walk(f.node)):
            continue
        flags = accumulator_flags(f)
        bad = {name: (a, lp) for name, a, lp in nonmonotone_flags(f)}
        for name in sorted(flags):
            n += 1
            a = bad.get(name)
            ctx.check(rule, f"{f.local}: accumulator `{name}` is set monotonically inside its loop", a is None, f, a[0] if a else f.node,
                      f"`{norm(a[0]) if a else ''}` overwrites the accumulator on every iteration: whether the rebuilt result is used depends "
                      "only on the last element, so rewrites made for earlier elements are thrown away (e.g. sharding references of the "
                      "clone keep pointing at the original's values)",
                      how="initialised false outside the loop, read after it; in-loop assignments are True / flag or x / |= / +=",
                      construct=f"non-monotone accumulator {name}")
    ctx.require(n >= floor, f"only {n} accumulator flags found in {modules}")


def rule_outer_scope_explicit(ctx, rule="R3"):
    """Outer-scope references survive in a clone only when the CALLER allowed it: every construction of the cloner
    leaves allow_outer_scope_values at its (false) default, passes a false literal, or forwards a parameter of the
    enclosing function whose own default is false."""
    repo = ctx.repo
    cl = repo.cls(f"{CL}:Cloner")
    init = cl.methods.get("__init__") if cl else None
    ctx.require(init is not None, "Cloner.__init__ not found")
    opt = next((p_ for p_ in init.params if "outer_scope" in p_), None)
    ctx.require(opt is not None, "Cloner.__init__ has no outer-scope option")
    dflt = _param_default(init, opt)
    n = 0
    # constructors of the cloner: the class itself and factories that return a freshly built cloner, forwarding one of
    # their own parameters (default false) as the option - their call sites are construction sites as well
    ctors: dict[str, tuple[str, int]] = {"Cloner": (opt, init.params.index(opt) - 1)}
    for _ in range(2):
        for g in repo.all_funcs():
            if not g.key.startswith("onnx_ir") or isinstance(g.node, ast.Lambda) or g.name in ctors:
                continue
            for r in (x for x in own_nodes(g.node) if isinstance(x, ast.Return) and isinstance(x.value, ast.Call)):
                nm = (dotted_of(r.value.func) or "").split(".")[-1]
                if nm in ctors:
                    o, _i = ctors[nm]
                    a = next((k.value for k in r.value.keywords if k.arg == o), None)
                    if isinstance(a, ast.Name) and a.id in g.params:
                        d = _param_default(g, a.id)
                        if isinstance(d, ast.Constant) and not d.value:
                            pos = g.params.index(a.id) - (1 if g.cls is not None and g.kind == "method" else 0)
                            kwonly = a.id in {x.arg for x in g.node.args.kwonlyargs}
                            ctors[g.name] = (a.id, -1 if kwonly else pos)
    for f in repo.all_funcs():
        if not f.key.startswith("onnx_ir") or isinstance(f.node, ast.Lambda):
            continue
        for c in calls_in(f):
            nm = (dotted_of(c.func) or "").split(".")[-1]
            if nm not in ctors:
                continue
            n += 1
            copt, cpos = ctors[nm]
            arg = next((k.value for k in c.keywords if k.arg == copt), None)
            if arg is None and cpos >= 0 and len(c.args) > cpos:
                arg = c.args[cpos]
            if arg is None:
                ok, why = True, "left at the constructor's default"
            elif isinstance(arg, ast.Constant):
                ok, why = not arg.value, f"literal {arg.value!r}"
            elif isinstance(arg, ast.Name) and arg.id in f.params:
                d = _param_default(f, arg.id)
                ok, why = isinstance(d, ast.Constant) and not d.value, f"forwards parameter `{arg.id}` (default {norm(d) if d is not None else 'none'})"
            else:
                ok, why = False, f"computed: {norm(arg)}"
            ctx.check(rule, f"{f.local}: Cloner({opt}) is the caller's explicit choice ({why})", ok, f, c,
                      f"{f.local} builds its cloner with {opt} = {norm(arg) if arg is not None else ''} ({why}): values of an enclosing scope are wired into the "
                      "clone although the caller never allowed it - the clone silently refers to objects of the source and the promised error is not raised",
                      how="argument of every Cloner construction: absent, false literal, or a forwarded parameter whose default is false",
                      construct=f"Cloner {opt} in {f.local}")
    ctx.require(n >= 3, "constructions of the cloner not found")
    if dflt is not None:
        ctx.check(rule, f"Cloner.__init__: {opt} defaults to false", isinstance(dflt, ast.Constant) and not dflt.value, init, init.node,
                  "outer-scope references are allowed by default", how="default of the constructor parameter")


def _param_default(f, name):
    a = f.node.args
    pos = a.posonlyargs + a.args
    for p_, d in zip(reversed(pos), reversed(a.defaults)):
        if p_.arg == name:
            return d
    for p_, d in zip(a.kwonlyargs, a.kw_defaults):
        if p_.arg == name:
            return d
    return None


def rule_r7(ctx):
    repo = ctx.repo
    funcs = [f for f in repo.module(CL).all_funcs if not isinstance(f.node, ast.Lambda)]
    funcs += [f for f in repo.module("onnx_ir._core").all_funcs if f.name in ("clone", "deep_copy") and not isinstance(f.node, ast.Lambda)]
    n = 0
    for f in funcs:
        params = set(f.params)
        for c in (x for x in own_nodes(f.node) if isinstance(x, (ast.ListComp, ast.SetComp, ast.GeneratorExp, ast.DictComp))):
            gen = c.generators[0]
            root = gen.iter
            while isinstance(root, (ast.Attribute, ast.Call, ast.Subscript)):
                root = root.func if isinstance(root, ast.Call) else root.value
            if not (isinstance(root, ast.Name) and root.id in params):
                continue
            n += 1
            bound = {x.target.id for x in ast.walk(c) if isinstance(x, ast.NamedExpr)}
            bad = None
            for g_ in c.generators:
                for cond in g_.ifs:
                    t = cond
                    ok = isinstance(t, ast.Compare) and len(t.ops) == 1 and isinstance(t.ops[0], ast.IsNot) and isinstance(t.comparators[0], ast.Constant) \
                        and t.comparators[0].value is None and (isinstance(t.left, ast.NamedExpr) or (isinstance(t.left, ast.Name) and t.left.id in bound))
                    if not ok:
                        bad = cond
            ctx.check("R7", f"{f.local}: every element of {norm(gen.iter)[:50]} gets an image in the clone", bad is None, f, bad if bad is not None else c,
                      f"the elements of `{norm(gen.iter)}` are cloned only where `{norm(bad) if bad is not None else ''}` holds: the others have no image in the "
                      "clone's collection (an initializer that is also a graph input is missing from the clone's initializers, so the clone serializes "
                      "without its tensor)",
                      how="filters of the comprehensions over collections of the original in the cloner / clone() methods", nontrivial=bad is not None,
                      construct=f"filtered transfer of {norm(gen.iter)[:60]}")
        for lp in (x for x in own_nodes(f.node) if isinstance(x, ast.For)):
            root = lp.iter
            while isinstance(root, (ast.Attribute, ast.Call, ast.Subscript)):
                root = root.func if isinstance(root, ast.Call) else root.value
            if not (isinstance(root, ast.Name) and root.id in params) or not any(
                    isinstance(x, ast.Call) and isinstance(x.func, ast.Attribute) and (x.func.attr.startswith("clone") or x.func.attr in ("append", "add"))
                    for b in lp.body for x in ast.walk(b)):
                continue
            n += 1
            def own_level(stmts):
                for st in stmts:
                    if isinstance(st, (ast.For, ast.While, ast.FunctionDef, ast.AsyncFunctionDef)):
                        continue
                    yield st
                    for fld in ("body", "orelse", "finalbody"):
                        blk = getattr(st, fld, None)
                        if isinstance(blk, list) and blk and isinstance(blk[0], ast.stmt):
                            yield from own_level(blk)
                    for h in getattr(st, "handlers", []):
                        yield from own_level(h.body)

            # a skip is a filter on the source element only if nothing was transferred for it before (no append in the same
            # block) and its condition looks at the element itself - a test of what the mapping returned (`mapped is None`)
            # is the admitted result filter
            mapped_locals = {t.id for st in own_level(lp.body) if isinstance(st, ast.Assign) for t in st.targets if isinstance(t, ast.Name)}
            skips = []
            for x in own_level(lp.body):
                if not isinstance(x, (ast.Continue, ast.Break)):
                    continue
                blk_ = next((b for b in (getattr(getattr(x, "_parent", None), fld, None) for fld in ("body", "orelse")) if isinstance(b, list) and x in b), [])
                appended_before = any(isinstance(c_, ast.Call) and isinstance(c_.func, ast.Attribute) and c_.func.attr in ("append", "add")
                                      for st in blk_[: blk_.index(x)] for c_ in ast.walk(st)) if x in blk_ else False
                cond = getattr(getattr(x, "_parent", None), "test", None)
                cond_names = {y.id for y in ast.walk(cond) if isinstance(y, ast.Name)} if cond is not None else set()
                on_result = bool(cond_names) and cond_names <= mapped_locals
                if not appended_before and not on_result:
                    skips.append(x)
            ctx.check("R7", f"{f.local}: the loop over {norm(lp.iter)[:50]} transfers every element", not skips, f, skips[0] if skips else lp,
                      f"the loop over `{norm(lp.iter)}` that builds the clone's collection skips elements", how="no continue/break in the transferring loop",
                      nontrivial=False, construct=f"skipping transfer loop over {norm(lp.iter)[:60]}")
    ctx.require(n >= 7, f"only {n} collection transfers found in the cloner")


_R9_EXAMPLE = "class T:\n    __slots__ = ('dtype',)\n    def __deepcopy__(self, memo):\n        return self\n"
_COPY_HOOKS = ("__deepcopy__", "__copy__", "__reduce__", "__reduce_ex__", "copy")


def _returns_self(fn_node) -> ast.AST | None:
    a = fn_node.args
    first = (a.posonlyargs + a.args)[0].arg if (a.posonlyargs + a.args) else None
    for n in ast.walk(fn_node):
        if isinstance(n, ast.Return) and isinstance(n.value, ast.Name) and n.value.id == first:
            return n
    return None


def rule_r9(ctx):
    ex = ast.parse(_R9_EXAMPLE).body[0]
    ctx.require(_returns_self(ex.body[1]) is not None, "R9: the built-in positive example is not recognised")
    repo = ctx.repo
    n = 0
    for mn in ("onnx_ir._core", "onnx_ir._graph_containers", "onnx_ir._metadata", "onnx_ir._multi_device", "onnx_ir._linked_list", "onnx_ir._name_authority"):
        m = repo.modules.get(mn)
        if m is None:
            continue
        for k in m.classes.values():
            mro = [c for c in repo.mro(k) if isinstance(c, ClassInfo) and not getattr(c, "external", False)]
            is_enum = any("Enum" in norm(b) for c in mro for b in c.node.bases)
            mutable = any("set" in p for c in mro for p in c.props.values()) or any(
                not s_.startswith("_") for c in mro for s_ in (c.slots or ())) or any("__setitem__" in c.methods for c in mro)
            n += 1
            hooks = [k.methods[h] for h in _COPY_HOOKS if h in k.methods]
            bad = next(((h, r) for h in hooks for r in [_returns_self(h.node)] if r is not None), None)
            ok = bad is None or is_enum or not mutable
            ctx.check("R9", f"{k.name}: {', '.join(h.name for h in hooks) or 'no copy hook (default protocol)'} yields a new object", ok, bad[0] if bad else k, bad[1] if bad else k.node,
                      f"`{k.name}.{bad[0].name if bad else ''}` can return the object itself although instances of {k.name} can change (setter / public slot / __setitem__): what the "
                      "cloner takes for a copy is the original's object, so editing the clone's value edits the original's",
                      how="copy hooks (__deepcopy__, __copy__, __reduce__, __reduce_ex__, copy) of the IR core classes: no `return self`, unless the class is an enum or has no mutable state",
                      construct=f"{k.name}.{bad[0].name if bad else ''} returns self")
    ctx.require(n >= 20, f"only {n} classes of the IR core examined")


def rule_r10(ctx):
    repo = ctx.repo
    # fields that some constructor of the package binds to a fresh mutable container
    mutable: dict[str, str] = {}
    for m in repo.pkg_modules():
        for k in m.classes.values():
            init = k.methods.get("__init__")
            if init is None or isinstance(init.node, ast.Lambda) or not init.params:
                continue
            me = init.params[0]
            for a in own_nodes(init.node):
                if isinstance(a, (ast.Assign, ast.AnnAssign)) and getattr(a, "value", None) is not None:
                    v = a.value
                    fresh = isinstance(v, (ast.Set, ast.Dict, ast.List, ast.SetComp, ast.DictComp, ast.ListComp)) or (
                        isinstance(v, ast.Call) and (dotted_of(v.func) or "").split(".")[-1] in ("set", "dict", "list", "defaultdict", "OrderedDict", "Counter", "deque"))
                    if not fresh:
                        continue
                    for t in (a.targets if isinstance(a, ast.Assign) else [a.target]):
                        if isinstance(t, ast.Attribute) and norm(t.value) == me:
                            mutable.setdefault(t.attr, k.name)
    n = 0
    funcs = [f for f in repo.module("onnx_ir._cloner").all_funcs] + [f for f in repo.module("onnx_ir._core").all_funcs if f.name in ("clone", "__copy__", "__deepcopy__", "copy")]
    for f in funcs:
        if isinstance(f.node, ast.Lambda):
            continue
        for a in own_nodes(f.node):
            if not (isinstance(a, ast.Assign) and len(a.targets) == 1 and isinstance(a.targets[0], ast.Attribute)):
                continue
            n += 1
            t, v = a.targets[0], a.value
            shared = isinstance(v, ast.Attribute) and v.attr == t.attr and norm(v.value) != norm(t.value) and t.attr in mutable
            ctx.check("R10", f"{f.local}: `{norm(a)[:60]}` does not hand a container of the source to the clone", not shared, f, a,
                      f"`{norm(a)[:70]}` stores the source's own `{t.attr}` - which {mutable.get(t.attr, '')}.__init__ creates as a mutable container - in the new object: both copies now "
                      "add to and clear one and the same container, so an edit of the clone (re-validating or invalidating a metadata key, adding an entry) shows on the original - "
                      "a functionalized pass alters its input",
                      how="attribute stores `<a>.<f> = <b>.<f>` in the cloner / clone methods × fields bound to a fresh mutable container in a constructor of the package",
                      construct=f"container {t.attr} shared by assignment")
    ctx.require(n >= 5, f"only {n} attribute stores found in the cloner")


def rule_r11(ctx):
    f = ctx.repo.func("onnx_ir._cloner:Cloner.clone_attr")
    a = f.node.args
    params = [x.arg for x in a.posonlyargs + a.args]
    attr_p = next((p_ for p_ in params if p_ not in ("self", "key", "deep_copy")), None)
    ctx.require(attr_p is not None, "Cloner.clone_attr: the attribute parameter was not found")
    n = 0
    for r in (x for x in own_nodes(f.node) if isinstance(x, ast.Return) and x.value is not None):
        n += 1
        same = isinstance(r.value, ast.Name) and r.value.id == attr_p
        g_ = getattr(r, "_parent", None)
        ctx.check("R11", f"Cloner.clone_attr: `{norm(r)}` hands out a new attribute object", not same, f, r,
                  f"`{norm(r)}`" + (f" (under `{norm(g_.test)[:50]}`)" if isinstance(g_, ast.If) else "") + " puts the source's own Attr object into the clone: `clone.graph[0].attributes['t'].value.shape[0] = 7` "
                  "on a TYPE_PROTO attribute, or setting `doc_string` / `name` of an attribute of the clone, changes the original as well",
                  how="return statements of Cloner.clone_attr × the attribute parameter itself", construct=f"clone_attr returns its argument ({'plain' if not isinstance(g_, ast.If) else norm(g_.test)[:40]})")
    ctx.require(n >= 2, f"only {n} return statements found in Cloner.clone_attr")


def rule_r12(ctx):
    n = 0
    for f in ctx.repo.live(ctx.repo.module("onnx_ir._cloner").all_funcs):
        if isinstance(f.node, ast.Lambda):
            continue
        for x in own_nodes(f.node):
            if isinstance(x, ast.comprehension) and isinstance(x.iter, ast.Attribute) and x.iter.attr == "inputs":
                n += 1
                ctx.check("R12", f"{f.local}: the comprehension over `{norm(x.iter)}` keeps every position", not x.ifs, f, x.ifs[0] if x.ifs else x.iter,
                          f"`for … in {norm(x.iter)} if {norm(x.ifs[0]) if x.ifs else ''}` leaves inputs out: an omitted optional input (None) disappears from the clone and every "
                          "later input moves one position to the left - the clone no longer serializes like the original",
                          how="comprehensions / loops over <node>.inputs in the cloner: no condition, no continue", construct="inputs filtered while cloning")
            elif isinstance(x, ast.For) and isinstance(x.iter, ast.Attribute) and x.iter.attr == "inputs":
                n += 1
                skips = [y for y in ast.walk(x) if isinstance(y, ast.Continue)]

                def always_appends(stmts) -> bool:
                    for st in stmts:
                        if isinstance(st, ast.Expr) and isinstance(st.value, ast.Call) and isinstance(st.value.func, ast.Attribute) and st.value.func.attr in ("append", "add"):
                            return True
                        if isinstance(st, ast.Raise):
                            return True
                        if isinstance(st, ast.If) and st.orelse and always_appends(st.body) and always_appends(st.orelse):
                            return True
                    return False

                collects = any(isinstance(y, ast.Call) and isinstance(y.func, ast.Attribute) and y.func.attr == "append" for y in ast.walk(x))
                if collects and not always_appends(x.body) and not skips:
                    skips = [x]
                ctx.check("R12", f"{f.local}: the loop over `{norm(x.iter)}` keeps every position", not skips, f, skips[0] if skips else x,
                          f"the loop over `{norm(x.iter)}` skips some inputs (`continue`): an omitted optional input disappears from the clone and the later inputs shift",
                          how="comprehensions / loops over <node>.inputs in the cloner: no condition, no continue", construct="inputs filtered while cloning")
    ctx.require(n >= 1, "no loop over <node>.inputs found in the cloner")


def run(ctx):
    from . import c03, c18

    rule_r12(ctx)
    rule_r11(ctx)
    rule_r10(ctx)

    rule_r9(ctx)

    c18.rule_r6(ctx, rule="R8", consequence="the clone's output IS a value of the original: renaming or re-typing it changes the original model, and the original's value is marked as a graph output of the clone")
    rule_r7(ctx)

    c03.rule_r6(ctx, rule="R6", extra="; with a clone, renaming the initializer on one copy changes what the other copy serializes to")
    rule_graph_attr_returns(ctx)
    rule_s3(ctx)
    rule_r5(ctx)
    rule_r1(ctx)
    rule_r2(ctx)
    rule_r3_r4(ctx)
