"""C17 — deserializing any proto terminates with an error or a consistent IR; no file access."""

from __future__ import annotations

import ast

import networkx as nx

from ..cfg import CFG
from ..effects import Effects
from ..facts import calls_in, field_writes
from ..index import FuncInfo, dotted_of, norm, own_nodes, short

PROPERTY = "C17"
RULES = {
    "R1": "no file-system effect: from from_proto, every deserialize function, the proto/external tensor constructors "
    "and the name/dtype/shape/size/nbytes/doc_string/metadata accessors of every tensor class, no function with a "
    "file-system primitive is reachable (type-resolved call graph incl. property reads)"
    " ; string formatting (f-strings, str/repr/format, logging arguments, exception messages) is followed to the formatted class's __format__/__str__/__repr__",
    "R2": "structural termination: every recursive call among the deserialize functions passes a strict sub-term of the "
    "caller's proto parameter; deserialize functions have no while loop on unbounded state; for-loops iterate proto "
    "fields or locals built from them",
    "R3": "declare before resolve: all node outputs of a scope are declared before the first node is deserialized, "
    "scope push/pop are paired, and a redeclared output is rejected before the scope table is written",
    "R4": "ownership provenance: every value a deserialized graph takes ownership of (the inputs / outputs / "
    "initializers handed to the Graph constructor) is created in that function or looked up in the graph's OWN scope "
    "table - never obtained from a scan of the scope stack, which would make a subgraph own a value of an enclosing graph",
    "R5": "one resolution order for names (shared rule S2): every scan of the deserializer's scope stack lets the innermost "
    "binding win, so the value a sharding reference resolves to is the value the node's own input of that name resolves "
    "to - otherwise a (malformed) model with a shadowed name yields an IR whose reference links disagree",
    "R6": "stable emission: a field whose presence alone makes the serializer emit a value_info entry (found by evaluating the "
    "emission predicate - guard clauses or one expression - with that field and the always-required ones set and every other unset) is stored by serialize_value_into unconditionally or through a writer without a skip path that "
    "ignores the data - otherwise the entry carries only a name, deserializes to a value without information and is dropped "
    "by the next serialization, so the serialized form is not a fixed point",
    "R7": "fixed point of function value information below IR version 10 (shared rule S9): the parser of the composite names the serializer builds "
    "({domain}::{function}/{value}) splits at one occurrence of each separator (partition / maxsplit), never with an unbounded "
    "split followed by a length test - value names are free text and routinely contain '/'",
    "R8": "one precedence for duplicated value_info names: every table the deserializer builds from value_info entries (main "
    "graph, function, IR<10 function entries stored in the main graph) resolves a repeated name the same way - all last-wins "
    "(dict comprehension, plain store) or all first-wins (setdefault, `if k not in`): an entry that belongs to two tables and is "
    "read with opposite precedence makes serialize(deserialize(P)) swap the two entries on every round trip",
    "R9": "defaults survive an empty value_info: where the deserializer builds a Value with type/shape taken from its tensor and then "
    "applies a ValueInfoProto to it (the applying function assigns type and shape unconditionally, None when the proto has none), "
    "each pre-populated field is re-established afterwards when it came back None - otherwise the first round trip drops the "
    "initializer's entry and the second one re-creates it from the tensor: no fixed point",
    "R10": "no state survives a deserialization (shared rule S11): a container that a deserialize function writes to through one "
    "of its parameters (the stack of scope tables is pushed and popped) is created by the caller for that call - a `[]` display "
    "or a local - and is never a module-level list/dict or a mutable parameter default: the pop is skipped when a proto is "
    "rejected half-way, so with a shared stack the scopes of the rejected graph stay visible and the next proto's dangling names "
    "resolve to values of another model",
    "R11": "nothing that was linked is dropped: attributes are keyed by name and a later entry of the same name replaces an earlier "
    "one, so where the deserializer turns the attributes of a NodeProto into IR attributes with the enclosing scopes at hand (a "
    "subgraph's nodes register themselves as users of outer values while they are built), the entries are made unique by name "
    "*before* they are deserialized - otherwise the nodes of the replaced subgraph stay in uses() of values of the returned model "
    "although they are not part of it",
    "R12": "free text is carried, not rewritten: inside the deserialize functions a string read from the proto (a name, a "
    "doc string, an external-data location, a metadata value …) is never passed through a rewriting operation that is not "
    "idempotent (replace, removeprefix/removesuffix, translate, re.sub, expandtabs, slicing) on its way into the IR, and no number of the proto "
    "is tested for its magnitude (`dim_value < 0`) to be replaced - the "
    "serializer writes the rewritten text back, the next deserialization rewrites it again, and for inputs where one pass "
    "creates a new match (`....//x` → `../x` → `x`) the serialized form is not a fixed point",
    "R13": "a value that is there is written, whatever it is: in the serializer no write of a proto field from `<source>.A` is guarded by a "
    "comparison of that same `<source>.A` with a particular constant or enum member (`if from_.dtype != DataType.UNDEFINED:`) - the "
    "reader tells an unset field (no type at all) from an explicit default (`elem_type: 0` is TensorType(UNDEFINED)), so a value that "
    "is skipped on writing comes back as something else and the next serialization differs from this one (the value_info entry of the "
    "value disappears): serialize(deserialize(P)) is not a fixed point",
    "R14": "deserialized nodes list their uses at the right positions (rule shared with C01-R13): every node the deserializer builds goes "
    "through Node.__init__, where a use is registered under the counter of `enumerate(<the inputs as they are>)` - an empty input name "
    "in front must not shift the positions of the inputs that follow",
}
FLOORS = {"R1": 45, "R2": 6, "R3": 5, "R4": 5, "R5": 2, "R6": 3, "R7": 1, "R8": 3, "R9": 2, "R10": 4, "R11": 1, "R12": 1, "R13": 30, "R14": 3}
EXPLANATION = (
    "Effect summaries (file-system primitives through the resolved call graph) for the deserialization entry set and "
    "the cheap tensor accessors; a sub-term analysis of every recursive call edge of the deserializer; dominator "
    "queries for declaration order and the redeclaration check."
)
NOT_DECIDED = (
    "consistency of the returned IR for malformed input beyond what C01's writers guarantee; idempotence of "
    "re-serialization (value properties)"
)
ASSUMPTIONS = [
    "implicit dispatch through formatting/operators is not followed; onnx.external_data_helper.ExternalDataInfo only parses the proto",
    "a proto message is a finite tree (protobuf cannot represent cycles)",
]

SERDE = "onnx_ir.serde"
ACCESSORS = ("name", "dtype", "shape", "size", "nbytes", "doc_string", "metadata_props", "meta")
TENSOR_CLASSES = ("onnx_ir._core:TensorBase", "onnx_ir._core:Tensor", "onnx_ir._core:ExternalTensor", "onnx_ir._core:StringTensor",
                  "onnx_ir._core:LazyTensor", "onnx_ir._core:PackedTensor", "onnx_ir.serde:TensorProtoTensor")  # fmt: skip


def deser_funcs(ctx) -> list[FuncInfo]:
    m = ctx.repo.module(SERDE)
    out = [f for f in m.all_funcs if f.parent is None and f.cls is None
           and (f.name.startswith(("deserialize_", "_deserialize", "_declare_node", "_resolve_", "_parse_experimental")) or f.name == "from_proto")]  # fmt: skip
    ctx.require(len(out) >= 25, f"only {len(out)} deserialize functions found")
    return out


def rule_r1(ctx, ef: Effects):
    repo = ctx.repo
    entries: list[tuple[str, FuncInfo]] = [(f.local, f) for f in deser_funcs(ctx)]
    for ck in TENSOR_CLASSES:
        c = repo.cls(ck)
        init = repo.lookup(c, "__init__")
        if isinstance(init, FuncInfo) and ck.split(":")[1] in ("TensorProtoTensor", "ExternalTensor"):
            entries.append((f"{c.name}.__init__", init))
        for a in ACCESSORS:
            hit = repo.lookup(c, a)
            g = hit.get("get") if isinstance(hit, dict) else (hit if isinstance(hit, FuncInfo) else None)
            if g is not None:
                entries.append((f"{c.name}.{a}", g))
    seen = set()
    for label, f in entries:
        if (label, f.key) in seen:
            continue
        seen.add((label, f.key))
        s = ef.summary(f)
        bad = {k: v for k, v in s.fs.items()}
        path = []
        if bad:
            # reconstruct one call path to the primitive
            prim = sorted(bad)[0]
            cur, hops = f, 0
            while cur is not None and hops < 12:
                nxt = ef.summary(cur).fs_via.get(prim)
                path.append(cur.key)
                if nxt is None:
                    break
                cur = ef._funcs.get(nxt)
                hops += 1
            path.append(prim)
        ctx.check("R1", f"{label}: no file-system primitive reachable", not bad, f, f.node,
                  f"{label} can reach {sorted(bad)} — deserialization / cheap tensor inspection touches the file system",
                  how=f"effect summary over {ef.n_iter} fixpoint rounds of the type-resolved call graph",
                  construct=f"reaches {sorted(bad)[:3]}", path=path)


def _subterms(f: FuncInfo, param: str) -> set[str]:
    """Locals that are strict sub-terms of the proto parameter."""
    sub: set[str] = set()

    def is_sub(e) -> bool:
        """expression denotes a strict sub-term (a field below the parameter)."""
        if isinstance(e, ast.Name):
            return e.id in sub
        if isinstance(e, ast.Attribute):
            return is_root_or_sub(e.value)
        if isinstance(e, ast.Subscript):
            return is_sub(e.value)
        if isinstance(e, ast.NamedExpr):
            return is_sub(e.value)
        if isinstance(e, ast.Call):
            d = dotted_of(e.func) or ""
            if d in ("_get_field", "getattr") and e.args and is_root_or_sub(e.args[0]):
                return True
            if d in ("reversed", "list", "tuple", "iter", "enumerate", "zip", "sorted") and e.args:
                return all(is_sub(a) for a in e.args)
        if isinstance(e, (ast.ListComp, ast.GeneratorExp, ast.SetComp)):
            # a collection of sub-terms picked from the parameter (`[proto.attribute[i] for i in kept]`)
            return is_sub(e.elt)
        if isinstance(e, (ast.List, ast.Tuple)) and e.elts:
            return all(is_sub(x) for x in e.elts)
        return False

    def is_root_or_sub(e) -> bool:
        return (isinstance(e, ast.Name) and e.id == param) or is_sub(e)

    for _ in range(4):
        for n in own_nodes(f.node):
            if isinstance(n, (ast.Assign, ast.NamedExpr)):
                tgts = n.targets if isinstance(n, ast.Assign) else [n.target]
                if is_sub(n.value):
                    for t in tgts:
                        if isinstance(t, ast.Name):
                            sub.add(t.id)
            elif isinstance(n, (ast.For, ast.comprehension)):
                if is_sub(n.iter):
                    for t in ast.walk(n.target):
                        if isinstance(t, ast.Name):
                            sub.add(t.id)
    return sub, is_sub


def rule_r2(ctx, ef: Effects):
    funcs = deser_funcs(ctx)
    by_key = {f.key: f for f in funcs}
    g = nx.DiGraph()
    edges = {}
    for f in funcs:
        g.add_node(f.key)
        scopes = [f] + f.lambdas
        for c in calls_in(f):
            tg, _ = ctx.typer.callees(f, c)
            for t in tg:
                if t.key in by_key:
                    g.add_edge(f.key, t.key)
                    edges.setdefault((f.key, t.key), []).append(c)
    rec_edges = []
    for scc in nx.strongly_connected_components(g):
        if len(scc) > 1 or any(g.has_edge(k, k) for k in scc):
            for a in scc:
                for b in scc:
                    if g.has_edge(a, b):
                        rec_edges.append((a, b))
    ctx.require(len(rec_edges) >= 3, "recursive call edges of the deserializer not found")
    ctx.tables["recursive_edges"] = [f"{a.split(':')[1]} -> {b.split(':')[1]}" for a, b in sorted(rec_edges)]
    for a, b in sorted(rec_edges):
        f, t = by_key[a], by_key[b]
        pparam = f.params[0]
        sub, is_sub = _subterms(f, pparam)
        for c in edges[(a, b)]:
            arg = c.args[0] if c.args else next((k.value for k in c.keywords if k.arg == t.params[0]), None)
            ok = arg is not None and is_sub(arg)
            ctx.check("R2", f"{f.local} → {t.local}({norm(arg) if arg is not None else '?'})", ok, f, c,
                      f"a recursive call passes `{norm(arg) if arg is not None else '?'}`, which is not a strict sub-term of the "
                      f"caller's proto parameter `{pparam}`: deserialization of a finite proto may not terminate",
                      how="argument derives from the parameter by field access / iteration over a field")
    for f in funcs:
        whiles = [n for n in own_nodes(f.node) if isinstance(n, ast.While)]
        ctx.check("R2", f"{f.local}: no while loop", not whiles, f, whiles[0] if whiles else f.node,
                  "a while loop in a deserialize function has no structural bound", how="syntactic", nontrivial=False)


def rule_r3(ctx):
    repo = ctx.repo
    for key in (f"{SERDE}:_deserialize_graph", f"{SERDE}:deserialize_function"):
        f = repo.func(key)
        cfg = CFG(f.node)
        decl = [c for c in calls_in(f) if dotted_of(c.func) == "_declare_node_outputs"]
        res = [c for c in calls_in(f) if dotted_of(c.func) == "_deserialize_node"]
        ctx.require(decl and res, f"{key}: declare/resolve calls not found")
        # the declaring loop as a whole precedes the first resolution
        loop = None
        p = getattr(decl[0], "_parent", None)
        while p is not None and p is not f.node:
            if isinstance(p, ast.For):
                loop = p
            p = getattr(p, "_parent", None)
        ok = loop is not None and norm(loop.iter) == "proto.node"
        if ok:
            ln = [n for n in cfg.node_of(loop) if n.kind == "iter"][0]
            rn = cfg.nodes_containing(res[0])[0]
            # resolution is reached only after the loop has finished: the loop header dominates it and the
            # resolution is not inside the declaring loop
            ok = cfg.dominates(ln, rn) and not any(x is res[0] for x in ast.walk(loop))
            same_iter = any(isinstance(a, ast.comprehension) and norm(a.iter) == "proto.node" for a in ast.walk(getattr(res[0], "_parent", res[0])._parent if hasattr(getattr(res[0], "_parent", None), "_parent") else res[0]))
        ctx.check("R3", f"{f.local}: all node outputs are declared before any node is deserialized", ok, f, res[0],
                  "a node is deserialized before every output of the scope has been declared: a subgraph that uses a "
                  "later node's output resolves it to a fresh dangling value",
                  how="declaring loop over proto.node dominates the first _deserialize_node call")
        if key.endswith("_deserialize_graph"):
            push = [c for c in calls_in(f) if norm(c.func) == "scoped_values.append"]
            pop = [c for c in calls_in(f) if norm(c.func) == "scoped_values.pop"]
            ok = len(push) == 1 and len(pop) == 1
            if ok:
                pn, qn = cfg.nodes_containing(push[0])[0], cfg.nodes_containing(pop[0])[0]
                ok = cfg.dominates(pn, qn) and cfg.dominates(qn, cfg.exit) and cfg.dominates(pn, cfg.nodes_containing(res[0])[0]) \
                    and cfg.dominates(cfg.nodes_containing(res[0])[0], qn)
            ctx.check("R3", f"{f.local}: scope push/pop paired around node deserialization", ok, f, f.node,
                      "the value scope is not pushed before / popped after the nodes of the graph are deserialized on every normal path",
                      how="dominance of append over resolution over pop over exit")
    d = repo.func(f"{SERDE}:_declare_node_outputs")
    cfg = CFG(d.node)
    stores = [n for n in own_nodes(d.node) if isinstance(n, ast.Assign) and isinstance(n.targets[0], ast.Subscript)
              and norm(n.targets[0].value) == d.params[1]]  # fmt: skip
    raises = [n for n in own_nodes(d.node) if isinstance(n, ast.Raise)]
    ok = len(stores) == 1 and len(raises) == 1
    if ok:
        iff = getattr(raises[0], "_parent", None)
        key = norm(stores[0].targets[0].slice)
        ok = isinstance(iff, ast.If) and norm(iff.test) == f"{key} in {d.params[1]}"
        tn = [n for n in cfg.node_of(iff) if n.kind == "test"]
        ok = ok and bool(tn) and cfg.dominates(tn[0], cfg.node_of(stores[0])[0])
    ctx.check("R3", "_declare_node_outputs: redeclaration is rejected before the scope table is written", ok, d, d.node,
              "an output name declared twice silently overwrites the first value (two producers for one name)",
              how="`if name in scope: raise` dominates `scope[name] = value`")
    n = repo.func(f"{SERDE}:deserialize_node")
    decl = [c for c in calls_in(n) if dotted_of(c.func) == "_declare_node_outputs"]
    res = [c for c in calls_in(n) if dotted_of(c.func) == "_deserialize_node"]
    cfg = CFG(n.node)
    ok = bool(decl and res) and cfg.dominates(cfg.nodes_containing(decl[0])[0], cfg.nodes_containing(res[0])[0])
    ctx.check("R3", "deserialize_node declares the node's outputs first", ok, n, n.node,
              "stand-alone node deserialization resolves outputs that were never declared", how="dominator query")
    m = repo.func(f"{SERDE}:deserialize_model")
    cfg = CFG(m.node)
    rs = [c for c in calls_in(m) if dotted_of(c.func) == "_resolve_node_device_configurations"]
    ok = bool(rs) and cfg.dominates(cfg.nodes_containing(rs[0])[0], cfg.exit)
    ctx.check("R3", "deserialize_model resolves node device configurations before returning", ok, m, m.node,
              "placeholders for device configurations are never replaced by the model's configurations", how="dominates the exit")


def _origins(f: FuncInfo, name: str, depth=0, seen=None) -> list[ast.expr]:
    """Expressions that may flow into local `name` (its element expressions if it is a list built in f)."""
    seen = seen if seen is not None else set()
    if (name, depth > 0) in seen or depth > 4:
        return []
    seen.add((name, depth > 0))
    out: list[ast.expr] = []
    for n in own_nodes(f.node):
        if isinstance(n, (ast.Assign, ast.AnnAssign)) and getattr(n, "value", None) is not None:
            for t in n.targets if isinstance(n, ast.Assign) else [n.target]:
                if isinstance(t, ast.Name) and t.id == name:
                    out.append(n.value)
        elif isinstance(n, ast.NamedExpr) and n.target.id == name:
            out.append(n.value)
        elif isinstance(n, ast.Call) and isinstance(n.func, ast.Attribute) and isinstance(n.func.value, ast.Name) and n.func.value.id == name \
                and n.func.attr in ("append", "extend", "insert", "add") and n.args:
            out.append(n.args[-1])
        elif isinstance(n, (ast.For, ast.comprehension)):
            for x in ast.walk(n.target):
                if isinstance(x, ast.Name) and x.id == name:
                    out.append(n.iter)
    return out


def _flows(f: FuncInfo, e: ast.expr, depth=0, seen=None):
    """All expressions whose value may reach `e` through locals of f (transitively), e included."""
    seen = seen if seen is not None else set()
    yield e
    if depth > 5:
        return
    for x in ast.walk(e):
        if isinstance(x, ast.Name) and isinstance(x.ctx, ast.Load) and x.id not in seen:
            seen.add(x.id)
            for o in _origins(f, x.id):
                yield from _flows(f, o, depth + 1, seen)


def rule_r4(ctx):
    from ..shared import scope_stack_functions

    stacks = scope_stack_functions(ctx.repo)
    n = 0
    for f in deser_funcs(ctx):
        stack = stacks.get(f.key)
        for c in calls_in(f):
            k = ctx.typer.ctor_class(f, c)
            if k is None or k.name != "Graph":
                continue
            owned = [("inputs", c.args[0]) if len(c.args) > 0 else None, ("outputs", c.args[1]) if len(c.args) > 1 else None]
            owned += [(kw.arg, kw.value) for kw in c.keywords if kw.arg in ("inputs", "outputs", "initializers")]
            for item in owned:
                if item is None:
                    continue
                role, expr = item
                n += 1
                bad = None
                if stack is not None:
                    for e in _flows(f, expr):
                        for x in ast.walk(e):
                            # any use of the stack other than its innermost table stack[-1]
                            if isinstance(x, ast.Name) and x.id == stack:
                                par = getattr(x, "_parent", None)
                                own = isinstance(par, ast.Subscript) and par.value is x and norm(par.slice) == "-1"
                                if not own:
                                    bad = e
                ctx.check("R4", f"{f.local}: {role} of the new Graph come from this scope only", bad is None, f, bad if bad is not None else c,
                          f"a value handed to the Graph constructor as one of its {role} can come from `{short(norm(bad)) if bad is not None else ''}`, "
                          "a scan of the whole scope stack: a (malformed) subgraph that names a value of an enclosing graph then takes "
                          "ownership of that value while its producer stays in the enclosing graph - inconsistent ownership links",
                          how="def-use closure of the constructor argument over the function's locals; uses of the scope stack other than stack[-1]",
                          construct=f"{role} <- {short(norm(bad)) if bad is not None else ''}")
    ctx.require(n >= 5, f"only {n} owned-value arguments of Graph constructors found in the deserializer")


def _boolean_valued(e) -> bool:
    """A constant True/False, or an expression built from comparisons, not, and/or and bool(...)."""
    if e is None:
        return False
    if isinstance(e, ast.Constant):
        return isinstance(e.value, bool)
    if isinstance(e, ast.Compare):
        return True
    if isinstance(e, ast.UnaryOp) and isinstance(e.op, ast.Not):
        return True
    if isinstance(e, ast.BoolOp):
        return all(_boolean_valued(v) for v in e.values)
    if isinstance(e, ast.Call) and dotted_of(e.func) == "bool":
        return True
    return False


def _truth(e, p0: str, env: dict):
    """Three-valued truth of a test over the fields of `p0`, each field either set (truthy, not None) or unset: True / False / None."""
    if isinstance(e, ast.Constant):
        return bool(e.value)
    if isinstance(e, ast.Attribute) and isinstance(e.value, ast.Name) and e.value.id == p0:
        return env.get(e.attr)
    if isinstance(e, ast.Name):
        return env.get("$" + e.id)
    if isinstance(e, ast.UnaryOp) and isinstance(e.op, ast.Not):
        t = _truth(e.operand, p0, env)
        return None if t is None else not t
    if isinstance(e, ast.BoolOp):
        vals = [_truth(v, p0, env) for v in e.values]
        if isinstance(e.op, ast.And):
            return False if any(v is False for v in vals) else (None if any(v is None for v in vals) else True)
        return True if any(v is True for v in vals) else (None if any(v is None for v in vals) else False)
    if isinstance(e, ast.Call) and dotted_of(e.func) in ("bool", "len") and len(e.args) == 1:
        return _truth(e.args[0], p0, env)
    if isinstance(e, ast.Compare) and len(e.ops) == 1:
        l, r, op = e.left, e.comparators[0], e.ops[0]
        if isinstance(r, ast.Constant) and r.value is None and isinstance(op, (ast.Is, ast.IsNot, ast.Eq, ast.NotEq)):
            t = _truth(l, p0, env)
            return None if t is None else (t if isinstance(op, (ast.IsNot, ast.NotEq)) else not t)
        if isinstance(r, ast.Constant) and r.value in (0, "", ()) and not isinstance(r.value, bool):
            t = _truth(l, p0, env)
            if t is not None and isinstance(op, (ast.Gt, ast.NotEq)):
                return t
            if t is not None and isinstance(op, ast.Eq):
                return not t
    return None


def _answers(stmts, p0: str, env: dict) -> set:
    """Possible answers {True, False, None} of a predicate body under the field assignment (None: not decided by this reading)."""
    for i, st in enumerate(stmts):
        if isinstance(st, ast.Return):
            return {_truth(st.value, p0, env) if st.value is not None else None}
        if isinstance(st, ast.If):
            t = _truth(st.test, p0, env)
            rest = list(stmts[i + 1:])
            out = set()
            if t is not False:
                out |= _answers(list(st.body) + rest, p0, env)
            if t is not True:
                out |= _answers(list(st.orelse) + rest, p0, env)
            return out
        if isinstance(st, (ast.Expr, ast.Pass)):
            continue
        if isinstance(st, (ast.Assign, ast.AnnAssign)) and getattr(st, "value", None) is not None:
            tg = st.targets if isinstance(st, ast.Assign) else [st.target]
            if all(isinstance(t, ast.Name) for t in tg):
                # a local: read later as the truth of what it was bound to
                env = {**env, **{"$" + t.id: _truth(st.value, p0, env) for t in tg}}
                continue
        return {None}
    return {None}


def _emission_predicates(ctx):
    """Boolean one-parameter functions of serde used as the test that decides whether a value_info entry is written."""
    m = ctx.repo.modules[SERDE]
    out = []
    for g in m.functions.values():
        if isinstance(g.node, ast.Lambda) or len(g.params) != 1:
            continue
        rets = [r for r in own_nodes(g.node) if isinstance(r, ast.Return)]
        if not rets or not all(_boolean_valued(r.value) for r in rets):
            continue
        used = 0
        for f in m.all_funcs:
            if isinstance(f.node, ast.Lambda):
                continue
            calls_g = [c for c in calls_in(f) if dotted_of(c.func) == g.name]
            writes = [c for c in calls_in(f) if (dotted_of(c.func) or "").endswith("serialize_value_into")]
            if (calls_g or g.key in ctx.repo.expanded_into(f)) and writes:
                used += 1
        if used:
            out.append(g)
    return out


def _resolve_alias(m, name):
    seen = set()
    while name in m.assigns and name not in seen and isinstance(m.assigns[name], ast.Name):
        seen.add(name)
        name = m.assigns[name].id
    return m.functions.get(name)


def _field_guards(m, f, data: str, fld: str, depth: int = 0, seen=None):
    """`if <data>.<fld> …:` statements of f and of the module functions f hands <data> to (the writer may delegate the
    type/shape part to a helper of its own)."""
    seen = seen if seen is not None else set()
    if f.key in seen or depth > 3:
        return []
    seen.add(f.key)
    out = [x for x in own_nodes(f.node) if isinstance(x, ast.If) and any(
        isinstance(y, ast.Attribute) and isinstance(y.value, ast.Name) and y.value.id == data and y.attr == fld for y in ast.walk(x.test))]
    for c in calls_in(f):
        g = _resolve_alias(m, dotted_of(c.func) or "")
        if g is None or isinstance(g.node, ast.Lambda):
            continue
        for i, a in enumerate(c.args):
            if isinstance(a, ast.Name) and a.id == data and i < len(g.params):
                out += _field_guards(m, g, g.params[i], fld, depth + 1, seen)
        for k in c.keywords:
            if isinstance(k.value, ast.Name) and k.value.id == data and k.arg in g.params:
                out += _field_guards(m, g, k.arg, fld, depth + 1, seen)
    return out


def rule_r6(ctx):
    m = ctx.repo.modules[SERDE]
    preds = _emission_predicates(ctx)
    ctx.require(bool(preds), "emission predicate of value_info entries not found")
    w = m.functions.get("serialize_value_into")
    ctx.require(w is not None and len(w.params) >= 2, "serialize_value_into not found")
    data = w.params[1]
    n = 0
    for g in preds:
        p0 = g.params[0]
        # the conjunction that answers False: fields whose absence is required for "nothing to emit"
        # fields that alone justify an entry: the predicate answers True for a value that has this field and the fields it
        # always requires (the name), and nothing else - whatever way the predicate is written (guard clauses, one expression)
        mentioned: dict[str, ast.AST] = {}
        for x in own_nodes(g.node):
            if isinstance(x, ast.Attribute) and isinstance(x.value, ast.Name) and x.value.id == p0 and isinstance(x.ctx, ast.Load) \
                    and not isinstance(getattr(x, "_parent", None), ast.Call):
                mentioned.setdefault(x.attr, x)
            elif isinstance(x, ast.Attribute) and isinstance(x.value, ast.Name) and x.value.id == p0 and isinstance(getattr(x, "_parent", None), ast.Call) \
                    and dotted_of(getattr(x, "_parent").func) in ("bool", "len"):
                mentioned.setdefault(x.attr, x)
        body = [st for st in g.node.body if not (isinstance(st, ast.Expr) and isinstance(st.value, ast.Constant))]
        everything = {k: True for k in mentioned}
        ctx.require(_answers(body, p0, everything) == {True}, f"{g.local}: the predicate does not answer True for a value with every field set (reading of the predicate failed)")
        required = {k for k in mentioned if _answers(body, p0, {**everything, k: False}) == {False}}
        fields: dict[str, ast.AST] = {}
        for k in sorted(set(mentioned) - required):
            env = {x: (x in required or x == k) for x in mentioned}
            if _answers(body, p0, env) == {True}:
                fields[k] = mentioned[k]
        for fld, t in sorted(fields.items()):
            n += 1
            # how the writer stores it
            sites = _field_guards(m, w, data, fld)
            bad = None
            if not sites:
                bad = f"serialize_value_into never stores `{fld}`"
            for i in sites:
                for c in (x for b in i.body for x in ast.walk(b) if isinstance(x, ast.Call)):
                    h = _resolve_alias(m, dotted_of(c.func) or "")
                    if h is None or isinstance(h.node, ast.Lambda):
                        continue
                    dparams = set(h.params[1:])
                    last = h.node.body[-1]
                    for r in own_nodes(h.node):
                        if not isinstance(r, ast.Return) or r is last or r.value is not None:
                            continue
                        # guards of the skip: do they depend on the data being written?
                        dep, p_ = False, getattr(r, "_parent", None)
                        while p_ is not None and p_ is not h.node:
                            if isinstance(p_, (ast.If, ast.While)):
                                names = {y.id for y in ast.walk(p_.test) if isinstance(y, ast.Name)}
                                for _ in range(3):
                                    for a in own_nodes(h.node):
                                        if isinstance(a, ast.Assign) and any(isinstance(tg, ast.Name) and tg.id in names for tg in a.targets):
                                            names |= {y.id for y in ast.walk(a.value) if isinstance(y, ast.Name)}
                                dep |= bool(names & dparams)
                            p_ = getattr(p_, "_parent", None)
                        if not dep:
                            bad = f"`{fld}` is stored by {h.local}, which returns without writing on a path that does not depend on the data"
            ctx.check("R6", f"{g.local}: `{fld}` alone justifies an entry and is always stored", bad is None, g, t,
                      f"{g.local} answers True for a value that has only `{fld}`, but {bad}: the emitted entry then carries just the name; "
                      "deserialized it is a value without information, for which no entry is emitted - serialize(deserialize(P)) != P",
                      how="conjuncts of the emission predicate × writers in serialize_value_into (skip paths whose guards ignore the data)",
                      construct=f"emission predicate counts {fld}")
    ctx.require(n >= 3, f"only {n} fields found in the emission predicate")


def rule_r8(ctx):
    m = ctx.repo.modules[SERDE]
    sites = []  # (function, node, 'last' | 'first')
    for f in m.all_funcs:
        if isinstance(f.node, ast.Lambda):
            continue
        for x in own_nodes(f.node):
            if isinstance(x, ast.DictComp) and any("value_info" in norm(g.iter) for g in x.generators):
                sites.append((f, x, "last"))
            if isinstance(x, ast.For) and "value_info" in norm(x.iter) and not isinstance(getattr(x, "_parent", None), ast.DictComp):
                tv = {n.id for n in ast.walk(x.target) if isinstance(n, ast.Name)}
                for st in (y for b in x.body for y in ast.walk(b)):
                    # table[key] = <loop variable>  /  table.setdefault(key, <loop variable>)
                    if isinstance(st, ast.Assign) and isinstance(st.value, ast.Name) and st.value.id in tv and any(isinstance(t, ast.Subscript) for t in st.targets):
                        guarded = False
                        p_ = getattr(st, "_parent", None)
                        while p_ is not None and p_ is not x:
                            if isinstance(p_, ast.If) and any(isinstance(o, ast.NotIn) for c in ast.walk(p_.test) if isinstance(c, ast.Compare) for o in c.ops):
                                guarded = True
                            p_ = getattr(p_, "_parent", None)
                        sites.append((f, st, "first" if guarded else "last"))
                    if isinstance(st, ast.Call) and isinstance(st.func, ast.Attribute) and st.func.attr == "setdefault" and len(st.args) == 2 \
                            and isinstance(st.args[1], ast.Name) and st.args[1].id in tv:
                        sites.append((f, st, "first"))
    ctx.require(len(sites) >= 3, f"only {len(sites)} tables built from value_info entries found in the deserializer")
    kinds = [k for _, _, k in sites]
    major = max(set(kinds), key=kinds.count)
    for f, node, k in sites:
        ctx.check("R8", f"{f.local}: `{short(norm(node))}` resolves a repeated value_info name like the other tables ({major} wins)", k == major, f, node,
                  f"`{short(norm(node))}` keeps the {k} entry of a repeated name while the other value_info tables of the deserializer keep the {major} one: "
                  "a name that both tables list twice is then bound differently in the two places, and the serialized model swaps the entries on "
                  "every round trip (no fixed point)",
                  how="tables keyed by value_info names: dict comprehension / plain store (last wins) vs setdefault / `not in` guard (first wins)",
                  construct=f"value_info table with {k}-wins precedence in {f.local}")


def rule_r9(ctx, rule="R9", consequence=None):
    m = ctx.repo.modules[SERDE]
    applier = m.functions.get("deserialize_value_info_proto")
    ctx.require(applier is not None and len(applier.params) >= 2, "deserialize_value_info_proto not found")
    vp = applier.params[1]
    uncond = {t.attr for a in applier.node.body if isinstance(a, ast.Assign) for t in a.targets
              if isinstance(t, ast.Attribute) and isinstance(t.value, ast.Name) and t.value.id == vp and t.attr in ("type", "shape")}
    n = 0
    for f in m.all_funcs:
        if isinstance(f.node, ast.Lambda):
            continue
        for a in own_nodes(f.node):
            if not (isinstance(a, ast.Assign) and isinstance(a.targets[0], ast.Name) and isinstance(a.value, ast.Call)
                    and (dotted_of(a.value.func) or "").split(".")[-1] == "Value"):
                continue
            pre = {k.arg for k in a.value.keywords if k.arg in ("type", "shape") and not (isinstance(k.value, ast.Constant) and k.value.value is None)}
            v = a.targets[0].id
            applies = [c for c in calls_in(f) if dotted_of(c.func) == applier.name and len(c.args) >= 2 and isinstance(c.args[1], ast.Name) and c.args[1].id == v
                       and c.lineno > a.lineno]
            if not pre or not applies:
                continue
            for fld in sorted(pre & uncond):
                n += 1
                restored = any(isinstance(i, ast.If) and i.lineno > applies[0].lineno and norm(i.test) == f"{v}.{fld} is None" and any(
                    isinstance(st, ast.Assign) and any(norm(t) == f"{v}.{fld}" for t in st.targets) for st in i.body) for i in own_nodes(f.node))
                ctx.check(rule, f"{f.local}: `{v}.{fld}` taken from the tensor is re-established when - and only when - the value_info leaves it None", restored, f, applies[0],
                          f"`{v}` is built with its {fld} taken from the tensor, then `{norm(applies[0])[:70]}` assigns `{fld}` unconditionally (None for an entry without a "
                          f"type) and no `if {v}.{fld} is None:` restores it (a wider test also replaces what the entry did declare): " + (consequence or
                          "serialize(deserialize(P)) drops the initializer's value_info, and the next round trip re-creates it from the "
                          "tensor - the serialized form is not a fixed point"),
                          how="Value(...) pre-populated with type/shape, later passed to the value_info applier; `if v.F is None: v.F = …` after the call",
                          construct=f"pre-populated {fld} erased by an empty value_info in {f.local}")
    ctx.require(n >= (2 if rule == "R9" else 1) or rule != "R9", f"only {n} pre-populated fields found that a value_info entry can overwrite")
    if n == 0:
        ctx.ob(rule, "no pre-populated field is overwritten by the value_info applier (nothing to restore)", True, nontrivial=False)
    return n


def rule_r10(ctx, ef):
    from ..shared import shared_mutable_arguments

    hits, n = shared_mutable_arguments(ctx.repo, ctx.typer, ef, [SERDE])
    for f, c, arg, what, g in hits:
        ctx.check("R10", f"{f.local}: {norm(c)[:70]} is given a container of its own", False, f, c,
                  f"{g.local} writes to its parameter (it pushes and pops), and {f.local} hands it the {what}, which every call shares: what a "
                  "rejected proto leaves behind (the pop is skipped when an exception passes) is seen by the next deserialization - its "
                  "dangling names resolve to values of the earlier, rejected model",
                  how="effect summary of the callee writes through the parameter; the argument is a container that outlives the call",
                  construct=f"shared container {arg.id} passed to {g.local}")
    ctx.ob("R10", f"{n} arguments of serde calls whose callee writes through the parameter: {n - len(hits)} are displays, locals or forwarded parameters", True,
           how="S11: module-level containers and mutable defaults among the arguments of parameter-writing callees")
    for _ in range(max(0, n - len(hits) - 1)):
        ctx.counts["R10"] = ctx.counts.get("R10", 0) + 1
    ctx.require(n >= 4, f"only {n} arguments of parameter-writing serde functions found")


def rule_r13(ctx):
    m = ctx.repo.modules[SERDE]
    n = 0
    for f in m.all_funcs:
        if isinstance(f.node, ast.Lambda) or not f.name.lstrip("_").startswith(("serialize", "fill_in", "maybe_add")):
            continue
        for iff in (x for x in own_nodes(f.node) if isinstance(x, ast.If)):
            n += 1
            for t in ast.walk(iff.test):
                if not (isinstance(t, ast.Compare) and len(t.ops) == 1 and isinstance(t.ops[0], (ast.Eq, ast.NotEq, ast.Lt, ast.LtE, ast.Gt, ast.GtE))):
                    continue
                for side, other in ((t.left, t.comparators[0]), (t.comparators[0], t.left)):
                    src = side.value if isinstance(side, ast.Attribute) and side.attr == "value" else side
                    if not (isinstance(src, ast.Attribute) and isinstance(src.value, ast.Name) and src.value.id in f.params):
                        continue
                    const = isinstance(other, ast.Constant) and other.value is not None or (isinstance(other, ast.Attribute) and (dotted_of(other) or "").split(".")[-1].isupper())
                    if not const:
                        continue
                    want = norm(src)
                    writes = [a for st in iff.body for a in ast.walk(st) if isinstance(a, ast.Assign) and isinstance(a.targets[0], ast.Attribute)
                              and any(isinstance(y, ast.Attribute) and norm(y) == want for y in ast.walk(a.value))]
                    for a in writes:
                        ctx.check("R13", f"{f.local}: `{norm(a)[:50]}` is written whatever the value of {want}", False, f, iff,
                                  f"`{norm(a)[:60]}` is skipped when `{norm(t)[:60]}` fails: `{want}` is there but not written, and the reader does not give that value back for an "
                                  "unset field (an unset elem_type is no type at all, an explicit 0 is a tensor type of UNDEFINED elements) - the value read back differs, so the "
                                  "next serialization differs from this one",
                                  how="if-tests of the serializer comparing a source attribute with a constant / enum member around a write from that same attribute",
                                  construct=f"write of {want} guarded by its own value in {f.local}")
    for _ in range(n):
        ctx.counts["R13"] = ctx.counts.get("R13", 0) + 1
    ctx.ob("R13", f"{n} if-statements of the serializer examined: none guards a write by the value of what is written", True, nontrivial=False)
    ctx.require(n >= 30, f"only {n} if-statements found in the serializer")


def rule_r11(ctx):
    m = ctx.repo.modules[SERDE]
    n = 0
    for f in m.all_funcs:
        if isinstance(f.node, ast.Lambda):
            continue
        for c in calls_in(f):
            if (dotted_of(c.func) or "") != "_deserialize_attribute" or len(c.args) < 2:
                continue
            scopes = c.args[1]
            if not (isinstance(scopes, ast.Name) and scopes.id in f.params):
                continue  # a fresh scope stack: nothing of the model can be referenced from inside
            # the iteration that feeds it: comprehension or loop over <proto>.attribute
            comp = next((p_ for p_ in _ancestors(c, f.node) if isinstance(p_, (ast.ListComp, ast.GeneratorExp, ast.For))), None)
            if comp is None:
                continue
            it = comp.generators[0].iter if not isinstance(comp, ast.For) else comp.iter
            # what is iterated, through the locals it names (a list of the surviving entries computed beforehand)
            chain, seen_names, work = [], set(), [it]
            while work and len(chain) < 12:
                e = work.pop()
                chain.append(e)
                for x in ast.walk(e):
                    if isinstance(x, ast.Name) and x.id not in seen_names and x.id not in f.params:
                        seen_names.add(x.id)
                        work += [a.value for a in own_nodes(f.node) if isinstance(a, (ast.Assign, ast.AnnAssign)) and getattr(a, "value", None) is not None
                                 and any(isinstance(t, ast.Name) and t.id == x.id for t in (a.targets if isinstance(a, ast.Assign) else [a.target]))]
            if not any(isinstance(x, ast.Attribute) and x.attr == "attribute" for e in chain for x in ast.walk(e)):
                continue
            n += 1
            if isinstance(comp, ast.For):
                conds = [x.test for x in _ancestors(c, comp) if isinstance(x, ast.If)] + [x.test for x in comp.body if isinstance(x, ast.If)]
            else:
                conds = [t for g in comp.generators for t in g.ifs]
            def by_name(t) -> bool:
                # the name decides in every alternative of the test: `table is None or table[a.name] == i` lets every entry through
                # whenever the first alternative holds
                if isinstance(t, ast.BoolOp) and isinstance(t.op, ast.Or):
                    return all(by_name(v) for v in t.values)
                return any(isinstance(x, ast.Attribute) and x.attr == "name" for x in ast.walk(t))

            keyed = any(isinstance(x, ast.DictComp) and isinstance(x.key, ast.Attribute) and x.key.attr == "name" for e in chain[1:] for x in ast.walk(e)) and it is not chain[0] or (
                len(chain) > 1 and any(isinstance(x, ast.DictComp) and isinstance(x.key, ast.Attribute) and x.key.attr == "name" for e in chain[1:] for x in ast.walk(e))
                and isinstance(it, ast.Name))
            unique = any(by_name(t) for t in conds) or keyed or any(
                isinstance(x, ast.Call) and (dotted_of(x.func) or "") in ("dict", "reversed") for x in ast.walk(it)) or isinstance(it, ast.Call) and isinstance(it.func, ast.Attribute) and it.func.attr == "values"
            ctx.check("R11", f"{f.local}: attribute entries are made unique by name before they are deserialized", unique, f, c,
                      f"every entry of `{norm(it)}` is deserialized with the enclosing scopes at hand and only then keyed by name: of two entries with one name "
                      "the earlier is dropped, but the nodes of its subgraph have registered themselves as users of outer values - uses() of a value of "
                      "the returned model names a node that is not in the model",
                      how="filter of the comprehension / loop that feeds _deserialize_attribute(<proto attribute>, <scope stack parameter>)",
                      construct="duplicate attribute names deserialized before being dropped")
    ctx.require(n >= 1, "no deserialization of node attributes with enclosing scopes found")


def _ancestors(node, stop):
    p_ = getattr(node, "_parent", None)
    while p_ is not None and p_ is not stop:
        yield p_
        p_ = getattr(p_, "_parent", None)


_REWRITERS = {"replace", "removeprefix", "removesuffix", "translate", "expandtabs", "zfill", "center", "ljust", "rjust"}
_REWRITE_FUNCS = {"re.sub", "re.subn"}


def _proto_text_names(ctx, f: FuncInfo) -> set[str]:
    """Locals of f that hold something read from a proto (or from onnx's ExternalDataInfo view of one)."""
    ty = ctx.typer

    def protoish(e) -> bool:
        root = e
        while isinstance(root, (ast.Attribute, ast.Subscript)) or (isinstance(root, ast.Call) and isinstance(root.func, ast.Attribute)):
            root = root.value if not isinstance(root, ast.Call) else root.func.value
        if isinstance(e, ast.Call) and (dotted_of(e.func) or "") in ("_get_field", "getattr") and e.args:
            return protoish(e.args[0]) or (isinstance(e.args[0], ast.Name) and (e.args[0].id in tainted or any(
                a[0].startswith("proto") for a in ty.type_of(f, e.args[0]))))
        if not isinstance(root, ast.Name) or root is e:
            return False
        if root.id in tainted:
            return True
        t = ty.type_of(f, root)
        return any(a[0].startswith("proto") or (a[0] == "ext" and "ExternalDataInfo" in a[1]) for a in t)

    tainted: set[str] = set()
    for _ in range(3):
        for n in own_nodes(f.node):
            if isinstance(n, ast.Assign) and len(n.targets) == 1 and isinstance(n.targets[0], ast.Name) and protoish(n.value):
                tainted.add(n.targets[0].id)
            if isinstance(n, (ast.For, ast.comprehension)) and isinstance(n.target, ast.Name) and protoish(n.iter):
                tainted.add(n.target.id)
    return tainted, protoish


def rule_r12(ctx):
    n = 0
    for f in deser_funcs(ctx):
        for g in [f] + list(f.nested.values()):
            if isinstance(g.node, ast.Lambda):
                continue
            tainted, protoish = _proto_text_names(ctx, g)

            def text(e):
                return protoish(e) or (isinstance(e, ast.Name) and e.id in tainted)

            def in_message(x):
                p_ = getattr(x, "_parent", None)
                while p_ is not None and p_ is not g.node:
                    if isinstance(p_, ast.Raise):
                        return True
                    if isinstance(p_, ast.Call) and (dotted_of(p_.func) or "").split(".")[0] in ("logger", "logging", "warnings"):
                        return True
                    p_ = getattr(p_, "_parent", None)
                return False

            for x in own_nodes(g.node):
                if isinstance(x, ast.Attribute) and text(x) and isinstance(getattr(x, "ctx", None), ast.Load):
                    n += 1
                bad = None
                if isinstance(x, ast.Call) and isinstance(x.func, ast.Attribute) and x.func.attr in _REWRITERS and text(x.func.value):
                    bad = x
                elif isinstance(x, ast.Call) and (dotted_of(x.func) or "") in _REWRITE_FUNCS and any(text(a) for a in x.args):
                    bad = x
                elif isinstance(x, ast.Subscript) and isinstance(x.slice, ast.Slice) and isinstance(getattr(x, "ctx", None), ast.Load) and text(x.value) \
                        and _is_text_field(ctx, g, x.value):
                    bad = x
                if isinstance(x, ast.Compare) and any(isinstance(o, (ast.Lt, ast.Gt, ast.LtE, ast.GtE)) for o in x.ops) and not in_message(x) \
                        and any(text(sd) for sd in [x.left] + x.comparators):
                    ctx.check("R12", f"{g.local}: `{norm(x)[:60]}` decides by the magnitude of a number read from the proto", False, g, x,
                              f"`{norm(x)[:70]}` lets the reader treat a number of the proto differently depending on its size (a negative dimension becomes an unknown one): "
                              "another path that takes the same number as it is (the dims of an initializer's tensor) keeps it, the serializer writes it back, and the next "
                              "round trip reads it through this test - the serialized form is not a fixed point",
                              how="ordering comparisons (<, <=, >, >=) on expressions rooted at a proto-typed name in the deserialize functions", construct=f"magnitude test {norm(x)[:40]}")
                if bad is not None and not in_message(bad):
                    ctx.check("R12", f"{g.local}: {norm(bad)[:70]} rewrites text read from the proto", False, g, bad,
                              f"`{norm(bad)[:90]}` rewrites a string of the proto with an operation that is not idempotent: the serializer writes the result back and "
                              "the next round trip rewrites it again (one pass can create a new match), so the serialized form is not a fixed point",
                              how="receiver / argument is rooted at a proto-typed name (resolver) or a local copied from one", construct=f"rewrite {norm(bad)[:50]}")
    ctx.ob("R12", f"{n} reads of proto-derived text in the deserialize functions: none passes through a non-idempotent rewriting operation", True,
           how="replace / removeprefix / removesuffix / translate / re.sub / slices on expressions rooted at a proto-typed name")
    ctx.require(n >= 25, f"only {n} reads of proto-derived values found in the deserialize functions")


def _is_text_field(ctx, g, e) -> bool:
    """The sliced expression is a string field (a slice of a repeated field - dims[1:] - is no text rewrite)."""
    t = ctx.typer.type_of(g, e)
    if any(a[0] in ("protorep", "protorepscalar", "seq", "tuple", "dict", "protomap") for a in t):
        return False
    return isinstance(e, ast.Attribute) and e.attr in ("name", "doc_string", "location", "domain", "op_type", "overload", "key", "value", "s", "ref_attr_name", "denotation", "dim_param")


def run(ctx):
    from . import c01

    c01.rule_r13(ctx, rule="R14")
    rule_r12(ctx)
    rule_r11(ctx)
    rule_r13(ctx)
    rule_r9(ctx)
    rule_r8(ctx)
    from ..shared import rule_s9

    rule_s9(ctx, "R7", "the entry is written but ignored on reading, so it disappears on the next serialization: serialize(deserialize(P)) != P")
    rule_r6(ctx)
    ef = ctx._shared.get("effects")
    if ef is None:
        ef = ctx._shared["effects"] = Effects(ctx.repo, ctx.typer, tier4=(ctx.tier == "thorough"))
    ef.compute()
    rule_r1(ctx, ef)
    rule_r10(ctx, ef)
    rule_r2(ctx, ef)
    rule_r3(ctx)
    rule_r4(ctx)
    from ..shared import scope_precedence_sites

    n5 = 0
    for f, node, form, winner in scope_precedence_sites(ctx.repo):
        n5 += 1
        ctx.check("R5", f"{f.local}: {form}", winner == "inner", f, node,
                  f"{form}: {'EVERY scope that binds the name contributes here' if winner == 'all' else 'the OUTER scope binding wins here'} while node inputs resolve innermost-first: for a shadowed name the IR links a "
                  "sharding spec to a value that is not an input/output of its node",
                  how="stack order is outer→inner; form of the scan classified (direction × first-hit/last-write)", construct=form)
    ctx.require(n5 >= 2, "scope stack scans of the deserializer not found")
