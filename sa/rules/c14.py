"""C14 — passes honour their contract: identity, modified flag, no damage."""

from __future__ import annotations

import ast
import re

from ..cfg import CFG
from ..effects import Effects
from ..facts import calls_in, field_writes
from ..index import ClassInfo, FuncInfo, dotted_of, norm, own_nodes, short

PROPERTY = "C14"
RULES = {
    "R1": "identity: every in-place pass returns PassResult(<its unrebound model parameter>, …); the functional "
    "wrapper only clones its parameter",
    "R2": "flag soundness: on every path, a statement that writes model state is followed or preceded by an "
    "unconditional set of a flag that flows into the returned `modified`, or folds a flag-returning helper's "
    "result into it, or is covered by a test of the same collection, or is in the idiom table"
    " ; helpers that answer with literal True/False are flag functions (a write on a path ending in return False)",
    "R3": "flag monotonicity: inside loops a variable that flows into the returned `modified` is only set by "
    "monotone forms (True, x or flag, |=, +=), also in Sequential/PassManager"
    " ; no model-writing call sits in a short-circuited operand of and/or",
    "R4": "temporary-mutation protocol of call_onnx_api: snapshot before the first mutation, nothing that can "
    "raise between the first mutation and the protecting try, the finally restores every mutated field, ordered "
    "containers are restored wholesale"
    " ; P0: the undo code is in a finally (in call_onnx_api or in the context-manager helper it enters)",
    "R5": "passes declaring changes_input = False write model state only through the R4 protocol",
    "R9": "made-up names are made unique: wherever a pass assigns a value or node name that it builds itself (an f-string or "
    "concatenation such as `<name>_orig`) rather than moves (`a.name = b.name`) or erases, the assigned expression is the result "
    "of a function that loops `while <candidate> in <names in use>` - otherwise the new name can equal the name of another value "
    "of the graph and the serialized model has two values under one name",
    "R8": "a name is erased only from an output that was tested for use: wherever a pass sets `<output>.name = \"\"`, that "
    "very output (the same loop variable, or every output position the erasing loop ranges over) is covered by a use test "
    "(`.uses()` and graph-output membership) - an output position that is blanked but not tested (slice or index set one "
    "short) loses a name that a consumer or the graph's outputs still refer to",
    "R7": "fresh snapshots (shared rule S7): a frozenset/set/tuple/list/dict copy of a model collection taken before a loop "
    "and consulted inside it for a decision (membership, lookup - also in a helper that receives it) is not written by "
    "that loop (helpers that receive the owner included), except for adding the loop's own item after testing that item",
    "R6": "history-free pass objects (shared with C05-R5): per-run state kept on a pass object is re-initialised "
    "unconditionally before its first use in call()/requires(), so a reused pass object (Sequential, PassManager) does to a "
    "model exactly what a fresh one does",
    "R10": "no answer survives an edit (shared rule S14): no function of the pass modules is memoised (functools.cache / lru_cache / "
    "cached_property) over a model, graph, node or value argument - passes run repeatedly on models that were edited in between, and "
    "a cache keyed by object identity hands the analysis of the old contents to the next run, which then reports (or skips) changes "
    "for a model it did not look at",
    "R11": "a graph input is dropped only when the graph still defines it: where a pass rebuilds `<g>.inputs` from a filtered copy "
    "(`<g>.inputs.clear()` + `extend(kept)`, slice assignment), the test that leaves an input out is a membership test in that graph's "
    "initializers (`in <g>.initializers` / a set built from them / `is_initializer()`) - a test of the value's own data (`const_value is "
    "not None`: analysis hints set it on plain inputs too) removes inputs that nothing else defines, and the nodes that read them dangle",
    "R12": "a composite hands on what its last member returned: in the looping call() methods of the pass infrastructure (Sequential, "
    "PassManager), the model handed to the next round and returned at the end is rebound from the member's result "
    "(`model = result.model`) straight after the member ran - no break, continue or return can leave the round between the call and "
    "the rebinding; with the early-stop test in between, a manager whose first step reports no change returns its input object, "
    "which for a functional member is not the (unchanged) clone that the member produced - the identity contract of the manager fails",
    "R13": "a node made for an output slot lives in the graph that lists the output: when a function of the pass modules builds a node, "
    "adds it to a graph (`<A>.append(node)` / insert_before / insert_after / extend) and stores one of its outputs in an output list "
    "(`<B>.outputs[i] = …`, `<B>.outputs.append(…)`), <A> and <B> are the same expression - with the enclosing graph (or function) as <A> "
    "while <B> is the subgraph being fixed, the subgraph lists an output it does not define, produced by a node that sits after the "
    "control-flow node whose body needs it: ownership and topological order are both broken although the flag is right",
}
FLOORS = {"R1": 18, "R2": 40, "R3": 10, "R4": 4, "R5": 1, "R6": 8, "R7": 5, "R8": 2, "R9": 6, "R10": 1, "R11": 1, "R12": 2, "R13": 2}
EXPLANATION = (
    "For every pass class found under onnx_ir.passes: CFG queries over `call` and every helper it reaches that "
    "writes model state (effect summaries with root tags), relating each write to the flag variables that reach "
    "the returned PassResult; a structural check of the snapshot/try/finally protocol around ONNX C-API calls."
)
NOT_DECIDED = "convergence / fixpoint bounds; C01 consistency after a pass (only through C01's writers); topological order preservation"
ASSUMPTIONS = [
    "a write that the effect analysis attributes to model state may be a no-op at run time; flagging it is still required "
    "(reporting modified=True for an unchanged model is allowed by the statement)",
    "value.meta / MetadataStore contents are not serialized and are not model state for `modified`",
]

NOT_SERIALIZED = {"meta", "_metadata", "_metadata.update()", "meta.update()"}
# writes that need no flag, with the reason
# (function, regex over the alpha-stable statement text - locals appear as <Class> or $rank) -> reason
IDIOMS = {
    ("RemoveInitializersFromInputsPass.call", r"<Graph>\.inputs\.clear\(\)"):
        "inputs are rebuilt from new_inputs; the content differs only by the initializers counted in `count`",
    ("RemoveInitializersFromInputsPass.call", r"<Graph>\.inputs\.extend\(\$\d+\)"):
        "second half of the rebuild; see graph.inputs.clear()",
    ("TopologicalSortPass.call", r"model\.graph\.sort\(\)"): "modified is computed by comparing the node order before and after (the snapshots are recursive: rule_sort_snapshots)",
    ("TopologicalSortPass.call", r"<Function>\.sort\(\)"): "modified is computed by comparing the node order before and after (the snapshots are recursive: rule_sort_snapshots)",
    ("InlinePass.call", r"del model\.functions\[\$\d+\]"):
        "_inlined_functions is filled only on the branch that increments inlined_count, which flows into total_inlined",
    ("InlinePass._inline_calls_in", r"self\._inlined_functions\.add\(\$\d+\)"): "bookkeeping of the pass object (not model state)",
}


def _idiom(local: str, ckey: str):
    for (fn, pat), why in IDIOMS.items():
        if fn == local and re.fullmatch(pat, ckey):
            return why
    return None


def pass_classes(ctx) -> list[ClassInfo]:
    repo = ctx.repo
    base = repo.cls("onnx_ir.passes._pass_infra:PassBase")
    out = []
    for m in repo.pkg_modules():
        if not m.name.startswith("onnx_ir.passes"):
            continue
        for c in m.classes.values():
            if c is not base and repo.is_subclass(c, base):
                out.append(c)
    ctx.require(len(out) >= 20, f"only {len(out)} pass classes found")
    return out


def _declares(ctx, c: ClassInfo, prop: str):
    """Literal returned by the class's `prop` property (True/False) or None if dynamic."""
    hit = ctx.repo.lookup(c, prop)
    if isinstance(hit, dict) and "get" in hit:
        rets = [n for n in own_nodes(hit["get"].node) if isinstance(n, ast.Return)]
        if len(rets) == 1 and isinstance(rets[0].value, ast.Constant):
            return rets[0].value.value
    return None


def _result_ctor(call: ast.Call) -> bool:
    d = dotted_of(call.func) or ""
    return d.endswith("PassResult")


def _flag_expr(call: ast.Call):
    for k in call.keywords:
        if k.arg == "modified":
            return k.value
    return call.args[1] if len(call.args) > 1 else None


def _model_expr(call: ast.Call):
    for k in call.keywords:
        if k.arg == "model":
            return k.value
    return call.args[0] if call.args else None


def rule_r1(ctx, passes):
    for c in passes:
        call = ctx.repo.lookup(c, "call")
        if not isinstance(call, FuncInfo) or call.cls is not c:
            continue
        in_place = _declares(ctx, c, "in_place")
        mp = call.params[1] if len(call.params) > 1 else None
        ctx.require(mp is not None, f"{c.name}.call has no model parameter")
        rets = [n for n in own_nodes(call.node) if isinstance(n, ast.Return)]
        rebinds = [n for n in own_nodes(call.node) if isinstance(n, ast.Assign) and any(norm(t) == mp for t in n.targets)]
        if in_place is True:
            for r in rets:
                v = r.value
                ok = isinstance(v, ast.Call) and _result_ctor(v) and _model_expr(v) is not None and norm(_model_expr(v)) == mp and not rebinds
                ctx.check("R1", f"{c.name}.call: {norm(r)[:70]}", ok, call, r,
                          "an in-place pass returns something other than PassResult(<its own model parameter>, …) "
                          "(or rebinds the parameter first)",
                          how="first argument of the returned PassResult is the unrebound parameter")
        elif in_place is False:
            # functional: the parameter is only used as the receiver of .clone()
            uses = [n for n in own_nodes(call.node) if isinstance(n, ast.Name) and n.id == mp]
            ok = bool(uses) and all(
                isinstance(getattr(u, "_parent", None), ast.Attribute) and u._parent.attr == "clone"
                and isinstance(getattr(u._parent, "_parent", None), ast.Call) for u in uses)
            ctx.check("R1", f"{c.name}.call: model parameter only cloned", ok, call, call.node,
                      "a functional pass touches its input model other than by cloning it",
                      how="every occurrence of the parameter is `<model>.clone()`")
        else:
            ctx.ob("R1", f"{c.name}.call: in_place decided at run time (pass combinator)", True, nontrivial=False)


# ------------------------------------------------------------------------------------ R2
# callees that build new IR objects from non-IR input or by copying: their writes through
# unknown roots ('*') are to objects they created themselves (reviewed); writes through their
# parameters still count
CONSTRUCTORS = (
    "onnx_ir.serde:deserialize_", "onnx_ir.serde:_deserialize_", "onnx_ir.serde:from_proto", "onnx_ir._convenience._constructors:",
    "onnx_ir._cloner:Cloner.clone_", "onnx_ir._cloner:Cloner.__init__", "onnx_ir._convenience:create_value_mapping",
    "onnx_ir.serde:serialize_", "onnx_ir.serde:_serialize_", "onnx_ir.serde:to_proto",
)
PROTOCOL = "onnx_ir.passes.common._c_api_utils:call_onnx_api"


class FlagCtx:
    def __init__(self, ctx, ef: Effects, c: ClassInfo | None):
        self.ctx = ctx
        self.ef = ef
        self.cls = c
        self.alias_fields = self._alias_fields(c) if c is not None else set()
        self._has: dict = {}

    def _alias_fields(self, c: ClassInfo) -> set[str]:
        """Fields of the pass object bound to model state (self._opset_imports = model.opset_imports)."""
        out = set()
        for f in c.methods.values():
            params = set(f.params[1:])
            for w in field_writes(f):
                if w.kind == "store" and norm(w.recv) == "self":
                    root = w.stmt.value
                    if not isinstance(root, (ast.Attribute, ast.Name)):
                        continue
                    while isinstance(root, ast.Attribute):
                        root = root.value
                    if isinstance(root, ast.Name) and root.id in params:
                        out.add(w.field)
        return out

    def is_model_write(self, e, model_tags: set[str]) -> bool:
        flds = {x for x in e.fields if x.split("[")[0].split(".")[0] not in ("meta", "_metadata")}
        if not flds:
            return False
        if e.callee is not None:
            k = e.callee.key
            if k == PROTOCOL:
                return False
            if k.startswith(CONSTRUCTORS) and not (e.tags & (model_tags - {"*"})):
                return False
        for t in e.tags:
            if t == "self":
                # through an alias field of the pass object: only element writes, not rebinding the field
                if any(("[" in x or "." in x) and x.split("[")[0].split(".")[0] in self.alias_fields for x in flds):
                    return True
            elif t in model_tags:
                return True
        return False

    def model_writes(self, f: FuncInfo, model_tags: set[str], _depth=0):
        cfg, per = self.ef.events(f)
        out = {}
        for nid, evs in per.items():
            ms = []
            for e in evs:
                if e.kind != "M" or not self.is_model_write(e, model_tags):
                    continue
                g = e.callee
                if g is not None and g.module.name.startswith("onnx_ir.passes") and g.key != PROTOCOL and _depth < 6 \
                        and not isinstance(g.node, ast.Lambda):
                    node = cfg.nodes[nid]
                    site = node.ast if node.kind == "stmt" else node.exprs()[0]
                    tags = _callee_model_tags(self, f, site, g, model_tags)
                    memo = (g.key, frozenset(tags))
                    if memo not in self._has:
                        self._has[memo] = False  # recursion guard
                        self._has[memo] = bool(self.model_writes(g, tags, _depth + 1)[1])
                    if not self._has[memo]:
                        continue
                ms.append(e)
            if ms:
                out[nid] = ms
        return cfg, out


def _returns(f: FuncInfo):
    return [n for n in own_nodes(f.node) if isinstance(n, ast.Return)]


def _returns_result(f: FuncInfo) -> bool:
    return any(isinstance(r.value, ast.Call) and _result_ctor(r.value) for r in _returns(f))


def _returns_flag(f: FuncInfo) -> bool:
    if isinstance(f.node, ast.Lambda):
        return False
    ann = norm(f.node.returns) if f.node.returns is not None else ""
    if ann in ("bool", "int") or (ann.startswith("tuple[") and ann.rstrip("]").endswith(("int", "bool"))):
        return True
    return any(isinstance(r.value, ast.Constant) and isinstance(r.value.value, bool) for r in _returns(f))


def _flag_vars(f: FuncInfo) -> set[str]:
    """Names that flow into the function's returned flag (or into a flag of the enclosing function declared nonlocal)."""
    names: set[str] = set(_nonlocal_flags(f))
    if not (_returns_flag(f) or _returns_result(f)) and not names:
        return set()
    for r in (_returns(f) if (_returns_flag(f) or _returns_result(f)) else []):
        v = r.value
        if v is None:
            continue
        if isinstance(v, ast.Call) and _result_ctor(v):
            e = _flag_expr(v)
            if e is not None:
                names |= {x.id for x in ast.walk(e) if isinstance(x, ast.Name)}
        elif isinstance(v, ast.Tuple):
            names |= {x.id for x in ast.walk(v.elts[-1]) if isinstance(x, ast.Name)}
        elif not isinstance(v, ast.Call) or dotted_of(v.func) in ("bool", "int", "len"):
            names |= {x.id for x in ast.walk(v) if isinstance(x, ast.Name)}
    names -= {"bool", "int", "len", "True", "False", "self", "model"}
    for _ in range(4):
        for n in own_nodes(f.node):
            if isinstance(n, ast.If) and isinstance(n.test, ast.Name) and any(_is_flag_set(x, names) for x in n.body[:2]):
                # `if step: flag = True` folds `step` into the flag (what `if helper(...): flag = True` reads as once the
                # helper's result is bound to a local)
                names.add(n.test.id)
                continue
            if isinstance(n, ast.Assign) and any(isinstance(t, ast.Name) and t.id in names for t in n.targets):
                if isinstance(n.value, ast.Name):
                    # plain copy `flag = other` (what is left of `flag = helper(...)` once the helper is expanded)
                    names.add(n.value.id)
                    continue
            if isinstance(n, ast.Assign) and len(n.targets) == 1 and isinstance(n.targets[0], ast.Tuple) and isinstance(n.value, ast.Tuple) \
                    and len(n.targets[0].elts) == len(n.value.elts):
                # `count, flag = c, m` (tuple-returning helper expanded): element-wise copies
                for t, v in zip(n.targets[0].elts, n.value.elts):
                    if isinstance(t, ast.Name) and t.id in names and isinstance(v, ast.Name):
                        names.add(v.id)
                continue
            if isinstance(n, ast.Assign) and any(isinstance(t, ast.Name) and t.id in names for t in n.targets):
                if False:
                    pass
                elif isinstance(n.value, ast.Call) and dotted_of(n.value.func) in ("bool", "int", "len"):
                    names |= {x.id for x in ast.walk(n.value) if isinstance(x, ast.Name)} - {"bool", "int", "len"}
                # monotone combinations: flag = flag or other / flag | other / flag + other
                elif (isinstance(n.value, ast.BoolOp) and isinstance(n.value.op, ast.Or)) or (
                        isinstance(n.value, ast.BinOp) and isinstance(n.value.op, (ast.BitOr, ast.Add))):
                    ops = n.value.values if isinstance(n.value, ast.BoolOp) else [n.value.left, n.value.right]
                    names |= {x.id for x in ops if isinstance(x, ast.Name)} - {"True", "False"}
    return names


def _is_flag_set(n: ast.AST, flags: set[str]) -> bool:
    """Unconditional truthy set of a flag variable."""
    if isinstance(n, ast.Assign):
        if any(isinstance(t, ast.Name) and t.id in flags for t in n.targets):
            v = n.value
            return isinstance(v, ast.Constant) and bool(v.value)
    if isinstance(n, ast.AugAssign) and isinstance(n.target, ast.Name) and n.target.id in flags:
        if isinstance(n.op, ast.Add):
            return isinstance(n.value, ast.Constant) and isinstance(n.value.value, int) and n.value.value > 0
    if isinstance(n, ast.Return):
        v = n.value
        return isinstance(v, ast.Constant) and v.value is True
    return False


def _nonlocal_flags(f: FuncInfo) -> set[str]:
    out = set()
    for n in own_nodes(f.node):
        if isinstance(n, ast.Nonlocal):
            out |= set(n.names)
    return out


def _callee_model_tags(fx: FlagCtx, f: FuncInfo, site, g: FuncInfo, model_tags: set[str]) -> set[str]:
    """Which root tags of callee g denote model state, given the call site in f."""
    out = {"*"}
    call = site if isinstance(site, ast.Call) else None
    if call is None:
        for x in ast.walk(site):
            if isinstance(x, ast.Call):
                tg, _ = fx.ef._call_targets(f, x)
                if any(t is g or t.key == g.key for t in tg):
                    call = x
                    break
    if call is None:
        return {"*"} | {f"p{i}" for i in range(len(g.params))}
    off = 1 if (g.cls is not None and g.kind != "staticmethod" and isinstance(call.func, ast.Attribute)) else 0
    if g.parent is not None:
        off = 0
    for i, pname in enumerate(g.params):
        if off and i == 0:
            recv = call.func.value
            t = fx.ef.root_tag(f, recv)
            if t is not None and t in model_tags:
                out.add("self")
            continue
        ai = i - off
        arg = call.args[ai] if 0 <= ai < len(call.args) else next((k.value for k in call.keywords if k.arg == pname), None)
        if arg is None:
            continue
        if isinstance(arg, ast.Starred):
            arg = arg.value
        if isinstance(arg, (ast.Name, ast.Attribute, ast.Subscript, ast.Call)):
            t = fx.ef.root_tag(f, arg)
            if t is not None and t in model_tags:
                out.add(f"p{i}")
    return out


def check_function(fx: FlagCtx, f: FuncInfo, seen: set, label: str, model_tags: set[str]):
    """Flag soundness obligations of one function reachable from a pass's call()."""
    ctx = fx.ctx
    memo = (f.key, frozenset(model_tags))
    if memo in seen:
        return
    seen.add(memo)
    cfg, writes = fx.model_writes(f, model_tags)
    own_flags = _flag_vars(f)
    flags = own_flags | _nonlocal_flags(f)
    tnodes = {n.id for n in cfg.nodes if n.kind == "stmt" and _is_flag_set(n.ast, flags)}
    # a helper that answers with literals (`return True` / `return False`) is a flag function too: a write on a path that
    # ends in `return False` tells the caller "nothing changed"
    literal_flag = _returns_flag(f) and any(isinstance(r.value, ast.Constant) and isinstance(r.value.value, bool) for r in _returns(f))
    is_flag_fn = bool(flags) or literal_flag
    for nid, ms in sorted(writes.items()):
        node = cfg.nodes[nid]
        st = node.ast
        expr0 = st if node.kind == "stmt" else node.exprs()[0]
        callees = [e.callee for e in ms if e.callee is not None]
        direct = [e for e in ms if e.callee is None]
        in_pass = lambda g: g.module.name.startswith("onnx_ir.passes") and not isinstance(g.node, ast.Lambda)  # noqa: E731
        for g in {id(x): x for x in callees}.values():
            if in_pass(g) and g.key != PROTOCOL:
                check_function(fx, g, seen, label, _callee_model_tags(fx, f, expr0, g, model_tags))
        inst = f"{label}: {f.local}: {short(expr0)[:80]}"
        construct = short(expr0)
        # the idiom table is keyed by the alpha-stable text of the statement (locals → <Class> / $rank)
        from ..canon import Canon

        ckey = Canon(ctx.typer, f).cn(expr0)
        idiom = _idiom(f.local, ckey)
        ctx.tables.setdefault("idiom keys seen", []).append(f"{f.local} :: {ckey}") if idiom else None
        if idiom:
            ctx.ob("R2", inst, True, how=f"idiom table: {idiom}")
            continue
        if not is_flag_fn:
            ctx.ob("R2", inst, True, nontrivial=False, how="helper returns no flag; its call is a write statement of its callers (checked there)")
            continue
        helper_flags = [g for g in callees if in_pass(g) and _returns_flag(g)]
        ok, how = False, ""
        # a nested helper that declares this function's flag `nonlocal` accounts for its own writes (it is checked below, with
        # the same flags): its call needs no flag statement of its own here
        closures = [g for g in callees if g.parent is not None and (g.parent is f or g.parent is f.parent) and (_nonlocal_flags(g) & (flags | _nonlocal_flags(f)))]
        if closures and not direct and len(closures) == len(callees):
            ok, how = True, "the nested helper sets the enclosing function's flag itself (its body is checked with the same flags)"
        if not ok and helper_flags and not direct and len(helper_flags) == len(callees):
            ok, how = _folded(cfg, node, st, flags, f)
        if not ok:
            before = cfg.all_paths_through(cfg.entry, tnodes, {nid}, exc=False) if tnodes else False
            after = cfg.all_paths_through(node, tnodes, {cfg.exit.id}, exc=False) if tnodes else False
            ok = before or after or nid in tnodes
            how = "an unconditional flag set lies on every path through the write" if ok else how
        if not ok:
            ok, how = _covered_by_test(cfg, node, st, flags, f)
        ctx.check("R2", inst, ok, f, expr0,
                  f"model state is written ({'; '.join(sorted({e.desc for e in ms}))[:160]}) on a path that can return "
                  f"modified=False: no flag in {sorted(flags) or '∅'} is set on every path through it",
                  how=how or "path query", construct=construct)
    # nested callbacks of this function (enter_graph / exit_graph style) share its flags through nonlocal
    for g in f.nested.values():
        if _nonlocal_flags(g):
            check_function(fx, g, seen, label, model_tags | {f"p{i}" for i in range(len(g.params))})


def _folded(cfg: CFG, node, st, flags: set[str], f: FuncInfo):
    """The statement folds the flag-returning helper's result into a flag (or returns it)."""
    if node.kind == "stmt":
        if isinstance(st, ast.Return):
            return True, "result of the flag-returning helper is returned"
        if isinstance(st, ast.AugAssign) and isinstance(st.target, ast.Name) and st.target.id in flags:
            return True, "helper result accumulated into the flag (+=, |=)"
        if isinstance(st, ast.Assign):
            bound = {x.id for t in st.targets for x in ast.walk(t) if isinstance(x, ast.Name)}
            if bound & flags:
                return True, "helper result assigned to the flag"
            later = {n.id for n in cfg.nodes if n.kind == "stmt" and isinstance(n.ast, (ast.AugAssign, ast.Assign))
                     and _targets_flag(n.ast, flags) and any(isinstance(x, ast.Name) and x.id in bound for x in ast.walk(n.ast.value))}
            if later and cfg.all_paths_through(node, later, {cfg.exit.id}, exc=False):
                return True, "helper result bound to a local that is folded into the flag on every path"
    if node.kind == "test" and isinstance(st, ast.If):
        body_sets = any(_is_flag_set(s, flags) for s in st.body[:2])
        neg = isinstance(st.test, ast.UnaryOp) and isinstance(st.test.op, ast.Not)
        if body_sets and not neg:
            return True, "`if helper(): flag = True`"
    return False, ""


def _targets_flag(st, flags) -> bool:
    tg = st.targets if isinstance(st, ast.Assign) else [st.target]
    return any(isinstance(t, ast.Name) and t.id in flags for t in tg)


def _covered_by_test(cfg: CFG, node, st, flags: set[str], f: FuncInfo):
    """`for x in S: mutate(x)` with flag = bool(S); `if X: flag = True` … `X.clear()`."""
    p = getattr(st, "_parent", None)
    while p is not None and p is not f.node:
        if isinstance(p, (ast.For, ast.AsyncFor)):
            it = p.iter
            if isinstance(it, ast.Call) and dotted_of(it.func) in ("list", "tuple", "sorted") and it.args:
                it = it.args[0]
            name = norm(it)
            for r in _returns(f):
                v = r.value
                e = _flag_expr(v) if isinstance(v, ast.Call) and _result_ctor(v) else v
                if e is not None and norm(e) in (f"bool({name})", f"len({name}) > 0", name):
                    return True, f"loop over `{name}` and the flag is bool({name})"
            # the same with the flag assigned instead of returned (`flag = bool(S)` / `flag |= bool(S)` after the loop, which
            # is what `flag = helper(...)` reads as once the helper is expanded): the assignment lies on every path from the
            # write to the exit
            later = {n.id for n in cfg.nodes if n.kind == "stmt" and isinstance(n.ast, (ast.Assign, ast.AugAssign)) and _targets_flag(n.ast, flags)
                     and norm(n.ast.value) in (f"bool({name})", f"len({name}) > 0", name)
                     and (isinstance(n.ast, ast.Assign) or isinstance(n.ast.op, (ast.BitOr, ast.Add)))}
            if later and cfg.all_paths_through(node, later, {cfg.exit.id}, exc=False):
                return True, f"loop over `{name}` and bool({name}) is folded into the flag on every path after it"
        p = getattr(p, "_parent", None)
    recv = None
    if isinstance(st, ast.Expr) and isinstance(st.value, ast.Call) and isinstance(st.value.func, ast.Attribute):
        recv = norm(st.value.func.value)  # X.clear() after `if X: flag = True`
    elif isinstance(st, ast.Assign) and len(st.targets) == 1 and isinstance(st.targets[0], ast.Attribute) \
            and isinstance(st.value, ast.Constant) and not st.value.value:
        recv = norm(st.targets[0])  # X.f = None after `if X.f: flag = True`
    if recv:
        blk = getattr(st, "_parent", None)
        body = getattr(blk, "body", [])
        if st in body:
            for s in body[: body.index(st)]:
                if isinstance(s, ast.If) and norm(s.test) == recv and any(_is_flag_set(x, flags) for x in s.body):
                    return True, f"preceding `if {recv}: flag = True` covers the clearing of the same collection"
    return False, ""


def rule_r2(ctx, passes, ef):
    for c in passes:
        call = ctx.repo.lookup(c, "call")
        if not isinstance(call, FuncInfo) or call.cls is not c or call.module.name == "onnx_ir.passes._pass_infra":
            continue
        if _declares(ctx, c, "changes_input") is False and _declares(ctx, c, "in_place") is True:
            continue  # side-effect-only pass: R5
        fx = FlagCtx(ctx, ef, c)
        seen: set = set()
        before = len(ctx.obligations)
        check_function(fx, call, seen, c.name, {"*"} | {f"p{i}" for i in range(1, len(call.params))})
        if len(ctx.obligations) == before:
            ctx.ob("R2", f"{c.name}: call writes no model state", True, nontrivial=False)


# ------------------------------------------------------------------------------------ R3
def shortcircuit_skips(ef, f: FuncInfo):
    """[(BoolOp, call)] - a call that writes IR state sits in a non-first operand of `or` / `and`: it is not evaluated
    once the left operand decides (e.g. `modified = modified or self._fix(x)` stops fixing after the first change)."""
    out = []
    for n in own_nodes(f.node):
        if not isinstance(n, ast.BoolOp):
            continue
        for operand in n.values[1:]:
            for c in (x for x in ast.walk(operand) if isinstance(x, ast.Call)):
                try:
                    tg, _st = ef._call_targets(f, c)
                except Exception:
                    tg = []
                if any(ef.summary(g).mods for g in tg):
                    out.append((n, c))
    return out


def rule_r3(ctx, passes, ef):
    funcs: dict[str, FuncInfo] = {}
    for c in passes:
        for f in c.methods.values():
            funcs[f.key] = f
    for m in ctx.repo.pkg_modules():
        if m.name.startswith("onnx_ir.passes.common"):
            for f in m.all_funcs:
                funcs.setdefault(f.key, f)
    n_bool = 0
    for f in funcs.values():
        if isinstance(f.node, ast.Lambda):
            continue
        n_bool += sum(1 for n in own_nodes(f.node) if isinstance(n, ast.BoolOp))
        for bo, c in shortcircuit_skips(ef, f):
            ctx.check("R3", f"{f.local}: {norm(bo)[:70]} evaluates its mutating operand unconditionally", False, f, bo,
                      f"`{norm(c)[:80]}` changes the model but is a later operand of `{'or' if isinstance(bo.op, ast.Or) else 'and'}`: once the left operand "
                      "decides, the call is skipped - the remaining graphs/functions are not processed although the pass reports success",
                      how="operands of and/or after the first contain no call whose effect summary writes IR state",
                      construct=f"short-circuit skips {norm(c)[:60]}")
    ctx.ob("R3", f"{n_bool} boolean expressions in pass code: no mutating call in a short-circuited operand", True, nontrivial=False,
           how="effect summaries of calls in later operands of and/or")
    for f in funcs.values():
        if isinstance(f.node, ast.Lambda):
            continue
        flags = _flag_vars(f) | _nonlocal_flags(f)
        if not flags:
            continue
        if not _nonlocal_flags(f) and not _returns_result(f) and not _writes_ir(ef, f):
            # a function that changes nothing (directly or through its callees) reports no modification: an integer it
            # computes in a loop is a measurement (a length, an index), not an accumulated flag
            ctx.ob("R3", f"{f.local}: computes a number, writes no IR state", True, nontrivial=False,
                   how="effect summary of the function is free of IR writes")
            continue
        for n in own_nodes(f.node):
            tgt = None
            if isinstance(n, ast.Assign) and len(n.targets) == 1 and isinstance(n.targets[0], ast.Name):
                tgt, val = n.targets[0].id, n.value
            elif isinstance(n, ast.AugAssign) and isinstance(n.target, ast.Name):
                tgt, val = n.target.id, None
            if tgt not in flags:
                continue
            in_loop = any(isinstance(a, (ast.For, ast.While)) for a in _anc(n, f.node))
            if not in_loop:
                continue
            if isinstance(n, ast.AugAssign):
                ok = isinstance(n.op, (ast.Add, ast.BitOr))
            else:
                ok = (isinstance(val, ast.Constant) and val.value is True) or (
                    isinstance(val, ast.BoolOp) and isinstance(val.op, ast.Or) and any(isinstance(x, ast.Name) and x.id == tgt for x in val.values)
                ) or (isinstance(val, ast.BinOp) and isinstance(val.op, (ast.BitOr, ast.Add)) and any(
                    isinstance(x, ast.Name) and x.id == tgt for x in (val.left, val.right)))
                if not ok and isinstance(val, (ast.Call, ast.Attribute)):
                    # a per-iteration local (re-initialised each iteration) is not an accumulator
                    ok = _per_iteration_local(n, tgt, f)
                if not ok:
                    # a variable that only lives inside the loop body (never bound or read outside the loop) carries nothing
                    # from one iteration to the next: it is the flag of one iteration (e.g. the expanded body of a
                    # flag-returning helper), folded into the accumulator by another statement
                    ok = _lives_inside_loop(n, tgt, f)
            ctx.check("R3", f"{f.local}: {norm(n)[:70]}", ok, f, n,
                      f"inside a loop the flag `{tgt}` is overwritten by a value that can be false: an earlier "
                      "modification is forgotten and the pass can report modified=False after changing the model",
                      how="assignment form is monotone (True / x or flag / |= / +=)")


def _writes_ir(ef, f) -> bool:
    try:
        s = ef.summary(f)
    except KeyError:
        return True
    return bool(s.mods or s.qmods)


def _per_iteration_local(n, tgt, f) -> bool:
    """`modified = step_result.modified` followed by `overall = overall or modified` in the same loop body."""
    loop = next((a for a in _anc(n, f.node) if isinstance(a, (ast.For, ast.While))), None)
    if loop is None:
        return False
    for s in ast.walk(loop):
        if isinstance(s, ast.Assign) and isinstance(s.value, ast.BoolOp) and isinstance(s.value.op, ast.Or):
            names = [x.id for x in s.value.values if isinstance(x, ast.Name)]
            if tgt in names and any(isinstance(t, ast.Name) and t.id in names and t.id != tgt for t in s.targets):
                return True
    return False


def _lives_inside_loop(n, tgt, f) -> bool:
    """tgt never carries a value from one iteration to the next or out of a loop: wherever it is read, the read sits in a loop
    body (the innermost loop around an assignment of tgt) in which tgt is definitely assigned before it is read."""
    if tgt in f.params:
        return False
    for x in ast.walk(f.node):
        if isinstance(x, (ast.Nonlocal, ast.Global)) and tgt in x.names:
            return False
    occ = [x for x in ast.walk(f.node) if isinstance(x, ast.Name) and x.id == tgt]
    loops = []
    for x in occ:
        lp = next((a for a in _anc(x, f.node) if isinstance(a, (ast.For, ast.While))), None)
        if lp is None:
            return False  # bound or read outside every loop
        if isinstance(lp, ast.For) and any(x is y for y in ast.walk(lp.target)):
            return False
        if not any(lp is q for q in loops):
            loops.append(lp)
    return all(_assigned_before_read(lp.body, tgt, False)[1] for lp in loops)


def _assigned_before_read(stmts, name: str, assigned: bool):
    """(definitely assigned after stmts, no read of `name` before a definite assignment) - structural definite-assignment
    analysis: both branches of an if must assign, loop bodies and try blocks may be skipped."""
    ok = True

    def reads(node):
        return any(isinstance(x, ast.Name) and x.id == name and isinstance(x.ctx, ast.Load) for x in ast.walk(node))

    def stores(node):
        return any(isinstance(x, ast.Name) and x.id == name and not isinstance(x.ctx, ast.Load) for x in ast.walk(node))

    for s in stmts:
        if isinstance(s, ast.If):
            if not assigned and reads(s.test):
                ok = False
            a1, ok1 = _assigned_before_read(s.body, name, assigned)
            a2, ok2 = _assigned_before_read(s.orelse, name, assigned)
            ok = ok and ok1 and ok2
            assigned = assigned or (a1 and a2)
        elif isinstance(s, (ast.For, ast.While, ast.With, ast.Try, ast.Match, ast.AsyncFor, ast.AsyncWith)):
            if not assigned and reads(s):
                # a nested block that both binds and reads the name: analyse its body on its own
                inner_ok = True
                for fld in ("body", "orelse", "finalbody"):
                    blk = getattr(s, fld, None)
                    if isinstance(blk, list) and blk and isinstance(blk[0], ast.stmt):
                        inner_ok = inner_ok and _assigned_before_read(blk, name, assigned)[1]
                for h in getattr(s, "handlers", []):
                    inner_ok = inner_ok and _assigned_before_read(h.body, name, assigned)[1]
                if isinstance(s, (ast.For, ast.While)) and reads(s.iter if isinstance(s, ast.For) else s.test):
                    inner_ok = False
                ok = ok and inner_ok
            if isinstance(s, ast.With):
                a, _ = _assigned_before_read(s.body, name, assigned)
                assigned = assigned or a
            elif isinstance(s, ast.Try) and not assigned:
                # assigned after the try when the normal path (else block, or the body if nothing can follow an exception in
                # it) and every handler assign it
                a_else, _ = _assigned_before_read(list(s.orelse), name, False)
                a_body, _ = _assigned_before_read(list(s.body), name, False)
                a_fin, _ = _assigned_before_read(list(s.finalbody), name, False)
                handlers_ok = all(_assigned_before_read(h.body, name, False)[0] or (h.body and isinstance(h.body[-1], (ast.Raise, ast.Return, ast.Continue, ast.Break)))
                                  for h in s.handlers)
                assigned = a_fin or ((a_else or a_body) and handlers_ok)
        else:
            if not assigned and isinstance(s, (ast.Assign, ast.AnnAssign)) and s.value is not None and reads(s.value):
                ok = False
            elif not assigned and not isinstance(s, (ast.Assign, ast.AnnAssign)) and reads(s):
                ok = False
            if isinstance(s, (ast.Assign, ast.AnnAssign)) and stores(s) and getattr(s, "value", None) is not None:
                assigned = True
    return assigned, ok


def _anc(node, stop):
    p = getattr(node, "_parent", None)
    while p is not None and p is not stop:
        yield p
        p = getattr(p, "_parent", None)


# ------------------------------------------------------------------------------------ R4
def _syntactic_writes(ef, f: FuncInfo, stmt) -> bool:
    """The statement itself (not a callee) stores into / calls a container mutator on non-fresh state."""
    from ..facts import CONTAINER_MUTATORS
    for n in ast.walk(stmt):
        if isinstance(n, (ast.Assign, ast.AugAssign)):
            tg = n.targets if isinstance(n, ast.Assign) else [n.target]
            for t in tg:
                if isinstance(t, (ast.Attribute, ast.Subscript)) and ef.root_tag(f, t.value) is not None:
                    return True
        if isinstance(n, ast.Call) and isinstance(n.func, ast.Attribute) and n.func.attr in CONTAINER_MUTATORS:
            if ef.root_tag(f, n.func.value) is not None:
                return True
    return False


def protocol_functions(ctx):
    """The function that performs the temporary mutation: call_onnx_api itself, or a @contextmanager helper it enters
    with a `with` statement (the helper's try around its `yield` is then the protecting try). Returns (f, try|None)."""
    repo = ctx.repo
    f = repo.func(PROTOCOL)
    trys = [n for n in f.node.body if isinstance(n, ast.Try) and n.finalbody]
    if trys:
        return f, trys[0]
    for w in (n for n in own_nodes(f.node) if isinstance(n, ast.With)):
        for item in w.items:
            c = item.context_expr
            if isinstance(c, ast.Call):
                g = f.module.functions.get(dotted_of(c.func) or "")
                if g is not None and any((dotted_of(d) or "").endswith("contextmanager") for d in g.node.decorator_list):
                    ts = [n for n in g.node.body if isinstance(n, ast.Try) and n.finalbody
                          and any(isinstance(y, (ast.Yield, ast.YieldFrom)) for s_ in n.body for y in ast.walk(s_))]
                    return g, (ts[0] if ts else None)
    return f, None


def rule_r4(ctx, ef):
    f, tr = protocol_functions(ctx)
    if tr is None:
        ctx.check("R4", "P0: the temporary mutation is undone in a finally", False, f, f.node,
                  f"{f.local} mutates the model temporarily but the code that undoes it is not in a `finally` (no try/finally around the "
                  "ONNX call / around the `yield` of the context manager): when the call raises, the model keeps the temporary state",
                  how="protecting try/finally of call_onnx_api or of the context-manager helper it enters", construct="no protecting finally")
        return
    cfg, per = ef.events(f)
    body = f.node.body
    ti = body.index(tr)

    def nodes_of(stmt):
        ids = {id(x) for x in ast.walk(stmt)}
        return [n for n in cfg.nodes if (n.ast is not None and id(n.ast) in ids) or any(id(e) in ids for e in n.exprs())]

    def m_fields(stmt):
        out = set()
        for n in nodes_of(stmt):
            for e in per.get(n.id, ()):
                if e.kind == "M":
                    out |= {_canon(x) for x in e.fields}
        return out

    mutate_stmts = [s for s in body[:ti] if _syntactic_writes(ef, f, s)]
    ctx.require(bool(mutate_stmts), "call_onnx_api: mutate phase not recognised")
    fields_mut = set()
    for s in mutate_stmts:
        fields_mut |= m_fields(s)
    fields_res = set()
    for s in tr.finalbody:
        fields_res |= m_fields(s)
    ctx.tables["call_onnx_api_mutated"] = sorted(fields_mut)
    ctx.tables["call_onnx_api_restored"] = sorted(fields_res)
    first = body.index(mutate_stmts[0])
    last = body.index(mutate_stmts[-1])
    # P1: the snapshot locals used by the finally are bound before the first mutation
    used = {x.id for s in tr.finalbody for x in ast.walk(s) if isinstance(x, ast.Name) and isinstance(x.ctx, ast.Load)}
    bound_before = {t.id for s in body[:first] for a in ast.walk(s) if isinstance(a, ast.Assign) for t in a.targets if isinstance(t, ast.Name)}
    snap = {n for n in used & bound_before}
    bound_late = {t.id for s in body[first:ti] for a in ast.walk(s) if isinstance(a, ast.Assign) for t in a.targets if isinstance(t, ast.Name)} & used
    ok = bool(snap) and not (bound_late - {norm(x) for x in []})
    ctx.check("R4", f"P1: snapshots {sorted(snap)} are taken before the first mutation", ok and not bound_late, f, mutate_stmts[0],
              f"the finally restores from {sorted(bound_late)} which is bound only after the model has been mutated",
              how="names read by the finally are assigned before the mutate phase")
    # P2: nothing that can raise between the mutate phase and the try
    risky = []
    for s in body[last + 1 : ti]:
        for n in nodes_of(s):
            if any(e.kind == "C" for e in per.get(n.id, ())):
                risky.append(n)
    for n in risky:
        ctx.check("R4", f"P2: {short(n.ast)[:70]} cannot raise outside the protecting try", False, f, n.ast,
                  "a call that can raise sits between the temporary mutation and the try/finally that undoes it: "
                  "on failure the model keeps the temporary state (initializers removed, inputs extended, const_value=None)",
                  how="rejection events of statements between the mutate phase and the try")
    if not risky:
        ctx.ob("R4", "P2: no raising statement between the mutate phase and the try", True, how="event scan")
    # P3: every mutated field is restored
    for fld in sorted(fields_mut):
        ok = fld in fields_res
        ctx.check("R4", f"P3: mutated field `{fld}` is restored in the finally", ok, f, tr,
                  f"the temporary write to `{fld}` is never undone: the pass leaves the model changed even on success",
                  how="fields written in the mutate phase ⊆ fields written in the finally", construct=f"unrestored {fld}")
    # P4: ordered containers from which keys were removed are restored wholesale
    popped = set()
    for s in mutate_stmts:
        for c in (x for x in ast.walk(s) if isinstance(x, ast.Call)):
            if isinstance(c.func, ast.Attribute) and c.func.attr in ("pop", "remove", "popitem"):
                popped.add(norm(c.func.value))
    fin_text = " ".join(norm(s) for s in tr.finalbody)
    for cont in sorted(popped):
        whole = f"{cont}.clear()" in fin_text
        ctx.check("R4", f"P4: `{cont}` (keys removed temporarily) is rebuilt wholesale", whole, f, tr,
                  f"entries popped from the ordered container `{cont}` are re-added one by one, so the iteration "
                  "order of the container changes even when the call succeeds",
                  how="finally clears the container and re-adds the snapshot in order", construct=f"piecemeal restore of {cont}")


def _canon(fld: str) -> str:
    """Field name without the container-operation suffix."""
    return fld.replace("[]", "").split(".")[0]


def rule_r5(ctx, passes, ef):
    n = 0
    for c in passes:
        if _declares(ctx, c, "changes_input") is not False or _declares(ctx, c, "in_place") is not True:
            continue
        call = ctx.repo.lookup(c, "call")
        if not isinstance(call, FuncInfo):
            continue
        n += 1
        cfg, per = ef.events(call)
        bad = []
        for nid, evs in per.items():
            for e in evs:
                if e.kind == "M" and e.tags - {"self"}:
                    if e.callee is not None and e.callee.key == "onnx_ir.passes.common._c_api_utils:call_onnx_api":
                        continue
                    bad.append((cfg.nodes[nid], e))
        ctx.check("R5", f"{c.name}.call writes model state only through call_onnx_api", not bad, call, bad[0][0].ast if bad else call.node,
                  f"a pass declaring changes_input=False writes model state directly: {bad[0][1].desc if bad else ''}",
                  how="M events of call() other than the protocol helper")
    ctx.require(n >= 1, "no side-effect-only pass found")


def _const_ints(e):
    """Set of ints a constant tuple/list/range/slice expression ranges over, or None."""
    if isinstance(e, (ast.Tuple, ast.List)) and all(isinstance(x, ast.Constant) and isinstance(x.value, int) for x in e.elts):
        return {x.value for x in e.elts}
    if isinstance(e, ast.Call) and dotted_of(e.func) == "range" and all(isinstance(a, ast.Constant) for a in e.args) and 1 <= len(e.args) <= 2:
        a = [x.value for x in e.args]
        return set(range(*a))
    if isinstance(e, ast.Slice) and isinstance(e.lower, ast.Constant) and isinstance(e.upper, ast.Constant) and e.step is None:
        return set(range(e.lower.value, e.upper.value))
    if isinstance(e, ast.Constant) and isinstance(e.value, int):
        return {e.value}
    return None


def _has_uniqueness_loop(g, repo=None) -> bool:
    if repo is not None:
        from .c15 import uniqueness_search

        if uniqueness_search(repo, g) is not None:
            return True
    for w in own_nodes(g.node):
        if isinstance(w, ast.While) and any(isinstance(c, ast.Compare) and any(isinstance(o, ast.In) for o in c.ops) for c in ast.walk(w.test)):
            return True
    return False


def rule_r9(ctx):
    n = 0
    for m in ctx.repo.modules.values():
        if not m.name.startswith("onnx_ir.passes.common.") or m.name.endswith("_test"):
            continue
        for f in m.all_funcs:
            if isinstance(f.node, ast.Lambda):
                continue
            for a in own_nodes(f.node):
                if not (isinstance(a, ast.Assign) and len(a.targets) == 1 and isinstance(a.targets[0], ast.Attribute) and a.targets[0].attr == "name"):
                    continue
                v = a.value
                if isinstance(v, ast.Constant) or (isinstance(v, ast.Attribute) and v.attr == "name"):
                    continue  # erased, or moved from another object
                n += 1
                ok, why = False, "the assigned name is built in place"
                # resolve a local through its single definition
                if isinstance(v, ast.Name):
                    defs = [d.value for d in own_nodes(f.node) if isinstance(d, ast.Assign) and any(isinstance(t, ast.Name) and t.id == v.id for t in d.targets)]
                    loops = [w for w in own_nodes(f.node) if isinstance(w, ast.While) and any(isinstance(t, ast.Name) and t.id == v.id for x in ast.walk(w) if isinstance(x, ast.Assign) for t in x.targets)]
                    if loops and any(isinstance(c, ast.Compare) and any(isinstance(o, ast.In) for o in c.ops) for w in loops for c in ast.walk(w.test)):
                        ok = True
                    elif len(defs) == 1:
                        v = defs[0]
                if not ok and isinstance(v, ast.Call):
                    d = dotted_of(v.func) or ""
                    g = f.module.functions.get(d) or (f.owner_class.methods.get(d.split(".")[-1]) if f.owner_class is not None and d.startswith("self.") else None)
                    if g is not None and _has_uniqueness_loop(g, ctx.repo):
                        ok = True
                    else:
                        why = f"`{d}` has no `while <candidate> in <names>` loop"
                ctx.check("R9", f"{f.local}: `{short(norm(a))}` assigns a name that was made unique", ok, f, a,
                          f"`{norm(a)[:90]}`: {why} - the made-up name is not compared with the names in use, so it can equal the name of another value or node of "
                          "the graph (two values under one name: the model no longer passes the checker and consumers bind to the wrong value after a round trip)",
                          how="right-hand sides of `<x>.name = …` in the pass modules: constant / moved name / result of a function with a uniqueness loop",
                          construct=f"made-up name without uniqueness loop in {f.local}")
    ctx.require(n >= 6, f"only {n} name assignments with made-up names found in the pass modules")


def rule_r12(ctx):
    m = ctx.repo.module("onnx_ir.passes._pass_infra")
    n = 0
    for k in m.classes.values():
        f = k.methods.get("call")
        if f is None or len(f.params) < 2:
            continue
        model = f.params[1]
        for lp in (x for x in own_nodes(f.node) if isinstance(x, ast.For)):
            # the statement of the loop body in which a member runs on the model, and the name its result is bound to
            run_idx = res = None
            for idx, st in enumerate(lp.body):
                for a in ast.walk(st):
                    if isinstance(a, ast.Assign) and isinstance(a.targets[0], ast.Name) and isinstance(a.value, ast.Call) \
                            and any(isinstance(x, ast.Name) and x.id == model for x in a.value.args):
                        run_idx, res = idx, a.targets[0].id
                        break
                if run_idx is not None:
                    break
            if run_idx is None:
                continue
            n += 1
            reb = next((idx for idx, st in enumerate(lp.body) if isinstance(st, ast.Assign) and any(isinstance(t, ast.Name) and t.id == model for t in st.targets)
                        and isinstance(st.value, ast.Attribute) and norm(st.value.value) == res), None)
            bad = None
            if reb is None or reb < run_idx:
                bad = lp
            else:
                for st in lp.body[run_idx:reb]:
                    for x in ast.walk(st):
                        if isinstance(x, (ast.Break, ast.Continue, ast.Return)):
                            bad = bad or x
            ctx.check("R12", f"{f.local}: `{model} = {res}.…` follows the member call before the round can end", bad is None, f, bad if bad is not None else lp,
                      f"between the call that binds `{res}` and `{model} = {res}.model` the round can be left ({type(bad).__name__.lower() if bad is not None else ''}), or the rebinding is missing: "
                      "the composite then returns (or hands to the next round) the model it had before the member ran - for a functional member that is the input object, "
                      "not the member's result",
                      how="top-level statements of the loop body between the member call and the rebinding of the model parameter contain no break / continue / return",
                      construct=f"model not rebound before the round can end in {f.local}")
    ctx.require(n >= 2, f"only {n} looping call() methods found in the pass infrastructure")


def rule_r11(ctx, rule="R11"):
    n = 0
    for m in ctx.repo.modules.values():
        if not m.name.startswith("onnx_ir.passes.common.") or m.name.endswith("_test"):
            continue
        for f in m.all_funcs:
            if isinstance(f.node, ast.Lambda):
                continue
            for c in calls_in(f):
                # <g>.inputs.extend(<kept>) / <g>.inputs[:] = <kept> after the inputs were cleared
                if not (isinstance(c.func, ast.Attribute) and c.func.attr == "extend" and isinstance(c.func.value, ast.Attribute) and c.func.value.attr == "inputs"
                        and c.args and isinstance(c.args[0], ast.Name)):
                    continue
                g = norm(c.func.value.value)
                if not any(isinstance(x.func, ast.Attribute) and x.func.attr == "clear" and norm(x.func.value) == f"{g}.inputs" for x in calls_in(f)):
                    continue
                kept = c.args[0].id
                # the loop over <g>.inputs that fills <kept> - or the comprehension that builds it
                filters = []
                for lp in (x for x in own_nodes(f.node) if isinstance(x, ast.For) and norm(x.iter) == f"{g}.inputs" and isinstance(x.target, ast.Name)):
                    appends = [a for a in ast.walk(lp) if isinstance(a, ast.Call) and isinstance(a.func, ast.Attribute) and a.func.attr == "append"
                               and norm(a.func.value) == kept and a.args and norm(a.args[0]) == lp.target.id]
                    for a in appends:
                        tests = []
                        p_ = getattr(a, "_parent", None)
                        while p_ is not None and p_ is not lp:
                            if isinstance(p_, ast.If):
                                tests.append(p_.test)
                            p_ = getattr(p_, "_parent", None)
                        filters.append(tests)
                for d in own_nodes(f.node):
                    if isinstance(d, (ast.Assign, ast.AnnAssign)) and isinstance(d.value, ast.ListComp) and len(d.value.generators) == 1 \
                            and any(isinstance(t, ast.Name) and t.id == kept for t in (d.targets if isinstance(d, ast.Assign) else [d.target])):
                        gen = d.value.generators[0]
                        if norm(gen.iter) == f"{g}.inputs" and isinstance(gen.target, ast.Name) and norm(d.value.elt) == gen.target.id:
                            filters.append(list(gen.ifs))
                if True:
                    for tests in filters:
                        if not tests:
                            continue
                        n += 1
                        # names derived from the graph's initializers
                        # names derived from the initializers of THIS graph: the defining expression reads `<g>.initializers` and ranges over no
                        # other graph (a set collected over `model.graphs()` also holds the initializers of sibling scopes)
                        derived = {t.id for d in own_nodes(f.node) if isinstance(d, ast.Assign)
                                   and any(isinstance(y, ast.Attribute) and y.attr == "initializers" and norm(y.value) == g for y in ast.walk(d.value))
                                   and not any(isinstance(y, ast.Call) and isinstance(y.func, ast.Attribute) and y.func.attr in ("graphs", "subgraphs", "all_graphs") for y in ast.walk(d.value))
                                   for t in d.targets if isinstance(t, ast.Name)}
                        foreign = {t.id for d in own_nodes(f.node) if isinstance(d, ast.Assign) and any(isinstance(y, ast.Attribute) and y.attr == "initializers" for y in ast.walk(d.value))
                                   for t in d.targets if isinstance(t, ast.Name)} - derived
                        ok = all(any((isinstance(y, ast.Attribute) and y.attr == "initializers" and norm(y.value) == g) or (isinstance(y, ast.Name) and y.id in derived)
                                     or (isinstance(y, ast.Call) and isinstance(y.func, ast.Attribute) and y.func.attr == "is_initializer") for y in ast.walk(t)) for t in tests) \
                            and not any(isinstance(y, ast.Name) and y.id in foreign for t in tests for y in ast.walk(t))
                        ctx.check(rule, f"{f.local}: an input of `{g}` is left out only if it is one of its initializers", ok, f, tests[0],
                                  f"`{norm(tests[0])[:70]}` decides which inputs of `{g}` are dropped without asking whether the initializers of `{g}` itself define them: an input "
                                  "that merely carries data (a `const_value` set as an analysis hint), or whose name is also the name of an initializer of a sibling graph, is "
                                  "removed from the inputs although nothing else defines it - the nodes that read it dangle and the checker rejects the model",
                                  how="tests around `<kept>.append(<input>)` in the loop that rebuilds <g>.inputs mention <g>.initializers (or a set built from them) or is_initializer()",
                                  construct=f"inputs of {g} dropped by a test that does not ask the initializers")
    ctx.require(n >= 1, "no pass rebuilds graph inputs from a filtered copy (RemoveInitializersFromInputsPass expected)")


def rule_sort_snapshots(ctx):
    """Backs the IDIOMS entries of TopologicalSortPass: a flag computed by comparing node sequences before and after `<x>.sort()`
    sees what sort() changes only if the sequences cover every nesting level (sort() reorders subgraphs too)."""
    f = ctx.repo.func("onnx_ir.passes.common.topological_sort:TopologicalSortPass.call")
    n = 0
    for c in calls_in(f):
        if not (isinstance(c.func, ast.Attribute) and c.func.attr == "sort" and not c.args):
            continue
        recv = norm(c.func.value)
        # node sequences of the same receiver captured in this function: list(E) / <snap>.extend(E)
        caps = []
        for x in calls_in(f):
            if x is c:
                continue
            arg = None
            if dotted_of(x.func) in ("list", "tuple") and x.args:
                arg = x.args[0]
            elif isinstance(x.func, ast.Attribute) and x.func.attr == "extend" and x.args:
                arg = x.args[0]
            if arg is not None and any(norm(y) == recv for y in ast.walk(arg)):
                caps.append(arg)
        for arg in caps:
            n += 1
            deep = any(isinstance(y, ast.Call) and ((isinstance(y.func, ast.Attribute) and y.func.attr == "all_nodes")
                                                     or (dotted_of(y.func) or "").endswith("RecursiveGraphIterator")) for y in ast.walk(arg))
            ctx.check("R2", f"TopologicalSortPass.call: the order snapshot `{short(norm(arg))}` covers all nesting levels", deep, f, arg,
                      f"`modified` is computed from `{norm(arg)}`, the top-level nodes only, while `{recv}.sort()` also reorders nested subgraphs: a model whose only "
                      "unsorted graph is a subgraph is changed and reported as modified=False",
                      how="arguments of the before/after node snapshots around <x>.sort(): all_nodes() / RecursiveGraphIterator",
                      construct=f"shallow order snapshot {short(norm(arg))}")
    ctx.require(n >= 4, f"only {n} before/after order snapshots found in TopologicalSortPass.call")


def rule_r8(ctx):
    n = 0
    for m in ctx.repo.modules.values():
        if not m.name.startswith("onnx_ir.passes.common.") or m.name.endswith("_test"):
            continue
        for f in m.all_funcs:
            if isinstance(f.node, ast.Lambda) or f.parent is not None:
                continue
            blanks = [a for a in ast.walk(f.node) if isinstance(a, ast.Assign) and isinstance(a.value, ast.Constant) and a.value.value == ""
                      and any(isinstance(t, ast.Attribute) and t.attr == "name" for t in a.targets)]
            if not blanks:
                continue
            # use tests of the function: nested helpers that test .uses(), slices and indices under a .uses() expression
            use_helpers = {g.name for g in f.nested.values() if any(isinstance(c, ast.Call) and isinstance(c.func, ast.Attribute) and c.func.attr == "uses"
                                                                  for c in ast.walk(g.node))}
            tested: set[int] = set()
            for c in ast.walk(f.node):
                if isinstance(c, ast.Call) and isinstance(c.func, ast.Name) and c.func.id in use_helpers and c.args:
                    tested |= _const_ints(c.args[0]) or set()
            for e in ast.walk(f.node):
                if isinstance(e, (ast.GeneratorExp, ast.ListComp)) and any(isinstance(c, ast.Call) and isinstance(c.func, ast.Attribute) and c.func.attr == "uses" for c in ast.walk(e.elt)):
                    it = e.generators[0].iter
                    if isinstance(it, ast.Subscript) and isinstance(it.value, ast.Attribute) and it.value.attr == "outputs":
                        tested |= _const_ints(it.slice) or set()
                if isinstance(e, ast.Call) and isinstance(e.func, ast.Attribute) and e.func.attr == "uses" and isinstance(e.func.value, ast.Subscript) \
                        and isinstance(e.func.value.value, ast.Attribute) and e.func.value.value.attr == "outputs":
                    tested |= _const_ints(e.func.value.slice) or set()
            for a in blanks:
                t = next(t for t in a.targets if isinstance(t, ast.Attribute) and t.attr == "name")
                tgt = t.value
                n += 1
                ok, why = False, ""
                if isinstance(tgt, ast.Name):
                    # same variable tested by an enclosing condition
                    p = getattr(a, "_parent", None)
                    while p is not None and p is not f.node:
                        if isinstance(p, ast.If):
                            txt = norm(p.test)
                            member = any(isinstance(c, ast.Compare) and len(c.ops) == 1 and isinstance(c.ops[0], (ast.In, ast.NotIn)) and norm(c.left) == tgt.id
                                         and isinstance(c.comparators[0], (ast.Name, ast.Attribute, ast.Call)) for c in ast.walk(p.test))
                            if f"{tgt.id}.uses()" in txt and member:
                                ok = True
                        p = getattr(p, "_parent", None)
                    why = f"`{tgt.id}` is not under a condition testing `{tgt.id}.uses()` and its membership in the graph outputs"
                elif isinstance(tgt, ast.Subscript) and isinstance(tgt.value, ast.Attribute) and tgt.value.attr == "outputs":
                    idx = _const_ints(tgt.slice)
                    if idx is None and isinstance(tgt.slice, ast.Name):
                        lp = getattr(a, "_parent", None)
                        while lp is not None and not (isinstance(lp, ast.For) and isinstance(lp.target, ast.Name) and lp.target.id == tgt.slice.id):
                            lp = getattr(lp, "_parent", None)
                        idx = _const_ints(lp.iter) if lp is not None else None
                    ok = idx is not None and idx <= tested
                    why = f"output positions {sorted(idx) if idx is not None else '?'} are blanked but only positions {sorted(tested)} are tested for use"
                ctx.check("R8", f"{f.local}: `{norm(a)}` erases the name of a tested output only", ok, f, a,
                          f"`{norm(a)}`: {why} - an output that is still consumed (or is a graph output) loses its name, so the consumer's input and the "
                          "serialized graph output become the empty name",
                          how="outputs whose name is set to \"\" vs outputs covered by a use test (same variable, or constant index sets / slices)",
                          construct=f"untested output blanked in {f.local}")
    ctx.require(n >= 2, f"only {n} name-erasing assignments found in the pass modules")


def rule_r7(ctx):
    from ..shared import stale_snapshot_sites

    by_snap: dict = {}
    for f, a, lp, ok, detail, label in stale_snapshot_sites(ctx.repo, ctx.typer, "onnx_ir.passes"):
        cur = by_snap.setdefault((f.key, id(a)), [f, a, True, "", label])
        if not ok and cur[2]:
            cur[2], cur[3] = False, detail
    for f, a, ok, detail, label in by_snap.values():
        ctx.check("R7", f"{f.local}: {label}", ok, f, a, detail + " - decisions taken from it (rename or keep an output name, insert an Identity) damage the model",
                  how="snapshot assignments × later loops: decision reads (own and in callees receiving the snapshot) vs writes to the snapshotted "
                  "collection (own and in callees receiving its owner)", construct=label)


def rule_r13(ctx):
    n = 0
    for m in ctx.repo.pkg_modules():
        if not m.name.startswith("onnx_ir.passes") or m.name.endswith("_test"):
            continue
        for f in ctx.repo.live(m.all_funcs):
            if isinstance(f.node, ast.Lambda):
                continue
            made = {}  # local name -> statement that builds the node
            for a in own_nodes(f.node):
                if isinstance(a, ast.Assign) and len(a.targets) == 1 and isinstance(a.targets[0], ast.Name) and isinstance(a.value, ast.Call) \
                        and (dotted_of(a.value.func) or "").split(".")[-1] in ("node", "Node"):
                    made[a.targets[0].id] = a
            if not made:
                continue
            # locals bound to an output of such a node
            outs = {}
            for a in own_nodes(f.node):
                if isinstance(a, ast.Assign) and len(a.targets) == 1 and isinstance(a.targets[0], ast.Name):
                    for x in ast.walk(a.value):
                        if isinstance(x, ast.Attribute) and x.attr == "outputs" and isinstance(x.value, ast.Name) and x.value.id in made:
                            outs[a.targets[0].id] = x.value.id
            # plain aliases of either (`node = node__i1`, left behind by an expanded helper that returns several values)
            for _ in range(3):
                for a in own_nodes(f.node):
                    if isinstance(a, ast.Assign) and len(a.targets) == 1 and isinstance(a.targets[0], ast.Name) and isinstance(a.value, ast.Name):
                        if a.value.id in made and a.targets[0].id not in made:
                            made[a.targets[0].id] = made[a.value.id]
                        if a.value.id in outs and a.targets[0].id not in outs:
                            outs[a.targets[0].id] = outs[a.value.id]
            alias_of = {a.targets[0].id: a.value.id for a in own_nodes(f.node) if isinstance(a, ast.Assign) and len(a.targets) == 1 and isinstance(a.targets[0], ast.Name)
                        and isinstance(a.value, ast.Name) and a.value.id in made}
            for node_name in made:
                adds = [c for c in calls_in(f) if isinstance(c.func, ast.Attribute) and c.func.attr in ("append", "insert_before", "insert_after", "extend", "insert")
                        and not (isinstance(c.func.value, ast.Attribute) and c.func.value.attr in ("outputs", "inputs"))
                        and any(isinstance(y, ast.Name) and y.id == node_name for a_ in c.args for y in ast.walk(a_))]
                stores = []
                for st in own_nodes(f.node):
                    tgt = val = None
                    if isinstance(st, ast.Assign) and len(st.targets) == 1 and isinstance(st.targets[0], ast.Subscript) and isinstance(st.targets[0].value, ast.Attribute) \
                            and st.targets[0].value.attr == "outputs":
                        tgt, val = st.targets[0].value.value, st.value
                    elif isinstance(st, ast.Call) and isinstance(st.func, ast.Attribute) and st.func.attr in ("append", "insert", "extend") and isinstance(st.func.value, ast.Attribute) \
                            and st.func.value.attr == "outputs" and st.args:
                        tgt, val = st.func.value.value, st.args[-1]
                    if tgt is None:
                        continue
                    from_node = any((isinstance(y, ast.Name) and (outs.get(y.id) in (node_name, alias_of.get(node_name)) or alias_of.get(outs.get(y.id, "")) == node_name)) or
                                    (isinstance(y, ast.Attribute) and y.attr == "outputs" and isinstance(y.value, ast.Name) and y.value.id == node_name) for y in ast.walk(val))
                    if from_node:
                        stores.append((st, tgt))
                for st, tgt in stores:
                    for c in adds:
                        n += 1
                        same = norm(c.func.value) == norm(tgt)
                        ctx.check("R13", f"{f.local}: `{node_name}` is added to the graph whose output it becomes", same, f, c,
                                  f"`{norm(c)[:70]}` puts the new node into `{norm(c.func.value)}` while its output is stored in `{norm(tgt)}.outputs`: for a subgraph the two differ - "
                                  "the subgraph lists an output produced by a node of the enclosing graph, placed after the control-flow node that needs it (ownership and order "
                                  "broken; the modified flag is still right)",
                                  how="receiver of the call that adds a freshly built node vs receiver of the output list its output is stored in",
                                  construct=f"node for an output of {norm(tgt)} added to {norm(c.func.value)}")
    ctx.require(n >= 2, f"only {n} (new node, output slot) pairs found in the pass modules")


def run(ctx):
    ef = ctx._shared.get("effects")
    if ef is None:
        ef = ctx._shared["effects"] = Effects(ctx.repo, ctx.typer, tier4=(ctx.tier == "thorough"))
    ef.compute()
    passes = pass_classes(ctx)
    ctx.tables["pass_classes"] = [c.key for c in passes]
    rule_r11(ctx)
    rule_r12(ctx)
    rule_r13(ctx)
    from ..shared import rule_s14

    rule_s14(ctx, "R10", lambda name: name.startswith("onnx_ir.passes"), "the pass acts on (and reports about) contents the model no longer has")
    rule_r1(ctx, passes)
    rule_r2(ctx, passes, ef)
    rule_r3(ctx, passes, ef)
    rule_r4(ctx, ef)
    rule_r5(ctx, passes, ef)
    from . import c05

    c05.rule_r5(ctx, rule="R6")
    rule_r7(ctx)
    rule_r8(ctx)
    rule_r9(ctx)
    rule_sort_snapshots(ctx)
