"""C09 — concurrent external-data writing is schedule-independent, bounded and live."""

from __future__ import annotations

import ast

import networkx as nx

from ..cfg import CFG
from ..facts import calls_in, field_writes, is_self_call
from ..index import FuncInfo, dotted_of, norm, own_nodes, text

PROPERTY = "C09"
RULES = {
    "R1": "guarded-by: the byte budget's counters are read and written only inside `with self._condition` "
    "(wait_for predicates count as inside)",
    "R2": "notify: every method that writes a guarded counter, other than the waiter, calls notify_all() inside the "
    "critical section on every path; every counter write of the waiter follows a wait_for on that counter",
    "R3": "acquire/release pairing: every budget.acquire() result is released in a finally that post-dominates it",
    "R4": "per-tensor exclusion: every path from a worker entry point to a tensor evaluation holds "
    "self._tensor_write_locks[id(tensor)]",
    "R5": "callback exclusion: the user callback is only invoked under a lock in worker code, and the shard driver "
    "passes None or a lock-wrapping callback",
    "R6": "lock order: the may-hold-while-acquiring graph over the writer's locks is acyclic",
    "R7": "executor shutdown: every ThreadPoolExecutor is a context manager or is shut down with wait=True on the "
    "normal path and in a BaseException handler that re-raises",
    "R8": "once per tensor, in every writer: each strategy of the external-data writer (serial loop, worker function of the "
    "parallel writer) invokes the progress callback unconditionally in its per-tensor unit, and the units range over the whole "
    "tensor list - the loop has no skip before the invocation, the comprehension / loop that submits the worker has no filter - "
    "so a tensor the fast path considers uninteresting (zero bytes) is still reported, as the serial writer does",
    "R9": "results keep their submission order: a loop over futures in *completion* order (`as_completed(...)`, the `done` set of "
    "`wait(...)`) only waits and propagates errors - it never appends, extends or stores a future's result into a collection "
    "(the returned tensors are matched with the initializers by position, so the order of the collected results must not depend "
    "on which worker finishes first); positional results are gathered by iterating the list of futures in the order of submission",
    "R10": "the concurrent path is given what the serial path is given: where a function of the writer calls the same module function at "
    "several sites (directly or through `executor.submit(fn, …)`), an option of the enclosing function that one site forwards "
    "(`alignment=alignment`, `align_threshold=align_threshold`) is forwarded by every site - a shard written by the pool without the "
    "caller's `align_threshold` is laid out with the default, so its file and the recorded offsets differ from the serial save "
    "(one reviewed exemption: the byte limit may travel as a shared budget object built from it)",
    "R11": "the budget is kept in bytes (shared rule S19): in the external-data module no byte quantity (a recorded length or offset, `.nbytes`, "
    "the budget, a *_SIZE constant) meets an element count (`.size`, math.prod of a shape) as operands of min / max / + / - / a comparison "
    "without a product with the item size on the way - `min(tensor_length, tensor.size)` reserves a quarter of a float32 tensor's bytes, "
    "so the writers hold several times the configured budget in materialised tensors",
    "R12": "a reservation is given back as what it was: acquire() hands out one special token for the single oversized reservation and the "
    "reserved amount (which can be 0, for an empty tensor) otherwise; the tests that govern, in release(), the statement that frees the "
    "oversized slot hold for that token and for no amount >= 0 (decided by evaluating the comparisons for the token and for 0, 1 and a "
    "large amount) - `if reservation > 0: … else: <free the slot>` frees it when an empty tensor finishes while an oversized one is "
    "still being written, and a second oversized tensor is admitted",
    "R13": "a lazy tensor that does not cache keeps nothing: every store of a materialised tensor into a field of LazyTensor (outside the "
    "constructor) happens only when `self.cache` holds - under a test that requires it, or after the guard clause `if not self.cache: "
    "return …`; stored unconditionally, each tensor the writer evaluates stays alive inside its LazyTensor after its reservation was "
    "released, so the process ends up holding the sum of all lazy initializers instead of the budget plus the largest tensor, although "
    "the budget protocol itself is followed to the letter",
    "R14": "what a worker holds for an external tensor is what it reserved (rule shared with C04-R20): every read of the copy loop of "
    "`ExternalTensor.tofile` is bounded by the chunk constant that `_reservation_bytes` names - a chunk scaled by the element size makes "
    "a float64 worker hold eight times its reservation, and the workers together exceed the budget plus the largest single tensor",
}
FLOORS = {"R1": 6, "R2": 3, "R3": 1, "R4": 2, "R5": 3, "R6": 1, "R7": 2, "R8": 3, "R9": 2, "R10": 6, "R11": 10, "R12": 1, "R13": 1, "R14": 1}
EXPLANATION = (
    "Lock-set analysis over the external-data writer: which fields are touched under which `with`, pairing of "
    "acquire/release through try/finally, lock context of every call path from submitted functions to tensor "
    "evaluation and to the user callback, a lock-order graph, executor shutdown structure."
)
NOT_DECIDED = (
    "byte-identity with the serial path, termination / absence of lost wake-ups under all interleavings, the numeric "
    "budget bound (need a model checker over schedules — a different technique family)"
)
ASSUMPTIONS = ["threading.Lock/Condition and ThreadPoolExecutor behave as documented", "user callbacks take no library lock"]

ED = "onnx_ir.external_data"
GUARDED = ("_in_flight", "_oversized_active")


def _with_ctx(node: ast.AST, stop) -> list[str]:
    """Texts of the context expressions of the `with` statements lexically enclosing node (inside `stop`)."""
    out = []
    p = getattr(node, "_parent", None)
    while p is not None and p is not stop:
        if isinstance(p, (ast.With, ast.AsyncWith)):
            out += [norm(i.context_expr) for i in p.items]
        p = getattr(p, "_parent", None)
    return out


_LOCK_NAMES: set[str] = set()
_LOCK_CTORS = ("threading.Lock", "threading.RLock", "threading.Condition", "threading.Semaphore", "threading.BoundedSemaphore")


def _collect_lock_names(ctx) -> None:
    """Names that denote locks by construction: bound to threading.Lock()/RLock()/Condition() (or to a container of
    them) anywhere in the module, or parameters annotated with a threading lock type.  Recognising a lock by what it
    is bound to - not by how the variable is spelled - keeps the rules valid when a local is renamed."""
    _LOCK_NAMES.clear()
    mod = ctx.repo.module(ED)

    def makes_lock(e) -> bool:
        return any(isinstance(x, ast.Call) and dotted_of(x.func) in _LOCK_CTORS for x in ast.walk(e))

    for f in mod.all_funcs:
        for n in own_nodes(f.node):
            if isinstance(n, (ast.Assign, ast.AnnAssign)) and getattr(n, "value", None) is not None and makes_lock(n.value):
                for t in n.targets if isinstance(n, ast.Assign) else [n.target]:
                    _LOCK_NAMES.add(norm(t))
            elif isinstance(n, (ast.Assign, ast.AnnAssign)) and getattr(n, "value", None) is not None:
                # aliases: self._x = <lock parameter / lock name>
                v = norm(n.value)
                if v in _LOCK_NAMES:
                    for t in n.targets if isinstance(n, ast.Assign) else [n.target]:
                        _LOCK_NAMES.add(norm(t))
        a = f.node.args if not isinstance(f.node, ast.Lambda) else None
        if a is not None:
            for p_ in a.posonlyargs + a.args + a.kwonlyargs:
                if p_.annotation is not None and "threading.Lock" in norm(p_.annotation):
                    _LOCK_NAMES.add(p_.arg)
    # second pass for aliases of parameters (self._tensor_write_locks = tensor_write_locks)
    for f in mod.all_funcs:
        for n in own_nodes(f.node):
            if isinstance(n, (ast.Assign, ast.AnnAssign)) and getattr(n, "value", None) is not None and norm(n.value) in _LOCK_NAMES:
                for t in n.targets if isinstance(n, ast.Assign) else [n.target]:
                    _LOCK_NAMES.add(norm(t))


def _lockish(t: str) -> bool:
    base = t.split("[")[0]
    return base in _LOCK_NAMES or base.endswith(("_lock", "_locks", "_condition", "Lock()"))


def _held_helpers(bb) -> dict:
    """Private methods of the budget class that only ever run with the condition held: every mention of `self.<m>` in the class -
    a call, or the method handed to wait_for as its predicate - sits lexically under `with self._condition` (a lambda counts at its
    creation site), or inside another such helper. name -> FuncInfo."""
    cand = {n: f for n, f in bb.methods.items() if n.startswith("_") and not n.startswith("__")}
    mentions: dict[str, list] = {n: [] for n in cand}
    for f in bb.methods.values():
        for g in [f] + f.lambdas + list(f.nested.values()):
            for x in own_nodes(g.node):
                if isinstance(x, ast.Attribute) and x.attr in cand and norm(x.value) == "self":
                    held = _with_ctx(x if g is f else g.node, f.node)
                    mentions[x.attr].append((f.name, "self._condition" in held))
    held_set: set[str] = set()
    for _ in range(3):
        for n, ms in mentions.items():
            if ms and all(ok or host in held_set for host, ok in ms):
                held_set.add(n)
    return {n: cand[n] for n in held_set}


def rule_r1_r2(ctx):
    bb = ctx.repo.cls(f"{ED}:_ByteBudget")
    n_acc = 0
    helpers = _held_helpers(bb)
    live = {g.key for g in ctx.repo.live(bb.methods.values())}
    for f in bb.methods.values():
        if f.name == "__init__" or f.key not in live:
            continue  # (a private helper all of whose calls were expanded is examined inside its callers)
        if f.name in helpers:
            # runs with the condition held wherever it is used (checked at its mentions); its accesses count as guarded
            for n in own_nodes(f.node):
                if isinstance(n, ast.Attribute) and n.attr in GUARDED and norm(n.value) == "self":
                    n_acc += 1
                    ctx.ob("R1", f"{f.local}: {'write' if isinstance(n.ctx, ast.Store) else 'read'} of self.{n.attr} in a helper that is only used with the condition held", True,
                           how="every mention of the helper is under `with self._condition`")
            continue
        # include lambdas nested in the method
        scopes = [f] + f.lambdas + list(f.nested.values())
        for g in scopes:
            for n in own_nodes(g.node):
                if isinstance(n, ast.Attribute) and n.attr in GUARDED and norm(n.value) == "self":
                    n_acc += 1
                    anchor = g.node if g is not f else n
                    held = _with_ctx(n if g is f else g.node, f.node)
                    ok = "self._condition" in held
                    ctx.check("R1", f"{f.local}: {'write' if isinstance(n.ctx, ast.Store) else 'read'} of self.{n.attr}", ok, f, n,
                              f"self.{n.attr} is accessed outside `with self._condition`: a data race on the budget counters",
                              how="lexically enclosing with-statements (lambda → its creation site)")
    ctx.require(n_acc >= 6, "budget counter accesses not recognised")
    for f in bb.methods.values():
        if f.name == "__init__":
            continue
        writes = [w for w in field_writes(f) if w.field in GUARDED and norm(w.recv) == "self"]
        if not writes:
            continue
        waits = [c for c in calls_in(f) if isinstance(c.func, ast.Attribute) and c.func.attr in ("wait_for", "wait")]
        cfg = CFG(f.node)
        if waits:
            # the waiter: each write follows a wait_for whose predicate reads the same counter
            for w in writes:
                wn = cfg.node_of(w.stmt)[0]
                ok = False
                for c in waits:
                    pred = c.args[0] if c.args else None
                    mentions = pred is not None and any(isinstance(x, ast.Attribute) and x.attr == w.field for x in ast.walk(pred))
                    if pred is not None and not mentions:
                        # a predicate that is (or calls) a method of the class reads what that method reads
                        for x in ast.walk(pred):
                            if isinstance(x, ast.Attribute) and norm(x.value) == "self" and x.attr in bb.methods:
                                mentions = mentions or any(isinstance(y, ast.Attribute) and y.attr == w.field for y in ast.walk(bb.methods[x.attr].node))
                    cn = cfg.nodes_containing(c)[0]
                    if mentions and cfg.dominates(cn, wn):
                        ok = True
                ctx.check("R2", f"{f.local}: {norm(w.stmt)} follows a wait_for on {w.field}", ok, f, w.stmt,
                          "the reservation is taken without waiting for the condition on that counter (budget can be exceeded)",
                          how="wait_for(predicate mentioning the counter) dominates the write")
        else:
            notes = [c for c in calls_in(f) if isinstance(c.func, ast.Attribute) and c.func.attr in ("notify_all",)]
            ok = bool(notes)
            if ok:
                nn = {cfg.nodes_containing(c)[0].id for c in notes}
                for w in writes:
                    wn = cfg.node_of(w.stmt)[0]
                    ok = ok and cfg.all_paths_through(wn, nn, {cfg.exit.id}, exc=False)
                ok = ok and all("self._condition" in _with_ctx(c, f.node) for c in notes)
            ctx.check("R2", f"{f.local}: notify_all() after every counter write, inside the critical section", ok, f, f.node,
                      "a counter is changed without waking the waiters on every path: a blocked acquire() can sleep forever",
                      how="every path write → exit passes notify_all(); notify is under the condition")


def rule_budget_passed(ctx):
    """Every tensor write of the writer is accounted against the budget it was configured with: the budget argument of
    self._write_tensor(...) is self._budget, a freshly built _ByteBudget, or a choice between those - never a value that a
    local condition can turn into None (which would exempt some tensors from the in-flight bound)."""
    wc = ctx.repo.cls(f"{ED}:_ExternalDataWriter")
    wt = wc.methods.get("_write_tensor")
    ctx.require(wt is not None and "budget" in wt.params, "_ExternalDataWriter._write_tensor(budget) not found")
    bi = wt.params.index("budget") - 1
    n = 0
    for f in list(wc.methods.values()) + [g for m in wc.methods.values() for g in m.nested.values()]:
        host = f if f.parent is None else f.parent
        for c in calls_in(f):
            if not is_self_call(c, "_write_tensor"):
                continue
            arg = c.args[bi] if bi < len(c.args) else next((k.value for k in c.keywords if k.arg == "budget"), None)
            n += 1

            def alternatives(e, depth=0):
                if isinstance(e, ast.IfExp):
                    return alternatives(e.body, depth) + alternatives(e.orelse, depth)
                if isinstance(e, ast.BoolOp):
                    return [x for v in e.values for x in alternatives(v, depth)]
                if isinstance(e, ast.Name) and depth < 3:
                    defs = [a.value for scope in (f, host) for a in own_nodes(scope.node) if isinstance(a, ast.Assign)
                            and any(isinstance(t, ast.Name) and t.id == e.id for t in a.targets)]
                    return [x for d in defs for x in alternatives(d, depth + 1)] if defs else [e]
                return [e]

            alts = alternatives(arg) if arg is not None else []
            bad = [a for a in alts if isinstance(a, ast.Constant) and a.value is None]
            ctx.check("R2", f"{f.local}: _write_tensor(… budget={norm(arg) if arg is not None else '?'}) always carries the configured budget", bool(alts) and not bad, f, c,
                      f"the budget handed to the tensor write can be None by a local decision (`{norm(arg) if arg is not None else ''}`): those tensors are "
                      "materialised outside the shared in-flight bound, so several workers can hold more bytes than budget + largest tensor",
                      how="alternatives of the budget argument through locals: self._budget / _ByteBudget(...) only, no literal None",
                      construct="budget argument can be None")
    ctx.require(n >= 2, "_write_tensor call sites not found")


def rule_r3(ctx):
    repo = ctx.repo
    n = 0
    for f in repo.module(ED).all_funcs:
        for a in own_nodes(f.node):
            if not (isinstance(a, ast.Assign) and isinstance(a.value, ast.Call) and isinstance(a.value.func, ast.Attribute)
                    and a.value.func.attr == "acquire" and "budget" in norm(a.value.func.value).lower()):
                continue
            n += 1
            var = norm(a.targets[0])
            if f.name == "__enter__" and f.cls is not None and isinstance(a.targets[0], ast.Attribute):
                # a reservation held by a context manager object: __exit__ gives back exactly what __enter__ stored, unconditionally,
                # and the class is only ever used as the context expression of a `with`
                ex = f.cls.methods.get("__exit__")
                rel = [c for c in calls_in(ex) if isinstance(c.func, ast.Attribute) and c.func.attr == "release"
                       and norm(c.func.value) == norm(a.value.func.value).replace(f.params[0], ex.params[0], 1)
                       and [norm(x) for x in c.args] == [var.replace(f.params[0], ex.params[0], 1)]] if ex is not None else []
                top = bool(rel) and isinstance(getattr(rel[0], "_parent", None), ast.Expr) and getattr(rel[0]._parent, "_parent", None) is ex.node \
                    and not any(isinstance(x, (ast.Return, ast.Raise)) for x in own_nodes(ex.node))
                uses = [c for g in repo.module(ED).all_funcs if not isinstance(g.node, ast.Lambda) for c in calls_in(g) if (dotted_of(c.func) or "") == f.cls.name]
                in_with = bool(uses) and all(isinstance(getattr(c, "_parent", None), ast.withitem) for c in uses)
                ctx.check("R3", f"{f.local}: the reservation taken on entry is released by __exit__ of every `with {f.cls.name}(…)`", top and in_with, f, a,
                          "the reservation can leak (__exit__ does not release what __enter__ stored on every path, or the object is used outside a `with`): the budget "
                          "never returns to zero and later writers block forever",
                          how="acquire in __enter__ ↔ unconditional release(<stored token>) in __exit__; every construction is a with-item")
                continue
            blk = getattr(a, "_parent", None)
            body = next((b for b in (getattr(blk, fld, None) for fld in ("body", "orelse", "finalbody")) if isinstance(b, list) and a in b), [])
            i = body.index(a) if a in body else -1
            nxt = body[i + 1] if 0 <= i < len(body) - 1 else None
            ok = isinstance(nxt, ast.Try) and any(
                isinstance(c, ast.Call) and isinstance(c.func, ast.Attribute) and c.func.attr == "release"
                and norm(c.func.value) == norm(a.value.func.value) and [norm(x) for x in c.args] == [var]
                for s in nxt.finalbody for c in ast.walk(s))
            ctx.check("R3", f"{f.local}: {norm(a)} released in the finally of the next statement", ok, f, a,
                      "the reservation can leak (an exception between acquire and release, or no finally): the budget "
                      "never returns to zero and later writers block forever",
                      how="acquire immediately followed by try/finally releasing the same token")
    ctx.require(n >= 1, "no budget.acquire() site found")


def _evaluators(ctx):
    """Module functions that evaluate a tensor's content (tofile/tobytes/numpy on a parameter)."""
    out = []
    for f in ctx.repo.module(ED).all_funcs:
        for c in calls_in(f):
            if isinstance(c.func, ast.Attribute) and c.func.attr in ("tofile", "tobytes", "numpy") and isinstance(c.func.value, ast.Name) \
                    and c.func.value.id in f.params:
                out.append(f)
                break
    return out


def _submitted(ctx):
    """Functions handed to executor.submit in the module."""
    out = []
    for f in ctx.repo.module(ED).all_funcs:
        for c in calls_in(f):
            if isinstance(c.func, ast.Attribute) and c.func.attr == "submit" and c.args:
                tg = ctx.typer.type_of(f, c.args[0])
                for a in tg:
                    if a[0] in ("func", "bound"):
                        out.append((a[1], f, c))
    return out


def rule_r4(ctx):
    repo, ty = ctx.repo, ctx.typer
    mod = repo.module(ED)
    evals = [f for f in _evaluators(ctx) if f.name.startswith("_write")]
    ctx.require(bool(evals), "tensor evaluation function (_write_tensor_at) not recognised")
    # callers graph inside the module
    callers: dict[str, list[tuple[FuncInfo, ast.Call]]] = {}
    for f in mod.all_funcs:
        for c in calls_in(f):
            tg, _ = ty.callees(f, c)
            for g in tg:
                callers.setdefault(g.key, []).append((f, c))
    sub = {g.key for g, _, _ in _submitted(ctx)}
    ctx.require(bool(sub), "no executor.submit target found")

    def protected(f: FuncInfo, call: ast.Call, depth=0) -> tuple[bool, str]:
        held = _with_ctx(call, None)
        if any("_tensor_write_locks[id(" in h for h in held):
            return True, f"{f.local} holds the tensor lock"
        if depth > 6:
            return False, "call chain too deep"
        ups = callers.get(f.key, [])
        if not ups:
            return False, f"{f.local} has no caller holding the lock"
        for g, c in ups:
            ok, why = protected(g, c, depth + 1)
            if not ok:
                return False, why
        return True, "all callers hold the tensor lock"

    for e in evals:
        ups = callers.get(e.key, [])
        ctx.require(bool(ups), f"{e.local}: no call site found")
        for g, c in ups:
            if repo.transparent_callers(g) is not None:
                # a private helper that only exists as a part of its callers (sa/inline.py): the same call is examined there
                continue
            ok, why = protected(g, c)
            ctx.check("R4", f"{g.local} → {e.name}(…): tensor lock held on every call path", ok, g, c,
                      f"a tensor can be evaluated without self._tensor_write_locks[id(tensor)] ({why}): the same tensor "
                      "object shared by two initializers is materialised by two workers at once",
                      how="call-graph walk upward until a `with self._tensor_write_locks[id(tensor)]` encloses the call")
    # the lock is keyed by the tensor that is written: inside every `with <locks>[id(X)]` each call that evaluates a tensor
    # (an evaluator, or a function handing one of its parameters to an evaluator) is given X as that tensor
    pos: dict[str, int] = {}
    for e in _evaluators(ctx):
        for c in calls_in(e):
            if isinstance(c.func, ast.Attribute) and c.func.attr in ("tofile", "tobytes", "numpy") and isinstance(c.func.value, ast.Name) \
                    and c.func.value.id in e.params:
                pos.setdefault(e.key, e.params.index(c.func.value.id))
    for _ in range(4):
        for f in mod.all_funcs:
            if f.key in pos:
                continue
            for c in calls_in(f):
                tg, _st = ty.callees(f, c)
                for g in tg:
                    if g.key in pos:
                        a = _arg_at(c, g, pos[g.key])
                        if isinstance(a, ast.Name) and a.id in f.params:
                            pos.setdefault(f.key, f.params.index(a.id))
    n_with = n_inner = 0
    for f in mod.all_funcs:
        for wn in (n for n in own_nodes(f.node) if isinstance(n, ast.With)):
            key = None
            for it in wn.items:
                t = norm(it.context_expr)
                if "_tensor_write_locks[id(" in t and t.endswith(")]"):
                    key = t[t.index("[id(") + 4:-2]
            if key is None:
                continue
            n_with += 1
            bad = None
            for c in (c for st in wn.body for c in ast.walk(st) if isinstance(c, ast.Call)):
                tg, _st = ty.callees(f, c)
                for g in tg:
                    if g.key in pos:
                        n_inner += 1
                        a = _arg_at(c, g, pos[g.key])
                        if a is None or norm(a) != key:
                            bad = c
            ctx.check("R4", f"{f.local}: the lock taken on id({key}) covers writes of {key} only", bad is None, f, bad if bad is not None else wn,
                      "the per-tensor lock is keyed by something other than the written tensor",
                      how="lock key id(X) ↔ tensor argument of every evaluating call inside the with block")
    ctx.require(n_with >= 1 and n_inner >= 1, "no `with <tensor locks>[id(tensor)]` block around an evaluating call found")


def _arg_at(call: ast.Call, g: FuncInfo, index: int):
    """The argument expression bound to parameter `index` of g at this call (bound methods: self is implicit)."""
    params = g.params
    name = params[index] if index < len(params) else None
    for kw in call.keywords:
        if kw.arg == name:
            return kw.value
    shift = 1 if (g.cls is not None and g.kind == "method" and isinstance(call.func, ast.Attribute)) else 0
    i = index - shift
    if 0 <= i < len(call.args) and not any(isinstance(a, ast.Starred) for a in call.args[: i + 1]):
        return call.args[i]
    return None


def rule_r5(ctx):
    repo = ctx.repo
    mod = repo.module(ED)
    n = 0
    for g, host, sc in _submitted(ctx):
        # worker code = the submitted function and functions nested with it
        if g.module is not mod:
            continue
        for c in calls_in(g):
            t = norm(c.func)
            if t in ("self._invoke_callback", "self._callback", "callback"):
                n += 1
                held = _with_ctx(c, None)
                ok = any(_lockish(h) for h in held)
                ctx.check("R5", f"{g.local}: {t}(…) under a lock", ok, g, c,
                          "the progress callback is invoked from worker threads without a lock: two threads can be in "
                          "the user's callback at once",
                          how="lexically enclosing `with <lock>`")
        # submit site passes callback=None or a lock-wrapping callback
        for k in sc.keywords:
            if k.arg == "callback":
                n += 1
                v = k.value
                alts = [v.body, v.orelse] if isinstance(v, ast.IfExp) else [v]
                ok = True
                for a in alts:
                    if isinstance(a, ast.Constant) and a.value is None:
                        continue
                    wrap = None
                    if isinstance(a, ast.Call) and isinstance(a.func, ast.Name) and a.func.id in host.nested:
                        wrap = host.nested[a.func.id]
                    elif isinstance(a, ast.Call):
                        # a factory defined elsewhere in the module (the lock is then one of its arguments)
                        tg, _st = ctx.typer.callees(host, a)
                        if len(tg) == 1 and tg[0].module is mod:
                            wrap = tg[0]
                    if wrap is not None:
                        inner = list(wrap.nested.values())
                        good = False
                        for w in inner:
                            for c in calls_in(w):
                                if isinstance(c.func, ast.Name) and c.func.id in wrap.params and any(_lockish(h) for h in _with_ctx(c, None)):
                                    good = True
                        rets = [r for r in own_nodes(wrap.node) if isinstance(r, ast.Return)]
                        good = good and all(isinstance(r.value, ast.Name) and r.value.id in wrap.nested for r in rets)
                        ok = ok and good
                    else:
                        ok = False
                ctx.check("R5", f"{host.local}: submit(… callback={norm(v)[:50]})", ok, host, sc,
                          "shard writers running in parallel receive the raw user callback: callbacks from different "
                          "shards can overlap",
                          how="callback argument is None or a wrapper whose inner function calls the callback under a lock")
    ctx.require(n >= 2, "callback invocation sites in worker code not recognised")
    # the serial writer (which may run inside a shard thread) only ever calls self._callback through _invoke_callback
    wc = repo.cls(f"{ED}:_ExternalDataWriter")
    direct = [(f, c) for f in wc.methods.values() for c in calls_in(f) if norm(c.func) == "self._callback" and f.name != "_invoke_callback"]
    ctx.check("R5", "self._callback is only called by _invoke_callback", not direct, wc, wc.node,
              "the user callback is invoked from a second place that the locking does not cover", how="call sites of self._callback")


# What a callback slot may be bound to inside the module (data flow at the shard submit site:
# callback=_locked_callback(job_callback), job_callback=_make_shard_callback(user_callback, …)).
# The user's own callback is outside the analysis (assumption: it takes no library lock).
_SLOT_TARGETS = {
    "self._callback": ("_wrapped", "_shard_callback"),  # writer constructed with the (wrapped) job callback
    "inner": ("_shard_callback",),  # _locked_callback wraps the per-shard callback
    "callback": (),  # inside _shard_callback / _make_shard_callback: the user's callback
}


def _slot_keys(mod, call) -> set[str]:
    names = _SLOT_TARGETS.get(norm(call.func))
    if not names:
        return set()
    return {g.key for g in mod.all_funcs if g.name in names}


def _locks_in(f: FuncInfo):
    """[(lock id, With node)] for with-statements on lock-like expressions in f."""
    out = []
    for n in own_nodes(f.node):
        if isinstance(n, (ast.With, ast.AsyncWith)):
            for it in n.items:
                t = norm(it.context_expr)
                if _lockish(t):
                    out.append((_lock_id(f, t), n))
    return out


def _lock_id(f: FuncInfo, t: str) -> str:
    base = t.split("[")[0]
    if base.startswith("self."):
        return f"{f.owner_class.name if f.owner_class else '?'}.{base[5:]}"
    # closure variable: owned by the outermost enclosing function that assigns it
    g, owner = f, f
    while g is not None:
        if any(isinstance(n, ast.Assign) and norm(n.targets[0]) == base for n in own_nodes(g.node)):
            owner = g
        g = g.parent
    return f"{owner.local}.{base}"


def rule_r6(ctx):
    repo, ty = ctx.repo, ctx.typer
    mod = repo.module(ED)
    # summary: locks a function may acquire (directly or through callees in the module)
    direct = {f.key: {l for l, _ in _locks_in(f)} for f in mod.all_funcs}
    # _ByteBudget methods acquire the condition
    callees: dict[str, set[str]] = {}
    for f in mod.all_funcs:
        cs = set()
        for c in calls_in(f):
            tg, _ = ty.callees(f, c)
            cs |= {g.key for g in tg if g.module is mod}
            cs |= _slot_keys(mod, c)
        callees[f.key] = cs
    acq = {k: set(v) for k, v in direct.items()}
    changed = True
    while changed:
        changed = False
        for k in acq:
            for c in callees.get(k, ()):
                new = acq.get(c, set()) - acq[k]
                if new:
                    acq[k] |= new
                    changed = True
    g = nx.DiGraph()
    for f in mod.all_funcs:
        for lid, w in _locks_in(f):
            g.add_node(lid)
            for n in ast.walk(w):
                if n is w:
                    continue
                if isinstance(n, (ast.With, ast.AsyncWith)):
                    for it in n.items:
                        t = norm(it.context_expr)
                        if _lockish(t):
                            g.add_edge(lid, _lock_id(f, t))
                if isinstance(n, ast.Call):
                    tg, _ = ty.callees(f, n)
                    keys = {x.key for x in tg if x.module is mod}
                    keys |= _slot_keys(mod, n)
                    for k in keys:
                        for l2 in acq.get(k, ()):
                            if l2 != lid or True:
                                g.add_edge(lid, l2)
    ctx.tables["lock_order_edges"] = sorted(f"{a} -> {b}" for a, b in g.edges)
    ctx.require(g.number_of_nodes() >= 4, "fewer than 4 locks recognised in the writer")
    cycles = [c for c in nx.simple_cycles(g)]
    ctx.check("R6", f"lock graph over {sorted(g.nodes)} is acyclic", not cycles, mod, mod.tree,
              f"lock-order cycle {cycles[:2]}: two workers can deadlock", how="may-hold-while-acquiring edges from with-nesting "
              "and call-graph summaries; cycle search", symbol=f"{ED}:lock-order", construct=f"cycles {cycles[:2]}")


def rule_r7(ctx):
    mod = ctx.repo.module(ED)
    n = 0
    for f in mod.all_funcs:
        for c in calls_in(f):
            if not (dotted_of(c.func) or "").endswith("ThreadPoolExecutor"):
                continue
            n += 1
            p = getattr(c, "_parent", None)
            if isinstance(p, ast.withitem):
                ctx.ob("R7", f"{f.local}: executor used as a context manager", True, how="with-statement")
                continue
            var = norm(p.targets[0]) if isinstance(p, ast.Assign) else None
            ok = False
            if var:
                trys = [t for t in own_nodes(f.node) if isinstance(t, ast.Try)]
                for t in trys:
                    def shut(stmts):
                        for s in stmts:
                            for x in ast.walk(s):
                                if isinstance(x, ast.Call) and norm(x.func) == f"{var}.shutdown":
                                    w = next((k.value for k in x.keywords if k.arg == "wait"), None)
                                    if w is None or (isinstance(w, ast.Constant) and w.value is True):
                                        return True
                        return False
                    h_ok = any(
                        (h.type is None or dotted_of(h.type) == "BaseException") and shut(h.body)
                        and isinstance(h.body[-1], ast.Raise) and h.body[-1].exc is None for h in t.handlers)
                    n_ok = shut(t.orelse) or shut(t.finalbody)
                    # the executor is created immediately before the try (nothing can raise in between)
                    blk = getattr(p, "_parent", None)
                    nxt = blk.body[blk.body.index(p) + 1] if hasattr(blk, "body") and p in blk.body and blk.body.index(p) + 1 < len(blk.body) else None
                    # … or the try that follows begins with it (an outer try/finally that only adds further cleanup)
                    while isinstance(nxt, (ast.Try, ast.With)) and nxt is not t and nxt.body and isinstance(nxt.body[0], (ast.Try, ast.With)):
                        nxt = nxt.body[0]  # an outer try/finally or `with <resources>:` that only adds further cleanup
                    adj = nxt is t
                    if (h_ok and n_ok or shut(t.finalbody)) and adj:
                        ok = True
            ctx.check("R7", f"{f.local}: {var} shut down with wait=True on normal and exceptional exits", ok, f, c,
                      "worker threads can outlive the call (or an exception reaches the caller while workers still run)",
                      how="try immediately after creation: BaseException handler shuts down and re-raises; else/finally shuts down")
    ctx.require(n >= 2, "ThreadPoolExecutor sites not found")


def rule_r8(ctx):
    m = ctx.repo.module(ED)
    sites = [(f, c) for f in m.all_funcs if not isinstance(f.node, ast.Lambda) for c in calls_in(f)
             if isinstance(c.func, ast.Attribute) and c.func.attr == "_invoke_callback"]
    ctx.require(len(sites) >= 2, "callback invocations of the external-data writers not found")
    for f, c in sites:
        if f.parent is None and ctx.repo.transparent_callers(f) is not None:
            continue  # a private helper that exists only as a part of its callers: the invocation is examined inside each of them (E1b)
        cfg = CFG(f.node)
        if f.parent is not None:
            # worker function: the invocation lies on every path through it …
            cn = cfg.nodes_containing(c)
            ok = bool(cn) and cfg.all_paths_through(cfg.entry, {cn[0].id}, {cfg.exit.id}, exc=False)
            ctx.check("R8", f"{f.local}: the callback is invoked on every path through the per-tensor worker", ok, f, c,
                      "the worker returns on some path without invoking the progress callback: that tensor is never reported",
                      how="must-pass-through query on the worker's CFG")
            # … and the worker is submitted for every tensor
            parent = f.parent
            subs = [x for x in calls_in(parent) if isinstance(x.func, ast.Attribute) and x.func.attr in ("submit", "map") and x.args
                    and isinstance(x.args[0], ast.Name) and x.args[0].id == f.name]
            ctx.require(bool(subs), f"{parent.local}: submission of {f.name} not found")
            for sc in subs:
                flt, rng = None, None
                p_ = getattr(sc, "_parent", None)
                while p_ is not None and p_ is not parent.node:
                    if isinstance(p_, (ast.ListComp, ast.GeneratorExp, ast.SetComp)):
                        rng = rng or p_.generators[0].iter
                        if any(g.ifs for g in p_.generators):
                            flt = p_
                    elif isinstance(p_, ast.For):
                        rng = rng or p_.iter
                        if any(isinstance(x, (ast.Continue, ast.Break)) for x in ast.walk(p_)):
                            flt = p_
                    elif isinstance(p_, ast.If):
                        flt = p_
                    p_ = getattr(p_, "_parent", None)
                if sc.func.attr == "map" and len(sc.args) > 1:
                    rng = sc.args[1]
                # what the range is taken from, through locals bound once (`count = len(self._tensors)` … `range(count)`)
                exprs, seen_n = [rng] if rng is not None else [], set()
                for e in list(exprs):
                    for x in ast.walk(e):
                        if isinstance(x, ast.Name) and x.id not in seen_n:
                            seen_n.add(x.id)
                            bs = [a.value for a in own_nodes(parent.node) if isinstance(a, (ast.Assign, ast.AnnAssign)) and getattr(a, "value", None) is not None
                                  and any(isinstance(t, ast.Name) and t.id == x.id for t in (a.targets if isinstance(a, ast.Assign) else [a.target]))]
                            if len(bs) == 1:
                                exprs.append(bs[0])
                whole = any(isinstance(x, ast.Attribute) and x.attr in ("_tensors", "_external_data_infos") for e in exprs for x in ast.walk(e))
                ctx.check("R8", f"{parent.local}: {f.name} is submitted for every tensor", flt is None and whole, parent, flt if flt is not None else sc,
                          f"the worker that invokes the callback is submitted only for some tensors (`{norm(flt)[:90] if flt is not None else norm(sc)}`): "
                          "the progress callback is not called for the others, although the serial writer calls it for every tensor",
                          how="the submitting comprehension / loop has no filter and ranges over the writer's tensor list",
                          construct="worker submitted for a filtered tensor list")
        else:
            loops = [a for a in _anc_nodes(c, f.node) if isinstance(a, (ast.For, ast.While))]
            ok = bool(loops)
            if ok:
                lp = loops[0]
                st = c
                while getattr(st, "_parent", None) is not lp and getattr(st, "_parent", None) is not None:
                    st = st._parent
                direct = st in lp.body
                before = lp.body[: lp.body.index(st)] if direct else []
                skip = any(isinstance(x, (ast.Continue, ast.Break, ast.Return)) for b in before for x in ast.walk(b))
                whole = any(isinstance(x, ast.Attribute) and x.attr in ("_tensors", "_external_data_infos") for x in ast.walk(lp.iter))
                # the statement is the call itself, or `with <guard>:` blocks (a lock, a null context) around it - nothing conditional
                plain = isinstance(st, ast.Expr)
                if isinstance(st, ast.With):
                    q, plain = getattr(c, "_parent", None), True
                    while q is not None and q is not st:
                        if not isinstance(q, (ast.Expr, ast.With)) or (isinstance(q, ast.With) and c not in [y for b_ in q.body[:1] for y in ast.walk(b_)] and q is not st):
                            plain = plain and isinstance(q, (ast.Expr, ast.With))
                        q = getattr(q, "_parent", None)
                ok = direct and plain and not skip and whole
            ctx.check("R8", f"{f.local}: the callback is invoked for every tensor of the loop", ok, f, c,
                      "the per-tensor loop can skip the progress callback (a condition, `continue` or a partial range before it)",
                      how="the invocation is an unconditional statement of a loop over the writer's tensor list, nothing skips before it")


def _anc_nodes(node, stop):
    p = getattr(node, "_parent", None)
    while p is not None and p is not stop:
        yield p
        p = getattr(p, "_parent", None)


def rule_r9(ctx):
    mod = ctx.repo.module(ED)
    n = 0
    for f in mod.all_funcs:
        if isinstance(f.node, ast.Lambda):
            continue
        for lp in (x for x in own_nodes(f.node) if isinstance(x, ast.For)):
            it = lp.iter
            futures_like = any(isinstance(x, ast.Call) and isinstance(x.func, ast.Attribute) and x.func.attr == "result" and isinstance(x.func.value, ast.Name)
                               and isinstance(lp.target, ast.Name) and x.func.value.id == lp.target.id for st in lp.body for x in ast.walk(st))
            if not futures_like:
                continue
            n += 1
            unordered = any(isinstance(x, ast.Call) and (dotted_of(x.func) or "").split(".")[-1] in ("as_completed", "wait") for x in ast.walk(it)) or \
                (isinstance(it, ast.Name) and any(isinstance(a, ast.Assign) and isinstance(a.value, ast.Call) and (dotted_of(a.value.func) or "").split(".")[-1] in ("as_completed", "wait")
                                                  and any(isinstance(t, ast.Name) and t.id == it.id for tt in a.targets for t in ast.walk(tt)) for a in own_nodes(f.node)))
            uses = [x for st in lp.body for x in ast.walk(st) if isinstance(x, ast.Call) and isinstance(x.func, ast.Attribute) and x.func.attr == "result"
                    and isinstance(x.func.value, ast.Name) and x.func.value.id == lp.target.id and not isinstance(getattr(x, "_parent", None), ast.Expr)]
            ok = not (unordered and uses)
            ctx.check("R9", f"{f.local}: results of `{norm(it)[:50]}` are gathered in submission order", ok, f, uses[0] if uses and not ok else lp,
                      f"the loop takes the futures in completion order (`{norm(it)[:60]}`) and uses what they return (`{norm(getattr(uses[0], '_parent', uses[0]))[:60] if uses else ''}`): "
                      "the collected results are ordered by which worker finished first, while the caller matches them with the initializers by position - a later shard "
                      "that finishes early gives initializers the location, offset and length of another tensor",
                      how="loops over futures that read .result(): completion-ordered iteration (as_completed / wait) only in loops that discard the result",
                      construct=f"result used in completion order in {f.local}")
    ctx.require(n >= 2, f"only {n} loops over futures found in the external-data writer")


# option -> keyword that may stand in for it at a sibling site, with the reason
_FORWARD_SUBSTITUTES = {"max_in_flight_bytes": ("_budget", "the shard driver builds one shared _ByteBudget from the limit and hands that to every shard")}


def rule_r10(ctx):
    import collections

    mod = ctx.repo.module(ED)
    n = 0
    for f in mod.all_funcs:
        if isinstance(f.node, ast.Lambda):
            continue
        sites = collections.defaultdict(list)
        for c in calls_in(f):
            d = dotted_of(c.func) or ""
            callee = (dotted_of(c.args[0]) or "") if d.endswith(".submit") and c.args else d
            g = mod.functions.get(callee.split(".")[-1]) if callee else None
            if g is not None:
                sites[g.name].append((c, {k.arg: k.value for k in c.keywords if k.arg}))
        for name, calls in sites.items():
            if len(calls) < 2:
                continue
            forwarded = {k for _c, kws in calls for k, v in kws.items() if isinstance(v, ast.Name) and v.id == k and k in f.params}
            for opt in sorted(forwarded):
                for c, kws in calls:
                    n += 1
                    sub = _FORWARD_SUBSTITUTES.get(opt)
                    ok = opt in kws or (sub is not None and sub[0] in kws)
                    ctx.check("R10", f"{f.local}: every call of {name} is given `{opt}`", ok, f, c,
                              f"one call of {name} in {f.local} forwards the caller's `{opt}` and this one (`{norm(c)[:50]}…`) does not: the work done through this site uses the "
                              f"default of `{opt}` - for the layout options the files written by the thread pool differ from those of the serial save",
                              how="keywords that forward a parameter of the enclosing function, compared across all call sites of one callee (executor.submit included)",
                              construct=f"{name} called without {opt}")
    ctx.require(n >= 6, f"only {n} forwarded options at sibling call sites found in the external-data writer")


def _cmp_eval(t, env):
    """Value of a test built from comparisons of names in env with constants (None when something else occurs)."""
    import operator as _op

    def val(e):
        if isinstance(e, ast.Constant) and isinstance(e.value, (int, float)):
            return e.value
        if isinstance(e, ast.UnaryOp) and isinstance(e.op, ast.USub):
            v = val(e.operand)
            return None if v is None else -v
        if isinstance(e, ast.Name) and e.id in env:
            return env[e.id]
        return None

    if isinstance(t, ast.UnaryOp) and isinstance(t.op, ast.Not):
        v = _cmp_eval(t.operand, env)
        return None if v is None else not v
    if isinstance(t, ast.BoolOp):
        vs = [_cmp_eval(v, env) for v in t.values]
        if any(v is None for v in vs):
            return None
        return all(vs) if isinstance(t.op, ast.And) else any(vs)
    if isinstance(t, ast.Compare) and len(t.ops) == 1:
        a, b = val(t.left), val(t.comparators[0])
        ops = {ast.Eq: _op.eq, ast.NotEq: _op.ne, ast.Lt: _op.lt, ast.LtE: _op.le, ast.Gt: _op.gt, ast.GtE: _op.ge, ast.Is: _op.eq, ast.IsNot: _op.ne}
        if a is None or b is None or type(t.ops[0]) not in ops:
            return None
        return ops[type(t.ops[0])](a, b)
    return None


def rule_r12(ctx):
    bb = ctx.repo.cls(f"{ED}:_ByteBudget")
    acq, rel = bb.methods.get("acquire"), bb.methods.get("release")
    ctx.require(acq is not None and rel is not None and len(rel.params) >= 2, "_ByteBudget.acquire / release not found")
    # the flag of the oversized slot: the field acquire sets to True
    flags = [w for w in field_writes(acq) if norm(w.recv) == "self" and isinstance(getattr(w.stmt, "value", None), ast.Constant) and w.stmt.value.value is True]
    ctx.require(len(flags) == 1, "acquire: the flag of the oversized slot was not found")
    flag = flags[0].field
    # the token handed out with it: the constant returned in the block that sets the flag
    blk = getattr(flags[0].stmt, "_parent", None)
    tokens = [r.value for r in ast.walk(blk) if isinstance(r, ast.Return) and r.value is not None] if blk is not None else []
    consts = {}  # module-level integer constants (the token may have a name)
    for nm, ex in acq.module.assigns.items():
        v = ex.operand.value * -1 if isinstance(ex, ast.UnaryOp) and isinstance(ex.op, ast.USub) and isinstance(ex.operand, ast.Constant) and isinstance(ex.operand.value, int) \
            else ex.value if isinstance(ex, ast.Constant) and isinstance(ex.value, int) and not isinstance(ex.value, bool) else None
        if v is not None:
            consts[nm] = v
    tok = None
    for t in tokens:
        v = t.operand.value * -1 if isinstance(t, ast.UnaryOp) and isinstance(t.op, ast.USub) and isinstance(t.operand, ast.Constant) else t.value if isinstance(t, ast.Constant) else \
            consts.get(t.id) if isinstance(t, ast.Name) else None
        if isinstance(v, int):
            tok = v
    if tok is None:
        ctx.ob("R12", "the token of the oversized reservation is not an integer constant: the rule does not apply to this encoding", True, nontrivial=False)
        return
    param = rel.params[1]
    frees = [w for w in field_writes(rel) if norm(w.recv) == "self" and w.field == flag and isinstance(getattr(w.stmt, "value", None), ast.Constant) and w.stmt.value.value is False]
    ctx.require(len(frees) >= 1, "release: the statement that frees the oversized slot was not found")
    for w in frees:
        gov = []
        child, par = w.stmt, getattr(w.stmt, "_parent", None)
        while par is not None and par is not rel.node:
            if isinstance(par, ast.If):
                gov.append((par.test, child in par.body))
            child, par = par, getattr(par, "_parent", None)

        def reached(value):
            out = True
            for t, positive in gov:
                v = _cmp_eval(t, {param: value, **consts})
                if v is None:
                    return None
                out = out and (v if positive else not v)
            return out

        samples = {tok: True, 0: False, 1: False, 1 << 40: False}
        res = {k: reached(k) for k in samples}
        undecided = any(v is None for v in res.values())
        ok = undecided or all(res[k] == want for k, want in samples.items())
        wrong = [k for k, want in samples.items() if res[k] is not None and res[k] != want]
        ctx.check("R12", f"release: the oversized slot is freed for the token {tok} and for no amount", ok, rel, w.stmt,
                  f"`{norm(w.stmt)}` is reached for reservation = {wrong} (expected: only for {tok}, the token acquire() returns with the oversized slot): an amount of 0 - "
                  "the reservation of an empty tensor - frees the slot while an oversized tensor is still in flight, so a second oversized tensor starts and the "
                  "materialised bytes exceed the budget plus the largest tensor",
                  how="tests governing the freeing statement evaluated for the oversized token and for the amounts 0, 1, 2**40 (comparisons with constants only)",
                  construct="oversized slot freed for a plain amount")


def rule_r11(ctx):
    from ..shared import unit_mismatches

    n = 0
    for f in ctx.repo.live(ctx.repo.module("onnx_ir.external_data").all_funcs):
        if isinstance(f.node, ast.Lambda):
            continue
        hits = unit_mismatches(f)
        n += f._s19_examined
        for node, b, e in hits:
            ctx.check("R11", f"{f.local}: `{norm(node)[:60]}` combines quantities of one unit", False, f, node,
                      f"`{norm(b)}` counts bytes and `{norm(e)}` counts elements, and `{norm(node)[:70]}` combines them as they are: for every element type wider "
                      "than one byte the result is too small, so the byte budget admits several times the configured amount of materialised tensor data "
                      "(and tensors larger than the budget are no longer serialised through the single oversized slot)",
                      how="S19: unit of each operand of min / max / + / - / comparisons (bytes: .nbytes, lengths, offsets, budgets, *_SIZE; elements: .size, math.prod)",
                      construct=f"bytes combined with an element count in {f.local}")
    for _ in range(n):
        ctx.counts["R11"] = ctx.counts.get("R11", 0) + 1
    ctx.ob("R11", f"{n} expressions with a byte or element quantity examined in the external-data module", True, nontrivial=False, how="S19")
    ctx.require(n >= 10, f"only {n} expressions with a unit found in the external-data module")


def rule_r13(ctx):
    k = ctx.repo.cls("onnx_ir._core:LazyTensor")
    n = 0

    def requires_cache(t, me, positive=True):
        """The test can hold only when <me>.cache is true (positive), resp. only when it is false."""
        if isinstance(t, ast.Attribute) and norm(t) == f"{me}.cache":
            return positive
        if isinstance(t, ast.UnaryOp) and isinstance(t.op, ast.Not):
            return requires_cache(t.operand, me, not positive)
        if isinstance(t, ast.BoolOp):
            if isinstance(t.op, ast.And) == positive:
                return any(requires_cache(v, me, positive) for v in t.values)
            return all(requires_cache(v, me, positive) for v in t.values)
        return False

    for f in k.methods.values():
        if isinstance(f.node, ast.Lambda) or f.name == "__init__" or not f.params:
            continue
        me = f.params[0]
        for a in own_nodes(f.node):
            if not (isinstance(a, ast.Assign) and any(isinstance(t, ast.Attribute) and norm(t.value) == me for t in a.targets)):
                continue
            if isinstance(a.value, ast.Constant):
                continue  # clearing the field
            n += 1
            ok = False
            child, par = a, getattr(a, "_parent", None)
            while par is not None:
                for fld in ("body", "orelse"):
                    blk = getattr(par, fld, None)
                    if isinstance(blk, list) and child in blk:
                        if isinstance(par, ast.If) and requires_cache(par.test, me, fld == "body"):
                            ok = True
                        for prev in blk[: blk.index(child)]:
                            if isinstance(prev, ast.If) and prev.body and isinstance(prev.body[-1], (ast.Return, ast.Raise)) and not prev.orelse \
                                    and requires_cache(ast.UnaryOp(op=ast.Not(), operand=prev.test), me, True):
                                ok = True
                if par is f.node:
                    break
                child, par = par, getattr(par, "_parent", None)
            ctx.check("R13", f"{f.local}: `{norm(a)[:50]}` keeps the tensor only when caching is on", ok, f, a,
                      f"`{norm(a)[:60]}` stores what the function returned whether or not `{me}.cache` is set: a non-caching lazy tensor then holds its last materialised tensor for "
                      "good, and a concurrent save over many lazy initializers keeps all of them alive after their reservations were released - far more than the budget plus the "
                      "largest tensor",
                      how="stores into fields of LazyTensor outside __init__ × tests that require self.cache (enclosing ifs, guard clauses `if not self.cache: return`)",
                      construct="tensor kept by a non-caching LazyTensor")
    ctx.require(n >= 1, "no store of a materialised tensor found in LazyTensor")


def run(ctx):
    from . import c04

    c04.rule_r20(ctx, rule="R14", which="reserved")
    rule_r13(ctx)
    rule_r12(ctx)
    rule_r11(ctx)
    rule_r10(ctx)
    rule_r9(ctx)
    rule_r8(ctx)
    _collect_lock_names(ctx)
    ctx.tables["lock names (by construction)"] = sorted(_LOCK_NAMES)
    rule_r1_r2(ctx)
    rule_budget_passed(ctx)
    rule_r3(ctx)
    rule_r4(ctx)
    rule_r5(ctx)
    rule_r6(ctx)
    rule_r7(ctx)
