"""Per-property rule modules."""
