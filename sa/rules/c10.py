"""C10 — external tensor reads never escape the model directory (fail closed)."""

from __future__ import annotations

import ast

from ..cfg import CFG
from ..facts import calls_in, field_writes
from ..index import FuncInfo, dotted_of, norm, own_nodes

PROPERTY = "C10"
RULES = {
    "R1": "dominance: inside ExternalTensor every file open / mmap whose argument derives from the tensor's "
    "path is dominated by self._check_path_containment(); the data fields are only filled there; outside the "
    "class nothing opens a path derived from an ExternalTensor's path",
    "R2": "shape of the check: only the empty-base_dir return; a rejecting prefix test on abspath+normpath "
    "strings, one on realpath strings, both against a separator-terminated base, and a rejecting st_nlink > 1 "
    "test on the resolved path; no mixed real/unreal comparison",
    "R3": "base directory: the value load() hands to set_base_dir can never be the empty string",
    "R4": "base-directory coverage: load() applies set_base_dir to the main graph and to every function of the model; "
    "set_base_dir asks the tensor traversal for attributes too; the traversal reaches the tensor attributes of nested "
    "nodes (recursive node iterator, or a self-recursion that forwards every flag) and the initializers of GRAPH and "
    "GRAPHS subgraphs - a tensor that is not reached keeps base_dir '' and with it no containment check",
    "R5": "what is mapped belongs to the current path: a method of ExternalTensor (other than the constructor) that stores a field "
    "the `path` property is computed from (base directory, location) also resets the data fields filled by the checked loader "
    "(`raw`, `_array`) - otherwise numpy()/tobytes() keep returning the bytes mapped from the old location, which were never "
    "checked against the new base directory",
    "R6": "only the tensor reads its file: outside the methods of ExternalTensor no function of the package hands `<external tensor>.path` "
    "(the joined, unchecked path) to a primitive that reads a file - open, np.fromfile, np.memmap, np.load, mmap.mmap, os.open, "
    "shutil.copy* - or to anything but a path comparison: the containment check lives in the tensor's own loader, so a fast path "
    "that reads the bytes itself (`np.fromfile(tensor.path, …)` when converting external tensors to memory) returns the contents of a "
    "file outside the model directory",
    "R7": "the base directory is the directory the operating system opened the model from: in the functions of the I/O module that hand a "
    "directory to `set_base_dir`, that directory is `os.path.dirname(<the path as given>)` (or of its `realpath`) - the path is not first "
    "rewritten lexically with `os.path.abspath` / `os.path.normpath`: those collapse `link/..` without looking at the file system, so for a "
    "model opened as `work/link/../model.onnx` with `link` a symbolic link to another directory they name `work`, not the directory the "
    "model lives in - every external tensor is then read, and its containment checked, against the wrong directory",
    "R8": "the base directory reaches the tensors a function declares as attribute defaults: where the loader walks the model-local "
    "functions to give their tensors the model's directory (`set_base_dir(<function>.graph, …)` in a loop over `<model>.functions`), "
    "the same loop also visits `<function>.attributes` and sets `base_dir` on the external tensors found there (directly or through a "
    "helper) - a default value `t = <external tensor at ../secret.bin>` of a function attribute otherwise keeps the empty base "
    "directory it was deserialized with, for which the containment check is skipped, and reading it returns bytes from outside the "
    "model's directory",
}
FLOORS = {"R1": 6, "R2": 6, "R3": 1, "R4": 5, "R5": 1, "R6": 1, "R7": 1, "R8": 1}
EXPLANATION = (
    "Dominator queries on ExternalTensor's methods for every file-system read primitive, a who-may-fill check "
    "on the mmap/array fields, a small abstract interpretation of _check_path_containment over path-string "
    "tags (abs, norm, real, sep-terminated), and a string-emptiness analysis of load()'s base directory."
)
NOT_DECIDED = "the TOCTOU window documented in docs/security.md; what os.path.realpath / os.stat return"
ASSUMPTIONS = [
    "os.path.realpath resolves every symlink; os.path.abspath/normpath/normcase/fspath behave as documented",
    "implicit dispatch (repr/format) is not followed",
]

ET = "onnx_ir._core:ExternalTensor"
CHECK = "_check_path_containment"
OPENERS = {"open", "mmap.mmap", "os.open", "np.fromfile", "np.memmap", "numpy.fromfile", "numpy.memmap",
           "np.load", "io.open", "os.fdopen", "np.loadtxt", "onnx.load", "shutil.copyfile", "shutil.copy"}  # fmt: skip
PATHISH = ("path", "_location", "_base_dir", "location", "base_dir")


def _opener_calls(f: FuncInfo):
    for c in calls_in(f):
        d = dotted_of(c.func)
        if d in OPENERS:
            yield c, d


def _mentions_self_path(e: ast.AST, selfname="self", aliases=()) -> bool:
    for x in ast.walk(e):
        if isinstance(x, ast.Attribute) and x.attr in PATHISH and isinstance(x.value, ast.Name) and x.value.id == selfname:
            return True
        if isinstance(x, ast.Name) and x.id in aliases:
            return True
    return False


def _path_aliases(f: FuncInfo, selfname="self") -> set[str]:
    """Locals assigned (transitively) from self.path/_location/_base_dir, or from handles opened on them."""
    al: set[str] = set()
    for _ in range(3):
        for n in own_nodes(f.node):
            if isinstance(n, ast.Assign) and _mentions_self_path(n.value, selfname, al):
                for t in n.targets:
                    if isinstance(t, ast.Name):
                        al.add(t.id)
            elif isinstance(n, ast.withitem) and n.optional_vars is not None and isinstance(n.optional_vars, ast.Name):
                if _mentions_self_path(n.context_expr, selfname, al):
                    al.add(n.optional_vars.id)
    return al


def _alias_is_plain(f, name: str) -> bool:
    """Every binding of the local is `name = self.path` (no call, no concatenation)."""
    binds = [n for n in own_nodes(f.node) if isinstance(n, ast.Assign) and any(isinstance(t, ast.Name) and t.id == name for t in n.targets)]
    return bool(binds) and all(norm(b.value) == "self.path" for b in binds)


def rule_r1(ctx):
    repo, ty = ctx.repo, ctx.typer
    et = repo.cls(ET)
    ctx.require(CHECK in et.methods, f"{ET}.{CHECK} not found")
    funcs = list(et.methods.values()) + [p[k] for p in et.props.values() for k in p]
    # a private helper that only exists as a part of its callers (every call of it was expanded, sa/inline.py) is examined
    # there, with the statements that surround the call - not on its own
    funcs = [f for f in funcs if repo.transparent_callers(f) is None]
    n_open = 0
    for f in funcs:
        al = _path_aliases(f)
        cfg = None
        for call, d in _opener_calls(f):
            if not any(_mentions_self_path(a, "self", al) for a in list(call.args) + [k.value for k in call.keywords]):
                continue
            n_open += 1
            cfg = cfg or CFG(f.node)
            checks = [c for c in calls_in(f) if isinstance(c.func, ast.Attribute) and c.func.attr == CHECK
                      and norm(c.func.value) == "self"]  # fmt: skip
            cn = cfg.nodes_containing(call)
            ok = False
            for ch in checks:
                hn = cfg.nodes_containing(ch)
                # the check must be an unconditional statement, not an operand that can be short-circuited
                plain = isinstance(getattr(ch, "_parent", None), ast.Expr)
                if hn and cn and plain and cfg.dominates(hn[0], cn[0]) and hn[0].id != cn[0].id:
                    ok = True
            ctx.check("R1", f"{f.local}: {d}({', '.join(norm(a) for a in call.args)[:60]})", ok, f, call,
                      f"{d} on the tensor's path is not dominated by self.{CHECK}() — bytes can be read "
                      "before containment is verified",
                      how="dominator query in the method's CFG")
            # what is opened is what was checked: the path handed to the opener is self.path itself (or a local bound to it),
            # not a re-spelling of it - the check resolves links before `..`, a string normalisation resolves `..` first, so
            # normpath/abspath/join of the checked path can name another file than the one that passed the check
            path_locals = {t.id for n in own_nodes(f.node) if isinstance(n, ast.Assign) and "self.path" in norm(n.value) for t in n.targets if isinstance(t, ast.Name)}
            pargs = [a for a in list(call.args) + [k.value for k in call.keywords]
                     if "self.path" in norm(a) or any(isinstance(x, ast.Name) and x.id in path_locals for x in ast.walk(a))]
            if not pargs:
                continue  # the opener works on a handle of the file opened before (mmap of f.fileno())
            same = all(norm(a) == "self.path" or (isinstance(a, ast.Name) and _alias_is_plain(f, a.id)) for a in pargs)
            ctx.check("R1", f"{f.local}: {d} opens the checked path itself", same, f, call,
                      f"`{norm(pargs[0]) if pargs else ''}` is opened, while self.{CHECK}() verified `self.path`: the two can differ "
                      "(a `..` after a symlinked directory is resolved differently by the file system and by string normalisation), so a "
                      "location that passes the containment check is read from another file - possibly outside the base directory",
                      how="the opener's path argument is `self.path` or a local bound to exactly that", nontrivial=False,
                      construct=f"{d} opens a re-spelling of the checked path")
    ctx.require(n_open >= 2, "fewer than 2 path-opening sites found in ExternalTensor")
    # who may fill the data fields
    for f in funcs:
        for w in field_writes(f):
            if w.field in ("raw", "_array") and isinstance(w.recv, ast.Name) and w.recv.id == "self" and w.kind == "store":
                v = w.stmt.value
                if isinstance(v, ast.Constant) and v.value is None:
                    continue
                cfg = CFG(f.node)
                checks = [c for c in calls_in(f) if isinstance(c.func, ast.Attribute) and c.func.attr == CHECK]
                sn = cfg.node_of(w.stmt)
                ok = any(cfg.nodes_containing(c) and sn and cfg.dominates(cfg.nodes_containing(c)[0], sn[0]) for c in checks)
                ctx.check("R1", f"{f.local}: {norm(w.stmt)[:70]}", ok, f, w.stmt,
                          f"self.{w.field} is filled in a function where the containment check does not dominate",
                          how="data field store dominated by the check")
    # accessors reach data only through checked functions: any method reading self.raw / self._array
    # for content must obtain it after a call of a function that runs the check (_load) or after the check
    checked_fns = {f.name for f in funcs
                   if any(isinstance(c.func, ast.Attribute) and c.func.attr == CHECK for c in calls_in(f))}  # fmt: skip
    for f in funcs:
        if f.name in ("__init__", "release", "_load") or f.name in checked_fns:
            continue
        reads = [n for n in own_nodes(f.node) if isinstance(n, ast.Attribute) and n.attr in ("raw", "_array")
                 and isinstance(n.ctx, ast.Load) and norm(n.value) == "self"]  # fmt: skip
        content = [n for n in reads if not _is_none_test(n)]
        if not content:
            continue
        loads = [c for c in calls_in(f) if isinstance(c.func, ast.Attribute) and c.func.attr in checked_fns and norm(c.func.value) == "self"]
        guards_ok = bool(loads) and all(_guarded_by_none_test(c) for c in loads)
        ctx.check("R1", f"{f.local}: data field read after a checked loader", guards_ok, f, f.node,
                  "accessor returns mapped data without going through a function that runs the containment check",
                  how=f"reads of raw/_array preceded by `if self.<field> is None: self.{'/'.join(sorted(checked_fns))}()`")
    # outside the class
    et_names = {"ExternalTensor"}
    for f in repo.all_funcs():
        if f.owner_class is et:
            continue
        for call, d in _opener_calls(f):
            bad = None
            al: set[str] = set()
            for _ in range(3):
                for n in own_nodes(f.node):
                    if isinstance(n, ast.Assign) and _derives_from_et_path(ctx, f, n.value, al):
                        al |= {t.id for t in n.targets if isinstance(t, ast.Name)}
            for a in list(call.args) + [k.value for k in call.keywords]:
                if _derives_from_et_path(ctx, f, a, al):
                    bad = a
            ctx.check("R1", f"{f.key}: {d}(...) does not take an ExternalTensor path", bad is None, f, call,
                      f"{d} opens a path derived from an ExternalTensor's path/location outside the class — "
                      "the containment check is bypassed", how="typed data-flow from .path/.location/.base_dir",
                      nontrivial=bad is not None)


def _derives_from_et_path(ctx, f, e, aliases) -> bool:
    et = ctx.repo.cls(ET)
    for x in ast.walk(e):
        if isinstance(x, ast.Name) and x.id in aliases:
            return True
        if isinstance(x, ast.Attribute) and x.attr in ("path", "location", "base_dir", "_location", "_base_dir"):
            if any(k is et for k in ctx.typer.recv_classes(f, x.value)):
                return True
    return False


def _is_none_test(n: ast.Attribute) -> bool:
    p = getattr(n, "_parent", None)
    return isinstance(p, ast.Compare) and all(isinstance(o, (ast.Is, ast.IsNot)) for o in p.ops)


def _guarded_by_none_test(call) -> bool:
    p = getattr(call, "_parent", None)
    while p is not None and not isinstance(p, (ast.If, ast.FunctionDef)):
        p = getattr(p, "_parent", None)
    return isinstance(p, ast.If) and " is None" in norm(p.test) and ("self.raw" in norm(p.test) or "self._array" in norm(p.test))


# ------------------------------------------------------------------------------ R2
def _tags(e: ast.AST, env: dict[str, frozenset]) -> frozenset:
    if isinstance(e, ast.Name):
        return env.get(e.id, frozenset())
    if isinstance(e, ast.Call):
        d = dotted_of(e.func) or ""
        a = _tags(e.args[0], env) if e.args else frozenset()
        if d == "os.path.abspath":
            return a | {"abs"}
        if d == "os.path.normpath":
            return a | {"norm"}
        if d == "os.path.realpath":
            # resolving symlinks AFTER `..` was collapsed lexically resolves another path than the one the OS opens
            # (`link/../x` names the parent of the link's target, normpath makes it `x`)
            return frozenset({"abs", "norm", "real"}) | (frozenset({"prenorm"}) if a & {"norm", "prenorm"} else frozenset())
        if d in ("os.path.normcase", "os.fspath", "str"):
            return a
        return frozenset()
    if isinstance(e, ast.BinOp) and isinstance(e.op, ast.Add):
        if norm(e.right) == "os.sep":
            return _tags(e.left, env) | {"sep"}
        return frozenset()
    if isinstance(e, ast.IfExp):
        t = norm(e.test)
        a, b = _tags(e.body, env), _tags(e.orelse, env)
        if t.endswith(".endswith(os.sep)") and t.split(".endswith")[0] == norm(e.body):
            a = a | {"sep"}
        return a & b
    return frozenset()


def rule_r2(ctx):
    f = ctx.repo.func(f"{ET}.{CHECK}")
    # returns
    rets = [n for n in own_nodes(f.node) if isinstance(n, ast.Return)]

    def _empty_base_exit(r) -> bool:
        return isinstance(getattr(r, "_parent", None), ast.If) and norm(r._parent.test) in ("not self._base_dir", "not self.base_dir")

    def _no_link_count_exit(r) -> bool:
        """`return` in the OSError handler of the try that reads st_nlink, when everything after that try only tests the link
        count: the file does not exist, there is no link count to look at, and all other checks have been passed already."""
        h = getattr(r, "_parent", None)
        if not (isinstance(h, ast.ExceptHandler) and h.type is not None and (dotted_of(h.type) or "") in ("OSError", "FileNotFoundError") and len(h.body) == 1):
            return False
        t = getattr(h, "_parent", None)
        if not (isinstance(t, ast.Try) and t in f.node.body and not t.finalbody and not t.orelse):
            return False
        got = {x.targets[0].id for x in t.body if isinstance(x, ast.Assign) and isinstance(x.targets[0], ast.Name)
               and isinstance(x.value, ast.Attribute) and x.value.attr == "st_nlink"}
        if not got or len(t.body) != 1:
            return False
        rest = f.node.body[f.node.body.index(t) + 1:]
        return all(isinstance(x, ast.If) and not x.orelse and any(isinstance(y, ast.Raise) for y in x.body)
                   and got & {y.id for y in ast.walk(x.test) if isinstance(y, ast.Name)} for x in rest)

    bad = [r for r in rets if not (_empty_base_exit(r) or _no_link_count_exit(r))]
    ok = sum(1 for r in rets if _empty_base_exit(r)) == 1 and not bad
    ctx.check("R2", "only return is the empty-base_dir early exit", ok, f, bad[0] if bad else (rets[0] if rets else f.node),
              "the check can return (accept) on a path other than the documented empty-base_dir case",
              how="every `return` classified by its guard")
    env: dict[str, frozenset] = {}
    kinds = {"string": 0, "real": 0, "nlink": 0}
    nl_vars = {s_.targets[0].id for s_ in own_nodes(f.node) if isinstance(s_, ast.Assign) and isinstance(s_.targets[0], ast.Name)
               and isinstance(s_.value, ast.Attribute) and s_.value.attr == "st_nlink"}
    bools: dict[str, ast.AST] = {}  # locals bound to a boolean expression: read through when a rejecting test names them
    for n in f.node.body:
        for s in ast.walk(n) if not isinstance(n, ast.If) else [n]:
            if isinstance(s, ast.Assign) and len(s.targets) == 1 and isinstance(s.targets[0], ast.Name):
                env[s.targets[0].id] = _tags(s.value, env)
                if isinstance(s.value, (ast.BoolOp, ast.Compare, ast.UnaryOp)) or (
                        isinstance(s.value, ast.Call) and isinstance(s.value.func, ast.Attribute) and s.value.func.attr == "startswith"):
                    bools[s.targets[0].id] = s.value
                else:
                    bools.pop(s.targets[0].id, None)
        if not isinstance(n, ast.If) or not any(isinstance(x, ast.Raise) for x in n.body):
            continue
        test = _nnf(_read_through(n.test, bools))
        sw = [c for c in ast.walk(test) if isinstance(c, ast.Call) and isinstance(c.func, ast.Attribute) and c.func.attr == "startswith"]
        if sw:
            c = sw[0]
            subj, pref = _tags(c.func.value, env), _tags(c.args[0], env) if c.args else frozenset()
            inst = f"prefix test {norm(c)}"
            if "sep" not in pref:
                ctx.check("R2", inst, False, f, n,
                          "prefix test against a base that is not separator-terminated accepts sibling "
                          "directories sharing the base's name as a prefix (base2/…)",
                          how="tag analysis: prefix must carry `sep`", construct=f"startswith({norm(c.args[0]) if c.args else ''}) lacks sep")
                continue
            # the test must be negated and (optionally) joined by `and` with an inequality to the bare base
            shape_ok = _rejecting_shape(test, c)
            if "real" in subj and "prenorm" in subj:
                ctx.check("R2", inst, False, f, n,
                          f"`{norm(c.func.value)}` is the real path of a location that was normalised lexically first: `shared/../secret.bin` with `shared` a symlinked "
                          "directory is collapsed to `secret.bin` before the symlink is resolved, so the path that is checked (and whose link count is read) is not the "
                          "path the read opens - a symlinked directory followed by `..` leads outside the base directory unnoticed",
                          how="tag analysis: the argument of os.path.realpath carries no normpath", construct="realpath of a lexically normalised path")
                continue
            if {"abs", "norm"} <= subj and {"abs", "norm"} <= pref and ("real" in subj) == ("real" in pref) and shape_ok:
                kind = "real" if "real" in subj else "string"
                kinds[kind] += 1
                ctx.ob("R2", f"{kind} containment: {norm(c)}", True, how="both sides abs+norm" + ("+real" if kind == "real" else ""))
            else:
                ctx.check("R2", inst, False, f, n,
                          f"prefix test compares {sorted(subj)} with {sorted(pref)}"
                          + ("" if shape_ok else "; test is not of the rejecting form `x != base and not x.startswith(base+sep)`")
                          + " — mixed or un-normalised comparison does not establish containment",
                          how="tag analysis over abspath/normpath/realpath", construct=f"prefix test tags {sorted(subj)} vs {sorted(pref)}")
        elif nl_vars & {x.id for x in ast.walk(test) if isinstance(x, ast.Name)}:
            # V bound from os.stat(<real>).st_nlink ; threshold 1
            t = norm(test)
            v = sorted(nl_vars & {x.id for x in ast.walk(test) if isinstance(x, ast.Name)})[0]
            ok = False
            if isinstance(test, ast.Compare) and len(test.ops) == 1:
                l, op, r = test.left, test.ops[0], test.comparators[0]
                def is_v(e):
                    return isinstance(e, ast.Name) and e.id == v
                def is_c(e, k):
                    return isinstance(e, ast.Constant) and e.value == k
                ok = (is_v(l) and isinstance(op, ast.Gt) and is_c(r, 1)) or (is_v(l) and isinstance(op, ast.GtE) and is_c(r, 2)) \
                    or (is_c(l, 1) and isinstance(op, ast.Lt) and is_v(r)) or (is_v(l) and isinstance(op, ast.NotEq) and is_c(r, 1)) \
                    or (is_c(l, 2) and isinstance(op, ast.LtE) and is_v(r))
            src_ok = False
            for s_ in own_nodes(f.node):
                if isinstance(s_, ast.Assign) and isinstance(s_.targets[0], ast.Name) and s_.targets[0].id == v and isinstance(s_.value, ast.Attribute) and s_.value.attr == "st_nlink":
                    call = s_.value.value
                    if isinstance(call, ast.Call) and dotted_of(call.func) in ("os.stat", "os.lstat") and call.args:
                        src_ok = "real" in _tags(call.args[0], env) and "prenorm" not in _tags(call.args[0], env)
            kinds["nlink"] += 1 if (ok and src_ok) else 0
            ctx.check("R2", "hard-link test on st_nlink", ok and src_ok, f, n,
                      f"hard-link rejection `{t}` is not `st_nlink > 1` of the fully resolved path",
                      how="threshold constant and stat target tags", construct="nlink test")
    for k, label in (("string", "abspath/normpath prefix rejection"), ("real", "realpath prefix rejection"), ("nlink", "hard-link rejection")):
        ctx.check("R2", f"present: {label}", kinds[k] >= 1, f, f.node,
                  f"_check_path_containment has no {label}", how="count of recognised rejecting tests",
                  construct=f"missing {label}")
    # the rejecting tests are reached on every non-empty-base path: no statement between them can exit
    cfg = CFG(f.node)
    raises = [n for n in own_nodes(f.node) if isinstance(n, ast.Raise)]
    ctx.check("R2", "at least three rejecting raises", len(raises) >= 3, f, f.node, "fewer than three raises", nontrivial=False)


def _read_through(test: ast.AST, bools: dict) -> ast.AST:
    """test with the boolean locals it names replaced by the expressions they were last bound to."""
    from ..inline import clone

    class R(ast.NodeTransformer):
        def visit_Name(self, node):
            if isinstance(node.ctx, ast.Load) and node.id in bools:
                return self.visit(clone(bools[node.id]))
            return node

    return R().visit(clone(test))


def _nnf(e: ast.AST) -> ast.AST:
    """Negation normal form: `not (a or b)` -> `not a and not b`, `not (x == y)` -> `x != y`, `not not a` -> `a`."""
    def neg(x):
        if isinstance(x, ast.UnaryOp) and isinstance(x.op, ast.Not):
            return pos(x.operand)
        if isinstance(x, ast.BoolOp):
            return ast.BoolOp(op=ast.And() if isinstance(x.op, ast.Or) else ast.Or(), values=[neg(v) for v in x.values])
        if isinstance(x, ast.Compare) and len(x.ops) == 1:
            flip = {ast.Eq: ast.NotEq, ast.NotEq: ast.Eq, ast.In: ast.NotIn, ast.NotIn: ast.In, ast.Is: ast.IsNot, ast.IsNot: ast.Is,
                    ast.Lt: ast.GtE, ast.GtE: ast.Lt, ast.Gt: ast.LtE, ast.LtE: ast.Gt}
            return ast.Compare(left=x.left, ops=[flip[type(x.ops[0])]()], comparators=x.comparators)
        return ast.UnaryOp(op=ast.Not(), operand=x)

    def pos(x):
        if isinstance(x, ast.UnaryOp) and isinstance(x.op, ast.Not):
            return neg(x.operand)
        if isinstance(x, ast.BoolOp):
            return ast.BoolOp(op=x.op, values=[pos(v) for v in x.values])
        return x

    out = pos(e)
    ast.fix_missing_locations(out)
    return out


def _rejecting_shape(test: ast.AST, sw_call: ast.Call) -> bool:
    """``not x.startswith(p)`` possibly and-ed with ``x != base``."""
    def is_neg_sw(e):
        return isinstance(e, ast.UnaryOp) and isinstance(e.op, ast.Not) and e.operand is sw_call

    if is_neg_sw(test):
        return True
    if isinstance(test, ast.BoolOp) and isinstance(test.op, ast.And):
        others = [v for v in test.values if not is_neg_sw(v)]
        if len(others) == len(test.values):
            return False
        subj = norm(sw_call.func.value)
        for o in others:
            if not (isinstance(o, ast.Compare) and len(o.ops) == 1 and isinstance(o.ops[0], ast.NotEq) and norm(o.left) == subj):
                return False
        return True
    return False


# ------------------------------------------------------------------------------ R3
def _nonempty(e: ast.AST, env: dict[str, bool]) -> bool:
    """True iff the string value is provably non-empty."""
    if isinstance(e, ast.Constant):
        return isinstance(e.value, str) and e.value != ""
    if isinstance(e, ast.Name):
        return env.get(e.id, False)
    if isinstance(e, ast.Attribute):
        return norm(e) in ("os.curdir", "os.sep", "os.pardir")
    if isinstance(e, ast.BoolOp) and isinstance(e.op, ast.Or):
        return _nonempty(e.values[-1], env)
    if isinstance(e, ast.IfExp):
        return _nonempty(e.body, env) and _nonempty(e.orelse, env)
    if isinstance(e, ast.Call):
        d = dotted_of(e.func) or ""
        if d in ("os.path.abspath", "os.path.realpath", "os.getcwd"):
            return True
        if d in ("os.path.dirname",):
            # dirname of an absolute path is never empty
            return bool(e.args) and isinstance(e.args[0], ast.Call) and dotted_of(e.args[0].func) in ("os.path.abspath", "os.path.realpath")
        if d in ("os.path.normpath",):
            return True  # normpath('') == '.'
        if d in ("os.fspath", "str", "os.path.normcase"):
            return bool(e.args) and _nonempty(e.args[0], env)
        if d == "os.path.join":
            return any(_nonempty(a, env) for a in e.args)
    return False


def rule_r3(ctx):
    f = ctx.repo.func("onnx_ir._io:load")
    env: dict[str, bool] = {}
    for n in own_nodes(f.node):
        if isinstance(n, ast.Assign) and len(n.targets) == 1 and isinstance(n.targets[0], ast.Name):
            env[n.targets[0].id] = _nonempty(n.value, env)
    sinks = []
    for c in calls_in(f):
        d = dotted_of(c.func) or ""
        if d.endswith("set_base_dir") and len(c.args) >= 2:
            sinks.append((c, c.args[1]))
        for k in c.keywords:
            if k.arg in ("base_dir", "base_path"):
                sinks.append((c, k.value))
    for w in field_writes(f):
        if w.field == "base_dir" and w.kind == "store":
            sinks.append((w.stmt, w.stmt.value))
    ctx.require(bool(sinks), "load(): no base-directory sink (set_base_dir / base_dir=) found")
    for node, val in sinks:
        ok = _nonempty(val, env)
        ctx.check("R3", f"load(): base directory {norm(val)} is never ''", ok, f, node,
                  "the base directory handed to the external tensors can be the empty string (e.g. for a bare "
                  "file name, os.path.dirname('m.onnx') == ''), which disables every containment check",
                  how="string-emptiness domain over dirname/abspath/realpath/`or`", construct=f"base_dir sink {norm(val)}")


def _loop_var_of(f: FuncInfo, node: ast.AST):
    """(loop variable, iterable) of the innermost for-loop around node."""
    p = getattr(node, "_parent", None)
    while p is not None and p is not f.node:
        if isinstance(p, ast.For) and isinstance(p.target, ast.Name):
            return p.target.id, p.iter
        p = getattr(p, "_parent", None)
    return None, None


def rule_r4(ctx):
    repo = ctx.repo
    load = repo.func("onnx_ir._io:load")
    sb = repo.func("onnx_ir.external_data:set_base_dir")
    # (a) load(): main graph and every function
    calls = [c for c in calls_in(load) if (dotted_of(c.func) or "").endswith("set_base_dir") and c.args]
    ctx.require(bool(calls), "load(): no set_base_dir call")
    model_names = {n.targets[0].id for n in own_nodes(load.node) if isinstance(n, ast.Assign) and isinstance(n.targets[0], ast.Name)
                   and isinstance(n.value, ast.Call) and (dotted_of(n.value.func) or "").endswith("deserialize_model")}
    ctx.require(bool(model_names), "load(): deserialized model not found")
    arg0 = {id(c): _resolve_copy(c, c.args[0]) for c in calls}
    main = [c for c in calls if isinstance(arg0[id(c)], ast.Attribute) and arg0[id(c)].attr == "graph" and norm(arg0[id(c)].value) in model_names]
    ctx.check("R4", "load(): set_base_dir on the model's main graph", bool(main), load, load.node,
              "the main graph's external tensors keep base_dir '' (no containment check)", how="call with <model>.graph", nontrivial=False)
    fn_cov = []
    for c in calls:
        var, it = _loop_var_of(load, c)
        if var and it is not None and any(isinstance(x, ast.Attribute) and x.attr == "functions" and norm(x.value) in model_names for x in ast.walk(it)) \
                and any(isinstance(x, ast.Name) and x.id == var for x in ast.walk(arg0[id(c)])):
            fn_cov.append(c)
    ctx.check("R4", "load(): set_base_dir on every function of the model", bool(fn_cov), load, load.node,
              "external tensors held by node attributes inside the model's functions keep base_dir '' after load(): "
              "_check_path_containment returns early for an empty base, so such a tensor is read from any absolute or "
              "cwd-relative location",
              how="a loop over <model>.functions applying set_base_dir to each function('s graph)", construct="functions not covered")
    # (c) set_base_dir asks for attribute tensors
    at = repo.func("onnx_ir.external_data:_all_tensors")
    tcalls = [c for c in calls_in(sb) if (dotted_of(c.func) or "").endswith(at.name)]
    ctx.require(bool(tcalls), "set_base_dir: tensor traversal call not found")
    flags = [a.arg for a, d in zip(reversed(at.node.args.args), reversed(at.node.args.defaults))] + \
            [a.arg for a, d in zip(at.node.args.kwonlyargs, at.node.args.kw_defaults) if d is not None]
    for c in tcalls:
        for fl in flags:
            i = at.params.index(fl)
            v = c.args[i] if i < len(c.args) else next((k.value for k in c.keywords if k.arg == fl), None)
            ok = isinstance(v, ast.Constant) and v.value is True
            ctx.check("R4", f"set_base_dir: traversal called with {fl}=True", ok, sb, c,
                      f"set_base_dir leaves `{fl}` at its default: tensors in node attributes are not visited and keep base_dir ''",
                      how="flag argument is the constant True", construct=f"{fl} not True")
    # (d) every external tensor the traversal yields gets the base directory: the assignment is guarded by nothing but the
    #     class test - no property of the tensor (an absolute location, a size, a name) exempts it
    stores = [n for n in own_nodes(sb.node) if isinstance(n, ast.Assign) and any(isinstance(t, ast.Attribute) and t.attr in ("base_dir", "_base_dir") for t in n.targets)]
    ctx.require(bool(stores), "set_base_dir: assignment of the base directory not found")
    for st in stores:
        bad = None
        child, p_ = st, getattr(st, "_parent", None)
        while p_ is not None and p_ is not sb.node:
            if isinstance(p_, (ast.If, ast.While, ast.Try, ast.IfExp)):
                t = getattr(p_, "test", None)
                class_test = isinstance(t, ast.Call) and dotted_of(t.func) == "isinstance" and "ExternalTensor" in norm(t)
                if not class_test:
                    bad = bad or p_
            # `if …: continue` before the assignment in the same block
            for fld in ("body", "orelse"):
                b = getattr(p_, fld, None)
                if isinstance(b, list) and any(child is x for x in b):
                    for x in b[: next(i for i, y in enumerate(b) if y is child)]:
                        if isinstance(x, ast.If) and any(isinstance(y, (ast.Continue, ast.Break, ast.Return)) for y in ast.walk(x)):
                            t = x.test
                            neg_class = isinstance(t, ast.UnaryOp) and isinstance(t.op, ast.Not) and isinstance(t.operand, ast.Call) \
                                and dotted_of(t.operand.func) == "isinstance" and "ExternalTensor" in norm(t)
                            if not neg_class:
                                bad = bad or x
            child, p_ = p_, getattr(p_, "_parent", None)
        ctx.check("R4", "set_base_dir: every external tensor of the traversal is given the base directory", bad is None, sb, bad if bad is not None else st,
                  f"`{norm(getattr(bad, 'test', bad))[:70] if bad is not None else ''}` exempts some external tensors from `{norm(st)[:40]}`: they keep base_dir '' after load(), "
                  "and _check_path_containment returns early for an empty base - such a tensor (e.g. one with an absolute location) is read from anywhere",
                  how="tests and early exits between the traversal loop and the assignment: only isinstance(<t>, ExternalTensor)", construct="external tensors exempted from set_base_dir")
    # (b) traversal completeness
    gp = at.params[0]
    node_loops = [n for n in own_nodes(at.node) if isinstance(n, ast.For) and any(
        isinstance(x, ast.Attribute) and x.attr in ("attributes",) for x in ast.walk(n))]
    node_loops = [n for n in node_loops if not isinstance(getattr(n, "_parent", None), ast.For)]
    ctx.require(bool(node_loops), "_all_tensors: loop over nodes/attributes not found")
    for lp in node_loops:
        it = lp.iter
        recursive_iter = isinstance(it, ast.Call) and (dotted_of(it.func) or "").endswith("RecursiveGraphIterator") and it.args and norm(it.args[0]) == gp
        selfrec = [c for c in ast.walk(lp) if isinstance(c, ast.Call) and (dotted_of(c.func) or "") == at.name]
        forwards = bool(selfrec) and all(
            all((at.params.index(fl) < len(c.args) and fl in norm(c.args[at.params.index(fl)])) or any(k.arg == fl and fl in norm(k.value) for k in c.keywords) for fl in flags)
            for c in selfrec)
        ok = recursive_iter or forwards
        ctx.check("R4", "_all_tensors: tensor attributes of nested nodes are reached", bool(ok), at, selfrec[0] if selfrec and not forwards else lp,
                  "the node loop covers only the graph's own nodes and the recursion into subgraphs drops a flag (it runs with the default), "
                  "so tensor attributes of nodes inside subgraphs are skipped" if selfrec else
                  "the node loop covers only the graph's own nodes: tensor attributes of nodes inside subgraphs are skipped",
                  how="node loop iterates RecursiveGraphIterator(graph), or every self-recursive call forwards every defaulted parameter",
                  construct="nested node attributes not reached")
        # initializers of GRAPH / GRAPHS subgraphs
        for kind in ("GRAPH", "GRAPHS"):
            br = [n for n in ast.walk(lp) if isinstance(n, ast.If) and any(
                isinstance(x, ast.Attribute) and x.attr == kind and (dotted_of(x) or "").endswith(f"AttributeType.{kind}") for x in ast.walk(n.test))]
            ok = bool(br) and all(
                any((isinstance(x, ast.Attribute) and x.attr == "initializers") or (isinstance(x, ast.Call) and (dotted_of(x.func) or "") == at.name) for s_ in b.body for x in ast.walk(s_))
                for b in br)
            ctx.check("R4", f"_all_tensors: initializers of {kind} subgraphs are reached", ok, at, br[0] if br else lp,
                      f"initializers of subgraphs held by {kind} attributes are not visited and keep base_dir ''",
                      how="branch reads <subgraph>.initializers or recurses", construct=f"{kind} initializers not reached")


def _resolve_copy(call, e):
    """A name bound by the statement just before the call's statement (same block) stands for the bound expression: what
    `f(g.graph)` reads as once a generator helper `for x in gen(): f(x)` is expanded into `x = g.graph; f(x)`."""
    if not isinstance(e, ast.Name):
        return e
    st = call
    while st is not None and not isinstance(st, ast.stmt):
        st = getattr(st, "_parent", None)
    blk = getattr(st, "_parent", None)
    for fld in ("body", "orelse", "finalbody"):
        b = getattr(blk, fld, None)
        if isinstance(b, list) and st in b:
            for prev in reversed(b[: b.index(st)]):
                if isinstance(prev, ast.Assign) and len(prev.targets) == 1 and isinstance(prev.targets[0], ast.Name) and prev.targets[0].id == e.id:
                    return prev.value
                if any(isinstance(x, ast.Name) and x.id == e.id and isinstance(x.ctx, ast.Store) for x in ast.walk(prev)):
                    return e
    return e


def _plain_inequality(t, f, depth=0) -> bool:
    """`a != b` over the raw old and new values (os.fspath at most), written directly, as `not (a == b)`, or through a
    local bound once to such a comparison."""
    if isinstance(t, ast.Name) and depth < 2:
        binds = [n for n in own_nodes(f.node) if (isinstance(n, ast.Assign) and any(isinstance(x, ast.Name) and x.id == t.id for x in n.targets))
                 or (isinstance(n, (ast.AnnAssign, ast.AugAssign, ast.NamedExpr)) and isinstance(n.target, ast.Name) and n.target.id == t.id)]
        if len(binds) == 1 and isinstance(binds[0], (ast.Assign, ast.AnnAssign)) and binds[0].value is not None and t.id not in f.params:
            return _plain_inequality(binds[0].value, f, depth + 1)
        return False
    neg = False
    if isinstance(t, ast.UnaryOp) and isinstance(t.op, ast.Not):
        neg, t = True, t.operand
    if not (isinstance(t, ast.Compare) and len(t.ops) == 1):
        return False
    if not isinstance(t.ops[0], (ast.Eq, ast.Is) if neg else (ast.NotEq, ast.IsNot)):
        return False
    return all(isinstance(sd, (ast.Name, ast.Attribute)) or (isinstance(sd, ast.Call) and dotted_of(sd.func) == "os.fspath" and len(sd.args) == 1
                                                             and isinstance(sd.args[0], (ast.Name, ast.Attribute)))
               for sd in [t.left, t.comparators[0]])


def rule_r5(ctx):
    et = ctx.repo.cls(ET)
    pg = et.props.get("path", {}).get("get")
    ctx.require(pg is not None, "ExternalTensor.path property not found")
    inputs = {x.attr for x in own_nodes(pg.node) if isinstance(x, ast.Attribute) and isinstance(x.value, ast.Name) and x.value.id == pg.params[0]}
    ctx.require(bool(inputs), "ExternalTensor.path reads no field")
    funcs = list(et.methods.values()) + [p[k] for p in et.props.values() for k in p]
    n = 0
    for f in funcs:
        if f.name == "__init__":
            continue
        for w in field_writes(f):
            if w.field in inputs and isinstance(w.recv, ast.Name) and w.recv.id == f.params[0] and w.kind == "store":
                n += 1
                resets = {x.field for x in field_writes(f) if x.field in ("raw", "_array") and isinstance(x.recv, ast.Name) and x.recv.id == f.params[0]
                          and isinstance(getattr(x.stmt, "value", None), ast.Constant) and x.stmt.value.value is None}
                released = any(isinstance(c.func, ast.Attribute) and c.func.attr == "release" and norm(c.func.value) == f.params[0] for c in calls_in(f))
                ok = released or resets >= {"raw", "_array"}
                # the mapping is dropped whenever the stored value changes: the resets are unconditional, or guarded by nothing but
                # the inequality of the raw old and new values (os.fspath at most) - a comparison of *normalised* spellings
                # (normpath, abspath, lower …) calls `""` and `"."`, or `d` and `d/link/..`, the same directory
                if ok:
                    for x in field_writes(f):
                        if x.field in ("raw", "_array") and isinstance(getattr(x.stmt, "value", None), ast.Constant):
                            p_ = getattr(x.stmt, "_parent", None)
                            while p_ is not None and p_ is not f.node:
                                if isinstance(p_, ast.If):
                                    if not _plain_inequality(p_.test, f):
                                        ok = False
                                p_ = getattr(p_, "_parent", None)
                ctx.check("R5", f"{f.local}: storing {w.field} drops the mapped data", ok, f, w.stmt,
                          f"`{norm(w.stmt)}` changes what `path` denotes but keeps `raw` / `_array`: after a first read, numpy()/tobytes() go on returning "
                          "the bytes of the old location without a containment check against the new base directory (tofile() re-checks and disagrees)",
                          how="stores of the path's input fields outside the constructor are accompanied by resets of raw and _array (or release())",
                          construct=f"{w.field} stored without dropping the mapping")
    ctx.require(n >= 1, "no method of ExternalTensor stores an input of its path")


_READ_PRIMS = ("open", "io.open", "np.fromfile", "numpy.fromfile", "np.memmap", "numpy.memmap", "np.load", "numpy.load", "mmap.mmap", "os.open",
               "shutil.copy", "shutil.copy2", "shutil.copyfile", "shutil.copyfileobj", "os.sendfile", "os.copy_file_range", "pathlib.Path")
_R6_EXAMPLE = "def f(tensor):\n    return np.fromfile(tensor.path, dtype=np.uint8)\n"


def _path_reads(fn_node):
    """[(call, argument)] - file-reading primitives given an expression that contains `<x>.path`."""
    out = []
    for c in ast.walk(fn_node):
        if isinstance(c, ast.Call) and (dotted_of(c.func) or "") in _READ_PRIMS:
            for a in list(c.args) + [k.value for k in c.keywords]:
                if any(isinstance(x, ast.Attribute) and x.attr == "path" for x in ast.walk(a)):
                    out.append((c, a))
    return out


def rule_r6(ctx):
    ex = ast.parse(_R6_EXAMPLE).body[0]
    ctx.require(bool(_path_reads(ex)), "R6: the built-in positive example is not recognised")
    n = 0
    et = ctx.repo.cls(ET)
    for m in ctx.repo.pkg_modules():
        if m.name.endswith("_test"):
            continue
        for f in m.all_funcs:
            if isinstance(f.node, ast.Lambda) or f.owner_class is et:
                continue
            mentions = [x for x in own_nodes(f.node) if isinstance(x, ast.Attribute) and x.attr == "path" and isinstance(x.ctx, ast.Load)]
            ext = []
            for x in mentions:
                try:
                    cls = ctx.typer.recv_classes(f, x.value)
                except Exception:
                    cls = ()
                if any("Tensor" in k.name for k in cls) or (not cls and isinstance(x.value, ast.Name) and "tensor" in x.value.id.lower()):
                    ext.append(x)
            n += len(ext)
            if not ext:
                continue
            for c, a in _path_reads(f.node):
                if any(x in ext for x in ast.walk(a) if isinstance(x, ast.Attribute)):
                    ctx.check("R6", f"{f.local}: `{norm(c)[:50]}` does not read an external tensor's file itself", False, f, c,
                              f"`{norm(c)[:80]}` opens the data file of an external tensor through its `path` without going through the tensor's own loader: the containment "
                              "check is skipped, so a location that leaves the model directory (.., an absolute path, a link) is read and its bytes end up in the model",
                              how="arguments of file-reading primitives outside ExternalTensor that contain `<external tensor>.path`",
                              construct=f"{f.local} reads <external tensor>.path itself")
    ctx.ob("R6", f"{n} reads of `<external tensor>.path` outside the class: none reaches a file-reading primitive", True, nontrivial=False)
    for _ in range(n):
        ctx.counts["R6"] = ctx.counts.get("R6", 0) + 1
    ctx.require(n >= 1, f"only {n} uses of `<external tensor>.path` outside the class found (the writer compares it with its destination)")


def rule_r7(ctx):
    m = ctx.repo.module("onnx_ir._io")
    n = 0
    for f in ctx.repo.live(m.all_funcs):
        if isinstance(f.node, ast.Lambda):
            continue
        for c in calls_in(f):
            if not ((dotted_of(c.func) or "").endswith("set_base_dir") and len(c.args) >= 2):
                continue
            n += 1
            exprs, seen, bad = [c.args[1]], set(), None
            while exprs and bad is None:
                e = exprs.pop()
                for y in ast.walk(e):
                    if isinstance(y, ast.Call) and (dotted_of(y.func) or "") in ("os.path.abspath", "os.path.normpath", "abspath", "normpath") \
                            and not any(isinstance(q, ast.Call) and (dotted_of(q.func) or "").endswith("realpath") for q in ast.walk(y)):
                        bad = y
                        break
                    if isinstance(y, ast.Name) and y.id not in seen and y.id not in f.params:
                        seen.add(y.id)
                        exprs += [a.value for a in own_nodes(f.node) if isinstance(a, ast.Assign) and any(isinstance(t, ast.Name) and t.id == y.id for t in a.targets)]
            ctx.check("R7", f"{f.local}: the base directory given to `{norm(c)[:50]}` is the directory of the path as given", bad is None, f, bad if bad is not None else c,
                      f"the base directory is computed through `{norm(bad)[:60] if bad is not None else ''}`, which rewrites the path lexically: `link/..` is collapsed without following the "
                      "symbolic link, so the external tensors of a model opened through such a spelling get another directory than the model's own as their base - reads return the "
                      "bytes of a same-named file there and the containment checks pass against the wrong directory",
                      how="provenance of the directory argument of set_base_dir through locals × os.path.abspath / normpath not applied to a realpath",
                      construct="base directory from a lexically normalised path")
    ctx.require(n >= 1, "no call of set_base_dir found in the I/O module")


def rule_r8(ctx):
    m = ctx.repo.module("onnx_ir._io")
    n = 0
    for f in ctx.repo.live(m.all_funcs):
        if isinstance(f.node, ast.Lambda):
            continue
        if not any(isinstance(c, ast.Call) and (dotted_of(c.func) or "").endswith("set_base_dir") for c in own_nodes(f.node)):
            continue
        floops = [x for x in own_nodes(f.node) if isinstance(x, ast.For) and isinstance(x.target, ast.Name)
                  and any(isinstance(y, ast.Attribute) and y.attr == "functions" for y in ast.walk(x.iter))]
        if not floops and not any(isinstance(y, ast.Attribute) and y.attr == "functions" for y in own_nodes(f.node)):
            continue
        n += 1
        if not floops:
            ctx.check("R8", f"{f.local}: a loop over the model's functions gives the attribute defaults their base directory", False, f, f.node,
                      "the loader never walks the model's functions themselves: an external tensor that is the default value of a function attribute keeps base_dir ''",
                      how="loop over <model>.functions that reads <function>.attributes and assigns base_dir", construct="function attribute defaults keep an empty base directory")
            continue
        # one of the loops over the functions takes care of the attribute defaults
        best = None
        for lp in floops:
            fn = lp.target.id
            reads = [y for y in ast.walk(lp) if isinstance(y, ast.Attribute) and y.attr in ("attributes", "_attributes") and isinstance(y.value, ast.Name) and y.value.id == fn]
            sets = [a for a in ast.walk(lp) if isinstance(a, ast.Assign) and any(isinstance(t, ast.Attribute) and t.attr == "base_dir" for t in a.targets)]
            handed = [c for c in ast.walk(lp) if isinstance(c, ast.Call) and not (dotted_of(c.func) or "").endswith("set_base_dir") and any(
                isinstance(y, ast.Attribute) and y.attr in ("attributes", "_attributes") for a_ in c.args for y in ast.walk(a_))]
            if reads and (sets or handed):
                best = lp
        lp = floops[0]
        ctx.check("R8", f"{f.local}: a loop over the model's functions gives the attribute defaults their base directory", best is not None, f, lp,
                  f"the loop `for {lp.target.id} in {norm(lp.iter)[:40]}` sets the base directory on the tensors of the function bodies only: an external tensor that is the default value of a "
                  "function attribute keeps base_dir '' - the containment check returns early for it, and numpy() / tobytes() / tofile() read `../x`, absolute paths and links "
                  "leading out of the model's directory",
                  how="loops over <model>.functions in the loader: one of them reads <function>.attributes and assigns base_dir (or hands the attributes to a helper)",
                  construct="function attribute defaults keep an empty base directory")
    ctx.require(n >= 1, "no loop over the model's functions that sets base directories found in the I/O module")


def run(ctx):
    rule_r8(ctx)
    rule_r7(ctx)
    rule_r6(ctx)
    rule_r5(ctx)
    rule_r1(ctx)
    rule_r2(ctx)
    rule_r3(ctx)
    rule_r4(ctx)
