"""C07 — external-data save/load preserves every initializer; layout is well formed."""

from __future__ import annotations

import ast

from ..cfg import CFG
from ..effects import Effects
from ..facts import calls_in
from ..index import FuncInfo, dotted_of, norm, own_nodes, short
from ..shared import s1_sites
from . import c04

PROPERTY = "C07"
RULES = {
    "R1": "model-unchanged protocol of save()/save_safetensors(): the tensors are snapshot before the first write to "
    "the model, every write to model objects happens inside the try, and the finally restores every Value/Node/Graph "
    "field the try body can write"
    " ; the snapshot keeps one entry per initializer Value (a sequence, or a mapping keyed by the Value itself - never by a per-graph name)",
    "R2": "subgraph coverage: every save/unload/load routine collects initializers from model.graphs(), never from "
    "model.graph.initializers alone; tensor walks treat GRAPH and GRAPHS alike (S1)",
    "R3": "safetensors tables: for every IR dtype in the write table the header code of its dtype string maps back "
    "to the same IR dtype or the dtype is re-typed by _migrate_tensor_shape_dtype; every sub-byte dtype is re-typed",
    "R4": "a packed external initializer of every sub-byte width can be read back (C04-R4 packing factor under the "
    "ExternalTensor guard)",
    "R5": "running offset: the position of the next tensor is advanced from the aligned offset of the current one "
    "plus its length, never from the pre-alignment value",
    "R6": "option forwarding: when a function of the external-data save path calls a package function that has an "
    "optional parameter of the same name as one of its own parameters (alignment, align_threshold, size threshold, shard "
    "limit, callback, worker counts ...), the call binds it - otherwise the callee silently runs with its default and the "
    "two stages disagree about the on-disk layout (planner vs writer)",
    "R7": "read before overwrite (shared with C08-R5): already-external tensors that stay inline (at or below the size "
    "threshold) are loaded into memory before the data file they live in can be replaced by the write - afterwards "
    "their offsets would be read from the new file and yield another tensor's bytes",
    "R8": "completion order never becomes data order: results of concurrently submitted work are gathered by iterating the "
    "list of futures in submission order; a loop over concurrent.futures.as_completed(...) / wait(...) only surfaces "
    "exceptions (`future.result()` as a statement) - the external tensors are paired with the initializers position by "
    "position, so results gathered in completion order attach one initializer's name to another's dtype, shape and bytes",
    "R9": "one key for writing and reading back: the safetensors writer keys its entries by `<tensor>.name` and the replacement step "
    "finds the initializer by `<value>.name`; where the writer's key comes from a tensor bound to `<value>.const_value`, the "
    "tensor's name is first aligned with the value's name in the same loop (or the key is the value's name itself) - otherwise an "
    "initializer whose tensor is named differently is written under a key nothing reads back",
    "R10": "no way around the externalisation step: in save(), every path from the entry of the `external_data is not None` "
    "branch to a normal exit passes the call of unload_from_model - the one step that decides, for every initializer and "
    "whatever its current storage, whether it is written to the data file or made inline; a fast path that serializes the "
    "model as it is (`nothing is large enough`) leaves already-external small initializers external, pointing into the old "
    "location",
    "R11": "an empty shard is told by its tensor list: in every shard planner (a loop that appends tensors to the last list of a "
    "list of lists and opens a new list when the limit would be exceeded), the test that opens a new shard asks whether the "
    "current shard holds a tensor (`shards[-1]`, `len(shards[-1])`), never whether a byte counter is positive - zero-size tensors "
    "leave the counter at 0, so an oversized tensor would join them and the shard would exceed the limit while holding several tensors",
    "R12": "each file gets its own tensors (shared rule S5, extended to consumer calls): in the save path, a local collection that is "
    "grown inside the per-shard loop and handed to a writer call (or stored) once per iteration is created inside that loop - "
    "created before it, shard k is written with the tensors of shards 1..k: tensors stored in several files, shards far over "
    "the limit holding many tensors, and every loaded tensor pointing at the last shard",
    "R13": "what belongs to a position is not keyed by identity (shared rule S16): in the writers, a table keyed by `id(<tensor>)` holds "
    "what belongs to the object (its write lock) - never the byte range, offset or index of the position the loop is at: one tensor "
    "object may back several initializers (tied weights), the table then keeps the last position's data and every occurrence is "
    "written there, leaving the earlier ranges as holes (zeros after reload)",
    "R14": "what is loaded back is read where it was written (rule shared with C04-R9): every position at which ExternalTensor indexes its "
    "mapping of the data file - the frombuffer offset of numpy(), the slice of tobytes() - is taken in the mapping's own coordinate system; "
    "a mapping that starts at a page boundary below the tensor while tobytes() still slices with the absolute file offset returns no or "
    "wrong bytes for every initializer beyond the first page, although the file is right",
    "R15": "the threshold is exclusive in every backend: wherever the save path compares a tensor's size with the `size_threshold_bytes` "
    "parameter, the comparison is strict on the external side (`nbytes > threshold` selects external, `nbytes <= threshold` keeps inline): "
    "tensors *above* the threshold become external and the others - one of exactly the threshold size included - stay inline; `>=` / "
    "`<` moves that tensor to the data file (an already-external tensor of that size is re-externalised instead of coming back inline, "
    "a zero-size tensor with threshold 0 becomes a zero-length external tensor)",
    "R16": "whether a destination exists is asked of the file system, path by path: a function of the save path that raises FileExistsError "
    "decides it from `os.path.exists` / `lexists` / `isfile` (or a stat) of the full destination path - not from membership in a "
    "directory listing (`os.listdir`, `os.scandir`, `glob`): a shard path with a directory part (`weights/model-00001-of-00002.data`) "
    "is never an entry of the listing of the base directory, so existing shards in a sub-directory go unnoticed and an in-place re-save "
    "overwrites a file that an external tensor planned for a later shard still reads - its bytes come back wrong",
}
FLOORS = {"R1": 4, "R2": 4, "R3": 20, "R4": 1, "R5": 3, "R6": 25, "R7": 1, "R8": 2, "R9": 1, "R10": 1, "R11": 2, "R12": 3, "R13": 1, "R14": 2, "R15": 2, "R16": 1}
EXPLANATION = (
    "Class-qualified effect summaries of the try bodies and finally blocks of the two save entry points; data-flow "
    "checks on the initializer collection loops and on the offset accumulators; table agreement between the "
    "safetensors write table, the format's header codes and the read table."
)
NOT_DECIDED = (
    "byte equality after reload; range arithmetic (order, non-overlap, alignment, shard sizes) beyond the offset "
    "accumulator's data flow — value properties of _align_offset/_shard_tensors"
)
ASSUMPTIONS = ["safetensors header codes as published in the format specification (18-entry table in this module)"]

# dtype string accepted by safetensors.serialize_file -> header code written into the file
ST_HEADER = {
    "bool": "BOOL", "float4_e2m1fn_x2": "F4", "float8_e5m2": "F8_E5M2", "float8_e4m3fn": "F8_E4M3",
    "float8_e8m0": "F8_E8M0", "bfloat16": "BF16", "float16": "F16", "float32": "F32", "float64": "F64",
    "int8": "I8", "int16": "I16", "int32": "I32", "int64": "I64", "uint8": "U8", "uint16": "U16",
    "uint32": "U32", "uint64": "U64", "complex64": "C64",
}  # fmt: skip
STRUCT_CLASSES = ("Value", "Node", "Graph", "Model", "Function", "GraphInputs", "GraphOutputs", "GraphInitializers",
                  "_GraphIO", "Attributes", "DoublyLinkedSet", "_LinkBox")  # fmt: skip


def _struct(q: str) -> bool:
    cls = q.split(".")[0]
    return any(c in STRUCT_CLASSES for c in cls.split("|"))


def _lossy_snapshot(stmts, name: str):
    """The statement that makes `name` a keyed collection whose key is not the collected element itself, or None."""

    def elem_vars(scope):
        out = set()
        for n in ast.walk(scope):
            if isinstance(n, (ast.For, ast.comprehension)) and isinstance(n.target, ast.Name):
                out.add(n.target.id)
        return out

    def key_is_elem(k, scope):
        if isinstance(k, ast.Name) and k.id in elem_vars(scope):
            return True
        return isinstance(k, ast.Call) and dotted_of(k.func) == "id"

    for s in stmts:
        for n in ast.walk(s):
            if isinstance(n, (ast.Assign, ast.AnnAssign)):
                tg = n.targets if isinstance(n, ast.Assign) else [n.target]
                v = n.value
                for t in tg:
                    if isinstance(t, ast.Name) and t.id == name and v is not None:
                        if isinstance(v, ast.DictComp) and not key_is_elem(v.key, v):
                            return n
                        if isinstance(v, ast.Call) and dotted_of(v.func) == "dict" and (v.args or v.keywords):
                            return n
                    if isinstance(t, ast.Subscript) and isinstance(t.value, ast.Name) and t.value.id == name and not isinstance(t.slice, ast.Slice):
                        # name[key] = …  on a dict-like snapshot
                        if _is_keyed(stmts, name) and not key_is_elem(t.slice, s):
                            return n
            if isinstance(n, ast.Call) and isinstance(n.func, ast.Attribute) and isinstance(n.func.value, ast.Name) and n.func.value.id == name:
                if n.func.attr in ("update", "setdefault") and _is_keyed(stmts, name):
                    return n
    return None


def _is_keyed(stmts, name: str) -> bool:
    for s in stmts:
        for n in ast.walk(s):
            if isinstance(n, (ast.Assign, ast.AnnAssign)):
                tg = n.targets if isinstance(n, ast.Assign) else [n.target]
                if any(isinstance(t, ast.Name) and t.id == name for t in tg):
                    v = n.value
                    if isinstance(v, (ast.Dict, ast.DictComp)) or (isinstance(v, ast.Call) and dotted_of(v.func) in ("dict", "collections.OrderedDict", "OrderedDict")):
                        return True
                    if isinstance(n, ast.AnnAssign) and norm(n.annotation).lower().startswith(("dict", "mapping", "mutablemapping")):
                        return True
    return False


def rule_r1(ctx, ef: Effects):
    for key in ("onnx_ir._io:save", "onnx_ir._safetensors:save_safetensors"):
        f = ctx.repo.func(key)
        cfg, per = ef.events(f)
        trys = [n for n in own_nodes(f.node) if isinstance(n, ast.Try) and n.finalbody]
        ctx.require(len(trys) == 1, f"{key}: protecting try/finally not found")
        tr = trys[0]

        def qf(stmts):
            ids = {id(x) for s in stmts for x in ast.walk(s)}
            out = set()
            for n in cfg.nodes:
                if (n.ast is not None and id(n.ast) in ids) or any(id(e) in ids for e in n.exprs()):
                    for e in per.get(n.id, ()):
                        if e.kind == "M" and (e.tags - {None}):
                            out |= {q for q in e.qfields if _struct(q)}
            return out

        in_try = qf(tr.body)
        in_fin = qf(tr.finalbody)
        ctx.tables[f"{f.local}:try_writes"] = sorted(in_try)
        ctx.tables[f"{f.local}:finally_restores"] = sorted(in_fin)
        ctx.require(bool(in_try), f"{key}: the try body writes no model field (summary lost?)")
        for q in sorted(in_try):
            ctx.check("R1", f"{f.local}: {q} written in the try is restored in the finally", q in in_fin, f, tr,
                      f"the save path can write {q} but the finally does not restore it: after save() the model holds "
                      "different objects than before",
                      how="class-qualified effect summary of try body ⊆ finally", construct=f"unrestored {q}")
        # every write to model objects happens inside the try
        all_ids = {id(x) for x in ast.walk(tr)}
        outside = []
        for n in cfg.nodes:
            a = n.ast
            if a is None or id(a) in all_ids or any(id(e) in all_ids for e in n.exprs()):
                continue
            for e in per.get(n.id, ()):
                if e.kind == "M" and any(_struct(q) for q in e.qfields) and (e.tags - {None}):
                    # the other branch (no external data) only serializes
                    outside.append((n, e))
        ctx.check("R1", f"{f.local}: no model write outside the try/finally", not outside, f, outside[0][0].ast if outside else tr,
                  f"model state is written outside the protecting try: {outside[0][1].desc if outside else ''}",
                  how="M events on structural IR classes located outside the try statement")
        # snapshot precedes the try and is what the finally iterates
        used = {x.id for s in tr.finalbody for x in ast.walk(s) if isinstance(x, ast.Name) and isinstance(x.ctx, ast.Load)}
        blk = getattr(tr, "_parent", None)
        body = blk.body if tr in getattr(blk, "body", []) else blk.orelse
        before = {t.id for s in body[: body.index(tr)] for a in ast.walk(s) if isinstance(a, (ast.Assign, ast.AnnAssign))
                  for t in (a.targets if isinstance(a, ast.Assign) else [a.target]) if isinstance(t, ast.Name)}
        snap = [n for n in used & before]
        reads_const = any("const_value" in norm(s) for s in body[: body.index(tr)])
        ctx.check("R1", f"{f.local}: snapshot {sorted(snap)} taken before the try", bool(snap) and reads_const, f, tr,
                  "the finally restores from data that was not captured before the try", how="names read by the finally are bound before the try from const_value")
        # the snapshot keeps one entry per initializer Value: a sequence, or a collection keyed by the Value itself
        for name in sorted(snap):
            lossy = _lossy_snapshot(body[: body.index(tr)], name)
            ctx.check("R1", f"{f.local}: snapshot `{name}` keeps one entry per initializer", lossy is None, f, lossy or tr,
                      f"the snapshot `{name}` is a collection keyed by something other than the Value object "
                      f"(`{norm(lossy) if lossy is not None else ''}`): initializer names are scoped per graph, so two graphs' "
                      "same-named initializers collapse into one entry and the other keeps the tensor written by the save path",
                      how="binding and growth operations of the snapshot before the try classified (sequence / keyed by element / keyed by other)")
        # the finally cannot be skipped: it restores unconditionally in a loop over the snapshot
        fin_loops = [s for s in tr.finalbody if isinstance(s, ast.For)]
        ok = bool(fin_loops) and not any(isinstance(x, (ast.If, ast.Try, ast.Return, ast.Break)) for s in tr.finalbody for x in ast.walk(s))
        ctx.check("R1", f"{f.local}: finally restores every snapshot pair unconditionally", ok, f, tr,
                  "restoration is conditional or can stop early", how="finalbody is a plain loop", nontrivial=False)


def rule_r2(ctx):
    repo = ctx.repo
    for key in ("onnx_ir._io:save", "onnx_ir.external_data:unload_from_model", "onnx_ir.external_data:load_to_model",
                "onnx_ir._safetensors:save_safetensors"):  # fmt: skip
        f0 = repo.func(key)
        # the function itself and the private helpers of its module that it calls (a generator over the initialized values)
        hosts = [f0] + [g for c in calls_in(f0) for g in [f0.module.functions.get(dotted_of(c.func) or "")]
                        if g is not None and g.name.startswith("_") and not isinstance(g.node, ast.Lambda)]
        sites = [(h, n) for h in hosts for n in own_nodes(h.node) if isinstance(n, ast.Attribute) and n.attr == "initializers"]
        ctx.require(bool(sites), f"{key}: does not read .initializers")
        for f, n in sites:
            recv = n.value
            ok = False
            if isinstance(recv, ast.Name):
                # the receiver is the loop variable of `for <g> in <model>.graphs()`
                p = getattr(n, "_parent", None)
                while p is not None and p is not f.node:
                    if isinstance(p, ast.For) and isinstance(p.target, ast.Name) and p.target.id == recv.id:
                        it = p.iter
                        ok = isinstance(it, ast.Call) and isinstance(it.func, ast.Attribute) and it.func.attr == "graphs"
                    # … or of a comprehension `… for <g> in <model>.graphs() for v in <g>.initializers.values()`
                    if isinstance(p, (ast.ListComp, ast.SetComp, ast.GeneratorExp, ast.DictComp)):
                        for gen_ in p.generators:
                            if isinstance(gen_.target, ast.Name) and gen_.target.id == recv.id:
                                it = gen_.iter
                                ok = isinstance(it, ast.Call) and isinstance(it.func, ast.Attribute) and it.func.attr == "graphs"
                    p = getattr(p, "_parent", None)
            ctx.check("R2", f"{f.local}: {norm(n)} iterates model.graphs()", ok, f, n,
                      "initializers are collected from one graph only: initializers of subgraphs are not saved/unloaded/restored",
                      how="receiver is the loop variable of `for g in model.graphs()`")
    n = 0
    for f, node, ok, detail, label in s1_sites(repo, {"onnx_ir.external_data"}):
        n += 1
        ctx.check("R2", f"S1 {f.local}: {label}"[:150], ok, f, node, detail, how="GRAPH/GRAPHS sibling agreement", construct=f"S1 {label}")
    ctx.require(n >= 1, "no GRAPH/GRAPHS dispatch found in external_data")


def rule_r3(ctx):
    repo = ctx.repo
    m = repo.module("onnx_ir._safetensors")
    rd, wr = m.assigns.get("_SAFETENSORS_DTYPE_TO_IR_DTYPE"), m.assigns.get("_IR_DTYPE_TO_SAFETENSORS_DTYPE")
    ctx.require(isinstance(rd, ast.Dict) and isinstance(wr, ast.Dict), "safetensors dtype tables not found")
    read = {k.value: c04._dt(v) for k, v in zip(rd.keys, rd.values) if isinstance(k, ast.Constant)}
    write = {c04._dt(k): v.value for k, v in zip(wr.keys, wr.values) if isinstance(v, ast.Constant)}
    mig = repo.func("onnx_ir._safetensors:_migrate_tensor_shape_dtype")
    migs = None
    for n in own_nodes(mig.node):
        if isinstance(n, ast.Compare) and isinstance(n.ops[0], ast.In):
            migs = c04._dt_set(n.comparators[0])
    ctx.require(migs is not None, "_migrate_tensor_shape_dtype: dtype set not recognised")
    ctx.tables["safetensors_migrated"] = sorted(migs)
    bw = ctx._shared.get("bw")
    if bw is None:
        d = c04._dict_literal(ctx, c04.EN, "_BITWIDTH_MAP")
        bw = {c04._dt(k): v.value for k, v in zip(d.keys, d.values) if c04._dt(k)}
    for d, sname in sorted(write.items()):
        code = ST_HEADER.get(sname)
        ok = code is not None
        ctx.check("R3", f"write {d} → {sname!r}: known safetensors dtype", ok, m, wr,
                  f"{sname!r} is not a safetensors dtype string", how="18-entry format table", nontrivial=False,
                  symbol="onnx_ir._safetensors:_IR_DTYPE_TO_SAFETENSORS_DTYPE", construct=f"unknown dtype string {sname}")
        if not ok:
            continue
        back = read.get(code)
        ok = back == d or d in migs
        ctx.check("R3", f"{d} → {sname!r} → header {code} → {back}", ok, m, wr,
                  f"{d} is written as {sname!r} (header {code}) which reads back as {back}, and {d} is not re-typed by "
                  "_migrate_tensor_shape_dtype: the reloaded initializer has the wrong dtype",
                  how="write table ∘ format header ∘ read table = identity, or dtype in the migrate set",
                  symbol="onnx_ir._safetensors:_IR_DTYPE_TO_SAFETENSORS_DTYPE", construct=f"{d}->{sname}->{code}->{back}")
        if bw.get(d, 8) < 8:
            ctx.check("R3", f"sub-byte {d} is re-typed/re-shaped on load", d in migs, mig, mig.node,
                      f"{d} is stored with shape [nbytes] but not restored to its logical shape/dtype on load",
                      how="bit width < 8 ⇒ member of the migrate set", construct=f"sub-byte {d} not migrated")
        if back is not None and back != d and sname == "uint8":
            # stored as raw bytes: element size must be one byte or packed
            ctx.check("R3", f"{d} stored as uint8 has ≤ 8 bits", bw.get(d, 99) <= 8, m, wr,
                      f"{d} ({bw.get(d)} bits) cannot be stored as uint8", how="bit width", nontrivial=False,
                      symbol="onnx_ir._safetensors:_IR_DTYPE_TO_SAFETENSORS_DTYPE", construct=f"{d} as uint8")
    # storage shape helper agrees with the migrate set
    g = repo.func("onnx_ir._safetensors:_get_tensor_storage_shape")
    ok = any(isinstance(n, ast.If) and norm(n.test) in ("tensor.dtype.bitwidth < 8",) and "nbytes" in norm(n.body[0]) for n in own_nodes(g.node))
    ctx.check("R3", "_get_tensor_storage_shape flattens exactly the sub-byte dtypes to [nbytes]", ok, g, g.node,
              "storage shape of packed dtypes is not [nbytes]", how="guard bitwidth < 8", nontrivial=False)


def rule_r5(ctx):
    repo = ctx.repo
    f = repo.func("onnx_ir.external_data:convert_tensors_to_external")
    loop = [n for n in own_nodes(f.node) if isinstance(n, ast.For) and any(
        isinstance(c, ast.Call) and dotted_of(c.func) == "_compute_external_data_info" for c in ast.walk(n))]
    ctx.require(len(loop) == 1, "convert_tensors_to_external: offset loop not found")
    info = [a for a in ast.walk(loop[0]) if isinstance(a, ast.Assign) and isinstance(a.value, ast.Call)
            and dotted_of(a.value.func) == "_compute_external_data_info"][0]
    ivar = norm(info.targets[0])
    acc = norm(info.value.args[1]) if len(info.value.args) > 1 else None
    ctx.require(acc is not None, "accumulator argument not found")
    upd = [a for a in ast.walk(loop[0]) if isinstance(a, ast.Assign) and norm(a.targets[0]) == acc]
    ok = len(upd) == 1 and norm(upd[0].value) in (f"{ivar}.offset + {ivar}.length", f"{ivar}.length + {ivar}.offset")
    ctx.check("R5", f"convert_tensors_to_external: {acc} = {norm(upd[0].value) if upd else '?'}", ok, f, upd[0] if upd else loop[0],
              "the next tensor's position is not `aligned offset of this tensor + its length`: with alignment enabled "
              "consecutive ranges overlap or drift",
              how="accumulator assigned from the info record's own offset and length")
    g = repo.func("onnx_ir.external_data:_compute_external_data_info")
    al = [a for a in own_nodes(g.node) if isinstance(a, ast.Assign) and isinstance(a.value, ast.Call) and dotted_of(a.value.func) == "_align_offset"]
    ctor = [c for c in calls_in(g) if dotted_of(c.func) == "_ExternalDataInfo"]
    ok = len(al) == 1 and len(ctor) == 1 and len(ctor[0].args) >= 3 and norm(ctor[0].args[1]) == norm(al[0].targets[0])
    if ok:
        cfg = CFG(g.node)
        ok = cfg.dominates(cfg.node_of(al[0])[0], cfg.nodes_containing(ctor[0])[0])
        ok = ok and _from_nbytes(g, ctor[0].args[2]) and _from_nbytes(g, al[0].value.args[1])
    ctx.check("R5", "_compute_external_data_info records the aligned offset and the tensor's nbytes", ok, g, g.node,
              "the recorded offset is not the result of _align_offset, or the length is not the tensor's byte size",
              how="data flow _align_offset → _ExternalDataInfo.offset; length = nbytes")
    h = repo.func("onnx_ir.external_data:_shard_tensors")
    al = [a for a in own_nodes(h.node) if isinstance(a, ast.Assign) and isinstance(a.targets[0], ast.Name) and isinstance(a.value, ast.Call)
          and dotted_of(a.value.func) == "_align_offset"]
    ok = len(al) == 1
    upd = []
    if ok:
        aligned = al[0].targets[0].id
        # the running size: the one variable advanced from the aligned offset plus the tensor's byte size
        upd = [a for a in own_nodes(h.node) if isinstance(a, ast.Assign) and isinstance(a.targets[0], ast.Name) and a.targets[0].id != aligned
               and isinstance(a.value, ast.BinOp) and isinstance(a.value.op, ast.Add)
               and any(isinstance(x, ast.Name) and x.id == aligned for x in ast.walk(a.value))
               and any(isinstance(x, ast.Attribute) and x.attr == "nbytes" for x in ast.walk(a.value))]
        ok = len(upd) == 1
        if ok:
            acc = upd[0].targets[0].id
            first = al[0].value.args[0] if al[0].value.args else None
            srcs = {acc}
            for a in own_nodes(h.node):
                if isinstance(a, ast.Assign) and isinstance(a.targets[0], ast.Name) and isinstance(a.value, ast.Name) and a.value.id == acc:
                    srcs.add(a.targets[0].id)
            ok = isinstance(first, ast.Name) and first.id in srcs
    ctx.check("R5", "_shard_tensors: the shard size advances from the aligned offset", ok, h, upd[0] if upd else h.node,
              "the shard size accumulator ignores alignment padding: a shard can exceed the limit with several tensors",
              how="accumulator = aligned offset + nbytes; the alignment starts from the accumulator")
    a = repo.func("onnx_ir.external_data:_align_offset")
    rets = [r for r in own_nodes(a.node) if isinstance(r, ast.Return)]
    x = a.params[0]
    ok = bool(rets) and all((isinstance(r.value, ast.Name) and r.value.id == x) or _is_ceil_multiple(a, r.value, x) for r in rets) \
        and any(_is_ceil_multiple(a, r.value, x) for r in rets)
    ctx.check("R5", "_align_offset rounds up to a multiple of the factor (or returns the offset unchanged)", ok, a, a.node,
              "the aligned offset can be smaller than the running offset (overlap) or not a multiple of the factor",
              how="return expressions: the offset itself or a ceil-to-multiple form of it")


def _from_nbytes(f, e) -> bool:
    """e is <x>.nbytes or a local assigned from it."""
    if isinstance(e, ast.Attribute):
        return e.attr == "nbytes"
    if isinstance(e, ast.Name):
        defs = [a.value for a in own_nodes(f.node) if isinstance(a, ast.Assign) and any(isinstance(t, ast.Name) and t.id == e.id for t in a.targets)]
        return bool(defs) and all(isinstance(d, ast.Attribute) and d.attr == "nbytes" for d in defs)
    return False


def _is_ceil_multiple(f, e, x: str) -> bool:
    """e rounds the name x up to a multiple of some K:  (x + K - 1) // K * K,  -(-x // K) * K,  x + (-x % K),
    math.ceil(x / K) * K  (K any expression, the same in every position)."""
    t = norm(e).replace(" ", "")
    for n in ast.walk(e):
        if isinstance(n, (ast.Name, ast.Call, ast.Attribute)):
            k = norm(n).replace(" ", "")
            if k == x or not k:
                continue
            forms = (f"({x}+{k}-1)//{k}*{k}", f"({x}+({k}-1))//{k}*{k}", f"({k}+{x}-1)//{k}*{k}", f"-(-{x}//{k})*{k}", f"{x}+-{x}%{k}", f"{x}+(-{x}%{k})",
                     f"math.ceil({x}/{k})*{k}", f"{k}*(({x}+{k}-1)//{k})")
            if t in forms:
                return True
    return False


# (caller, callee) pairs that deliberately leave same-named options at their defaults - one reason each
FORWARD_EXEMPT = {
    ("onnx_ir._safetensors:save_safetensors", "onnx_ir._io:save"):
        "second stage: the tensors were already written to the safetensors file by _save_file; save() then writes the "
        "model proto only (external_data is not passed, so the size/shard/callback options are inert)",
}


def rule_r6(ctx):
    ty = ctx.typer
    n = 0
    for mn in ("onnx_ir.external_data", "onnx_ir._io", "onnx_ir._safetensors"):
        for f in ctx.repo.modules[mn].all_funcs:
            fp = set(f.params)
            for c in calls_in(f):
                if any(k.arg is None for k in c.keywords) or any(isinstance(a, ast.Starred) for a in c.args):
                    continue
                hits, _ = ty.callees(f, c, False)
                for g in hits:
                    if not g.key.startswith("onnx_ir") or isinstance(g.node, ast.Lambda):
                        continue
                    a = g.node.args
                    pos = a.posonlyargs + a.args
                    optional = [p.arg for p, d in zip(reversed(pos), reversed(a.defaults))] + [p.arg for p, d in zip(a.kwonlyargs, a.kw_defaults) if d is not None]
                    names = [x.arg for x in pos]
                    off = 1 if g.cls is not None and names and names[0] in ("self", "cls") and isinstance(c.func, ast.Attribute) else 0
                    bound = {k.arg for k in c.keywords if k.arg} | {names[i + off] for i in range(len(c.args)) if i + off < len(names)}
                    for p in optional:
                        if p not in fp:
                            continue
                        n += 1
                        why = FORWARD_EXEMPT.get((f.key, g.key))
                        if why and p not in bound:
                            ctx.ob("R6", f"{f.local} → {g.local}: `{p}` deliberately not forwarded", True, nontrivial=False, how=f"exempt: {why}")
                            continue
                        ctx.check("R6", f"{f.local} → {g.local}: option `{p}` is forwarded", p in bound, f, c,
                                  f"{f.local} takes `{p}` but calls {g.local} without it: the callee runs with its default for `{p}` while the "
                                  "rest of the save path uses the caller's value, so the two disagree (e.g. the shard planner estimates "
                                  "padding with one threshold and the writer pads with another: shards exceed the limit)",
                                  how="same-named optional parameter of the callee is bound at the call site", nontrivial=False,
                                  construct=f"{g.local}({p}) not forwarded")
    ctx.require(n >= 25, f"only {n} same-named option bindings examined")


def rule_r9(ctx):
    m = ctx.repo.modules.get("onnx_ir._safetensors")
    ctx.require(m is not None, "onnx_ir._safetensors not found")
    n = 0
    for f in m.all_funcs:
        if isinstance(f.node, ast.Lambda):
            continue
        # writer keys: <table>[<X>.name] = {...}, or <table>[<k>] = {...} with k bound once to <X>.name
        binds: dict[str, list] = {}
        for a_ in own_nodes(f.node):
            if isinstance(a_, ast.Assign) and len(a_.targets) == 1 and isinstance(a_.targets[0], ast.Name):
                binds.setdefault(a_.targets[0].id, []).append(a_.value)
        keys = []
        for a_ in own_nodes(f.node):
            if not (isinstance(a_, ast.Assign) and isinstance(a_.value, ast.Dict)):
                continue
            for t in a_.targets:
                if not isinstance(t, ast.Subscript):
                    continue
                k = t.slice
                if isinstance(k, ast.Name) and len(binds.get(k.id, [])) == 1:
                    k = binds[k.id][0]
                if isinstance(k, ast.Attribute) and k.attr == "name":
                    keys.append((t, k))
        if not keys:
            continue
        for t, k in keys:
            n += 1
            # the entry is named after the initializer (a Value), never after the tensor object: one tensor can back several
            # initializers and has a single name of its own, so entries keyed by it collapse into one
            try:
                tys = ctx.typer.type_of(f, k.value)
            except Exception:
                tys = frozenset()
            is_value = any(x[0] == "cls" and getattr(x[1], "name", "") == "Value" for x in tys)
            ctx.check("R9", f"{f.local}: entries are keyed by the name of the initializer (`{norm(k)[:40]}`)", is_value, f, t,
                      f"the file entry is keyed by `{norm(k)[:50]}` - the tensor object's own name - while the replacement step looks initializers up by the value's name: "
                      "a tensor object that backs two initializers (tied weights) is written under one key, so only one of them comes back external (the other stays inline "
                      "whatever the threshold), and a tensor that carries another name than its value is written under a key nothing maps back",
                      how="key expression of the write table (through a local bound once) is `<x>.name` with x typed as a Value",
                      construct="safetensors entries keyed by the tensor's own name")
    ctx.require(n >= 1, "the safetensors write table (entries keyed by a name) was not found")


def rule_r8(ctx):
    n = 0
    for mn in ("onnx_ir.external_data", "onnx_ir._safetensors", "onnx_ir._io"):
        m = ctx.repo.modules.get(mn)
        if m is None:
            continue
        for f in m.all_funcs:
            if isinstance(f.node, ast.Lambda):
                continue
            for lp in own_nodes(f.node):
                if not isinstance(lp, ast.For):
                    continue
                unordered = [c for c in ast.walk(lp.iter) if isinstance(c, ast.Call) and (dotted_of(c.func) or "").split(".")[-1] in ("as_completed", "wait")]
                tvars = {x.id for x in ast.walk(lp.target) if isinstance(x, ast.Name)}
                results = [c for b in lp.body for c in ast.walk(b) if isinstance(c, ast.Call) and isinstance(c.func, ast.Attribute) and c.func.attr == "result"
                           and isinstance(c.func.value, ast.Name) and c.func.value.id in tvars]
                if not results:
                    continue
                n += 1
                used = [c for c in results if not isinstance(getattr(c, "_parent", None), ast.Expr)]
                if unordered:
                    ctx.check("R8", f"{f.local}: loop over {short(norm(lp.iter))} only surfaces exceptions", not used, f, used[0] if used else lp,
                              f"the value of `{norm(used[0]) if used else ''}` is used inside a loop over `{norm(lp.iter)}`, which yields futures in completion "
                              "order: the gathered sequence no longer follows the order in which the work was submitted, while its consumer pairs it "
                              "position by position with the initializers",
                              how="loops over as_completed()/wait(): result() may only be an expression statement",
                              construct=f"result of {short(norm(lp.iter))} used")
                else:
                    ctx.ob("R8", f"{f.local}: results gathered by iterating `{short(norm(lp.iter))}` (submission order)", True,
                           how="the loop iterates the list of futures itself")
    ctx.require(n >= 2, f"only {n} loops gathering future results found")


def rule_r10(ctx):
    f = ctx.repo.func("onnx_ir._io:save")
    ctx.require("external_data" in f.params, "save(): external_data parameter not found")
    cfg = CFG(f.node)
    # the arm of `if external_data is (not) None` that handles the external-data case, whichever way round the test is written

    def has_unload(stmts):
        return any(isinstance(c, ast.Call) and (dotted_of(c.func) or "").endswith("unload_from_model") for st in stmts for c in ast.walk(st))

    class _Arm:
        def __init__(self, node, body):
            self.node, self.body = node, body
            self.lineno, self.col_offset = node.lineno, node.col_offset

    branch = []
    for n in own_nodes(f.node):
        if isinstance(n, ast.If) and any(isinstance(x, ast.Name) and x.id == "external_data" for x in ast.walk(n.test)) \
                and any(isinstance(x, ast.Constant) and x.value is None for x in ast.walk(n.test)):
            arm = n.body if has_unload(n.body) else (n.orelse if has_unload(n.orelse) else None)
            if arm:
                branch.append(_Arm(n, arm))
    ctx.require(len(branch) == 1, "save(): the external-data branch that calls unload_from_model was not found")
    calls = [c for st in branch[0].body for c in ast.walk(st) if isinstance(c, ast.Call) and (dotted_of(c.func) or "").endswith("unload_from_model")]
    via = {n.id for c in calls for n in cfg.nodes_containing(c)}
    start = cfg.node_of(branch[0].body[0])[0]
    ok = bool(via) and (start.id in via or cfg.all_paths_through(start, via, {cfg.exit.id}, exc=False))
    # which statement leaves early
    bad = None
    if not ok:
        for r in (x for st in branch[0].body for x in ast.walk(st) if isinstance(x, ast.Return)):
            rn = cfg.node_of(r)
            if rn and not cfg.all_paths_through(start, via, {rn[0].id}, exc=False):
                bad = r
                break
    ctx.check("R10", "save(): every normal exit of the external-data branch passes unload_from_model", ok, f, bad if bad is not None else branch[0].node,
              "save(external_data=…) can finish without calling unload_from_model: initializers that are already external and at or below "
              "the size threshold are then not loaded and stored inline but written with their old external reference, so after loading "
              "the saved model they are external (or unreadable, if the old data file is not next to the new model)",
              how="must-pass-through query on the CFG of save(): entry of the branch → normal exit, via the unload_from_model call",
              construct="exit of the external-data branch without unload_from_model")


def rule_r11(ctx):
    n = 0
    for m in ctx.repo.pkg_modules():
        for f in m.all_funcs:
            if isinstance(f.node, ast.Lambda):
                continue
            # planners: `<L>.append([])` and `<L>[-1].append(<t>)` on the same local inside a loop; the open shard may also be
            # held in a local (`cur = []; <L>.append(cur)` … `cur.append(<t>)`)
            opens = []
            for c in calls_in(f):
                if not (isinstance(c.func, ast.Attribute) and c.func.attr == "append" and isinstance(c.func.value, ast.Name) and len(c.args) == 1):
                    continue
                a0 = c.args[0]
                if isinstance(a0, ast.List) and not a0.elts:
                    opens.append((c, None))
                elif isinstance(a0, ast.Name):
                    blk = getattr(getattr(c, "_parent", None), "_parent", None)
                    fresh_here = any(isinstance(st, (ast.Assign, ast.AnnAssign)) and getattr(st, "value", None) is not None and isinstance(st.value, ast.List) and not st.value.elts
                                     and any(isinstance(t, ast.Name) and t.id == a0.id for t in (st.targets if isinstance(st, ast.Assign) else [st.target]))
                                     for st in getattr(blk, "body", []))
                    if fresh_here:
                        opens.append((c, a0.id))
            for oc, cur in opens:
                lst = oc.func.value.id
                current = {f"{lst}[-1]"} | ({cur} if cur else set())
                if not any(isinstance(c.func, ast.Attribute) and c.func.attr == "append" and norm(c.func.value) in current and c is not oc for c in calls_in(f)):
                    continue
                iff = getattr(getattr(oc, "_parent", None), "_parent", None)
                if not isinstance(iff, ast.If):
                    continue
                n += 1
                conj = iff.test.values if isinstance(iff.test, ast.BoolOp) else [iff.test]
                by_list = any(any((isinstance(x, ast.Name) and x.id == cur) or (isinstance(x, ast.Subscript) and norm(x) == f"{lst}[-1]") for x in ast.walk(t)) for t in conj)
                counters = {a.target.id for a in own_nodes(f.node) if isinstance(a, ast.AugAssign) and isinstance(a.target, ast.Name)}
                by_counter = [t for t in conj if (isinstance(t, ast.Name) and t.id in counters) or (
                    isinstance(t, ast.Compare) and len(t.ops) == 1 and isinstance(t.left, ast.Name) and t.left.id in counters
                    and isinstance(t.comparators[0], ast.Constant) and t.comparators[0].value == 0)]
                ctx.check("R11", f"{f.local}: a new shard is opened only when `{sorted(current)[0]}` holds a tensor", by_list and not by_counter, f, iff,
                          f"`{norm(iff.test)}` decides that the current shard is not empty from a byte counter: after zero-size tensors the counter is still 0, so a "
                          "tensor larger than the limit is appended to the same shard - a shard that exceeds the limit and holds more than one tensor",
                          how="conjuncts of the test guarding `<shards>.append([])`: list emptiness, not `<counter> > 0`",
                          construct="shard emptiness decided by a byte counter")
    ctx.require(n >= 2, f"only {n} shard planners found")


def rule_r12(ctx):
    from ..shared import leaked_iteration_collections

    n = 0
    for mn in ("onnx_ir.external_data", "onnx_ir._safetensors", "onnx_ir._io"):
        for f in ctx.repo.module(mn).all_funcs:
            if isinstance(f.node, ast.Lambda):
                continue
            loops = [x for x in own_nodes(f.node) if isinstance(x, (ast.For, ast.While))]
            n += len(loops)
            for name, lp, x in leaked_iteration_collections(f, calls=True):
                ctx.check("R12", f"{f.local}: `{name}` is created inside the loop that consumes it", False, f, x,
                          f"`{name}` grows inside the loop, is handed to `{norm(x)[:70]}` once per iteration, but is created before the loop: iteration k "
                          "passes on the entries of iterations 1..k - a shard file written with the tensors of all earlier shards",
                          how="S5: collections grown in a loop and consumed per iteration (store or call argument) are created in that loop",
                          construct=f"collection {name} outlives its iteration in {f.local}")
    for _ in range(n):
        ctx.counts["R12"] = ctx.counts.get("R12", 0) + 1
    ctx.ob("R12", f"{n} loops of the save path examined", True, nontrivial=False, how="S5")
    ctx.require(n >= 3, f"only {n} loops found in the save path")


def rule_r13(ctx):
    from ..shared import identity_keyed_positions

    n = 0
    mods = {m.name for m in ctx.repo.pkg_modules() if m.name in ("onnx_ir.external_data", "onnx_ir._io") or m.name.startswith("onnx_ir._safetensors")}
    for f, node, kv, sibs, ok in identity_keyed_positions(ctx.repo, mods):
        n += 1
        ctx.check("R13", f"S16 {f.local}: table keyed by id({kv}) holds per-object data", ok, f, node,
                  f"`{norm(node)[:80]}` stores {', '.join(sibs)} - what belongs to the position of `{kv}` in the sequence - under the identity of `{kv}`: when one tensor object "
                  "appears at two positions (one tensor backing two initializers) the table keeps the last position only, both occurrences are written to that byte range "
                  "and the earlier range is never written",
                  how="value of an id()-keyed table does not read the zip / enumerate siblings of the key variable", construct=f"position data {sibs} keyed by id({kv})")
    ctx.require(n >= 1, "no table keyed by id(<tensor>) found in the writers (the per-tensor lock table expected)")


def rule_r15(ctx):
    n = 0
    for m in ctx.repo.pkg_modules():
        if not (m.name in ("onnx_ir.external_data", "onnx_ir._io") or m.name.startswith("onnx_ir._safetensors")) or m.name.endswith("_test"):
            continue
        for f in ctx.repo.live(m.all_funcs):
            if isinstance(f.node, ast.Lambda) or "size_threshold_bytes" not in f.params:
                continue
            for c in own_nodes(f.node):
                if not (isinstance(c, ast.Compare) and len(c.ops) == 1 and isinstance(c.ops[0], (ast.Gt, ast.GtE, ast.Lt, ast.LtE))):
                    continue
                l, r = c.left, c.comparators[0]
                thr_right = isinstance(r, ast.Name) and r.id == "size_threshold_bytes"
                thr_left = isinstance(l, ast.Name) and l.id == "size_threshold_bytes"
                if not (thr_right or thr_left):
                    continue
                other = l if thr_right else r
                if not any(isinstance(x, ast.Attribute) and x.attr in ("nbytes", "size") or (isinstance(x, ast.Name) and "size" in x.id.lower()) for x in ast.walk(other)):
                    continue
                n += 1
                op = type(c.ops[0])
                strict = op in ((ast.Gt, ast.LtE) if thr_right else (ast.Lt, ast.GtE))
                ctx.check("R15", f"{f.local}: `{norm(c)}` keeps a tensor of exactly the threshold size inline", strict, f, c,
                          f"`{norm(c)}` puts a tensor whose size equals `size_threshold_bytes` on the external side: the contract of the save path is that tensors above the "
                          "threshold become external and the others stay inline - with the default threshold of 256 a 64-element float32 initializer moves to the data file, and the "
                          "raw and safetensors backends disagree about the same model",
                          how="comparisons of a tensor size with the size_threshold_bytes parameter in the save path: `>` / `<=` (threshold on the right) or `<` / `>=` (on the left)",
                          construct=f"threshold comparison {norm(c)}")
    ctx.require(n >= 2, f"only {n} comparisons with size_threshold_bytes found in the save path")


def rule_r16(ctx):
    n = 0
    for m in ctx.repo.pkg_modules():
        if not (m.name in ("onnx_ir.external_data", "onnx_ir._io") or m.name.startswith("onnx_ir._safetensors")) or m.name.endswith("_test"):
            continue
        for f in ctx.repo.live(m.all_funcs):
            if isinstance(f.node, ast.Lambda):
                continue
            raises = [r for r in own_nodes(f.node) if isinstance(r, ast.Raise) and r.exc is not None and "FileExistsError" in norm(r.exc)]
            if not raises:
                continue
            n += 1
            asks = [c for c in calls_in(f) if (dotted_of(c.func) or "") in ("os.path.exists", "os.path.lexists", "os.path.isfile", "os.stat", "os.lstat")
                    or (isinstance(c.func, ast.Attribute) and c.func.attr in ("exists", "is_file"))]
            lists = [c for c in calls_in(f) if (dotted_of(c.func) or "") in ("os.listdir", "os.scandir", "glob.glob", "glob.iglob") or (isinstance(c.func, ast.Attribute) and c.func.attr in ("iterdir", "glob"))]
            ok = bool(asks) and not lists
            ctx.check("R16", f"{f.local}: the collision test asks the file system about each destination path", ok, f, (lists or raises)[0],
                      f"{f.local} decides that a destination exists from `{norm(lists[0])[:50] if lists else 'no existence test'}`: a listing of one directory does not contain the shard paths that have a "
                      "directory part, so files that exist there are not noticed and are overwritten while tensors of the model still read from them",
                      how="functions of the save path that raise FileExistsError: os.path.exists / lexists / isfile / stat present, no directory listing",
                      construct="existence decided from a directory listing")
    ctx.require(n >= 1, "no function raising FileExistsError found in the save path")


def run(ctx):
    rule_r16(ctx)
    rule_r15(ctx)
    c04.rule_r9(ctx, rule="R14", consequence="; an external initializer loaded back from the data file then differs from the one that was saved")
    rule_r13(ctx)
    rule_r12(ctx)
    rule_r11(ctx)
    rule_r10(ctx)
    rule_r9(ctx)
    rule_r8(ctx)
    ef = ctx._shared.get("effects")
    if ef is None:
        ef = ctx._shared["effects"] = Effects(ctx.repo, ctx.typer, tier4=(ctx.tier == "thorough"))
    ef.compute()
    rule_r1(ctx, ef)
    rule_r2(ctx)
    rule_r3(ctx)
    rule_r6(ctx)
    from . import c08

    c08.rule_r5(ctx, rule="R7")
    # R4: reuse C04's packing-factor rule (needs the bit-width table)
    d = c04._dict_literal(ctx, c04.EN, "_BITWIDTH_MAP")
    ctx._shared["bw"] = {c04._dt(k): v.value for k, v in zip(d.keys, d.values) if c04._dt(k)}
    before = len(ctx.findings)
    sub = _Sub(ctx)
    c04.rule_r4(sub)
    rule_r5(ctx)


class _Sub:
    """Adapter: run C04-R4 and record its instances under C07-R4."""

    def __init__(self, ctx):
        self._c = ctx
        self.repo = ctx.repo
        self._shared = ctx._shared

    def check(self, rule, instance, ok, where, node, detail, **kw):
        return self._c.check("R4", instance, ok, where, node, detail, **kw)

    def require(self, cond, msg):
        return self._c.require(cond, msg)

    def ob(self, rule, instance, ok, **kw):
        return self._c.ob("R4", instance, ok, **kw)
