"""C02 — ONNX proto → IR → proto is lossless for every supported proto."""

from __future__ import annotations

import ast
import re

from ..cfg import CFG
from ..facts import calls_in
from ..index import ClassInfo, FuncInfo, dotted_of, norm, own_nodes, short
from ..shared import s1_sites
from . import c03, c17

PROPERTY = "C02"
RULES = {
    "R1": "field coverage: for every message of onnx-ml.proto reachable from ModelProto, the fields read by the "
    "deserializer and the fields written by the serializer are the same set and cover the schema, up to the "
    "exemption table (unsupported constructs, one reason each)",
    "R2": "enum agreement: AttributeType and DataType members (name, number) equal the schema's enums",
    "R3": "dispatch exhaustiveness and sibling agreement: reader and writer attribute dispatch mention every "
    "AttributeType member and agree on the unsupported ones; the type writer covers every IR type class and the "
    "type readers handle the same oneof cases",
    "R4": "write-once: after a whole-message CopyFrom no repeated sub-field of the same target is appended to "
    "without an intervening clear (double emission)",
    "R5": "name correspondence: a direct single-field copy proto.F = ir.G (writer) / G=<read of proto.F> (reader) "
    "pairs a field with the attribute of the same name or an entry of the alias table",
    "R6": "no store of deserialized data into an IR object is controlled by an ==/!= comparison of objects whose class "
    "defines a partial __eq__ (one that ignores part of the instance state, e.g. denotations): 'equal' does not mean "
    "'carries the same information', so skipping or choosing the store on it drops proto content",
    "R8": "no mutual deferral between per-value emitters: when the writer visits overlapping collections (graph inputs, "
    "initializers, node outputs) and one loop skips the values that belong to another collection ('added below'), the "
    "loop over that other collection emits for them unconditionally - two loops that each defer to the other drop the "
    "values in the intersection (e.g. the quantization annotation of an input that is also an initializer)",
    "R9": "value-info category agreement: for graphs and functions, every category of value (inputs, initializers, "
    "node outputs) for which the writer emits value_info entries is a category to which the paired reader applies "
    "value_info entries - otherwise the type/shape of that category is written but never read back",
    "R10": "per-iteration results are built from per-iteration collections (shared rule S5): in the (de)serializer, a local "
    "collection that is grown inside a loop and stored into an IR/proto object once per iteration is created inside that "
    "loop - a collection created before the loop carries the entries of earlier nodes into later ones (duplicated device "
    "configurations, attributes, …)",
    "R11": "string payloads are passed through, never re-encoded: StringTensor.string_data() - the source of "
    "TensorProto.string_data - hands out the stored sequence of bytes (or the elements of a stored ndarray) and does "
    "not build a numpy array from a sequence: a fixed-width numpy bytes array drops trailing NUL bytes of every element",
    "R7": "no early exit of a writer bypasses a field write: for every `return` inside a serialize function, each proto "
    "field write that would still be reached if the function went on is either data-dependent on what the return's "
    "guard tested (nothing to write), or the return follows a whole-message CopyFrom, or it follows a logged warning "
    "(declared unsupported case)",
    "R12": "branch/field agreement of the attribute dispatch: for every AttributeType member the reader's branch reads exactly "
    "the AttributeProto value field(s) that the writer's branch for the same member writes (f/i/s/t/g/tp vs floats/ints/…): the "
    "singular field read in a plural branch (or the reverse) is the unset default, so that part of the attribute is dropped",
    "R13": "absent means None, never 0 (shared rule S10): on the serialization path (serde and the tensor classes) an expression "
    "whose declared type is an optional number (`int | None`: external-data offset and length, versions …) is tested for "
    "presence with `is (not) None`; a truthiness test (`if v:`, `v and …`, a comprehension filter) is accepted only where "
    "skipping 0 changes nothing - `v or 0`, or a guard around nothing but the direct store of v into a scalar proto field "
    "(unset and 0 are the same there) - otherwise an offset or length of 0 is dropped from the written entries",
    "R14": "an empty object is not an absent one (shared rule S12): in the (de)serializer, the presence of a payload whose declared "
    "type is - or, for the `Any`-typed value of an attribute, may be - an instance of a sized class with further state (Graph, "
    "Function, GraphView, Shape: `len()` counts nodes / dimensions) is tested with `is None`, never by truthiness: a subgraph "
    "without nodes (a branch that only returns a captured value or an initializer) and a rank-0 shape are falsy, so a writer "
    "that skips `not value` drops the whole subgraph - its name, inputs, outputs, initializers",
    "R15": "every key of an external-data record is carried: the keys onnx itself accepts in `TensorProto.external_data` (read from the "
    "installed onnx sources: the attributes `ExternalDataInfo.__init__` initialises) are each read by deserialize_tensor from its "
    "`ExternalDataInfo` view and written back by the serializer's external branch - a key the reader ignores is a storage field that "
    "disappears in a round trip (one reviewed exemption: `basepath`, a transient loader key that onnx strips on save)",
    "R16": "a field is written whenever it is present: in the serializer, a statement that writes from `<source>.A` sits under presence "
    "tests of `<source>.A` only - a truthiness / `is not None` test of another attribute `<source>.B` around it makes the write of A "
    "depend on B, so an object with A set and B empty (an overload on a node of the default domain) loses A in the proto",
    "R17": "a value is annotated once: in the graph serializer, the loops that emit a quantization annotation per value (graph inputs, "
    "initializers, node outputs, graph outputs) range over collections that can share values - every later loop guards its emission by "
    "the collections of the earlier ones (a membership test in a set built from them, or the value's own graph-output flag), and the "
    "loop over the outputs also records what it emits (an output can be listed twice); node outputs are disjoint from inputs and "
    "initializers by the IR's invariants (C01-R4)",
    "R18": "what a value_info entry declares is kept: where the deserializer builds a value with the type / shape of its tensor and then applies "
    "the value_info entry (which assigns both fields unconditionally), the tensor's information is put back exactly when the entry left the "
    "field None - a wider test (`is None or has_unknown_dim()`) replaces a declared shape with unknown or named dimensions and their "
    "denotations by the tensor's static one, so the value_info written back differs from the one read (rule shared with C17-R9)",
    "R19": "a function keeps the spelling of its identifier: below IR version 10 the value information of a function's values is stored under "
    "names `<domain>::<name>/<value>` that the reader matches, as text, against the identifiers of the model's functions - so "
    "Function.__init__ stores domain, name and overload exactly as they are passed (the parameter itself, no call on it); with "
    "`self._domain = _normalize_domain(domain)` a function declared in `ai.onnx` is keyed as `''`, the entries `ai.onnx::F/x` match "
    "nothing and type, shape, doc string and metadata of the function's values are dropped on proto -> IR -> proto",
    "R20": "an argument goes to the parameter it is named after (shared rule S21): in the package, a positional argument that is a plain "
    "name equal to the name of a parameter of the (resolved) callee is never passed in the position of a *different* parameter - "
    "`Attr(name, type, value, doc_string)` puts the doc string into `ref_attr_name` (the fourth positional parameter; `doc_string` is "
    "keyword-only), so a TENSORS attribute with a doc string becomes a reference attribute: its tensors and its doc string are gone "
    "after proto -> IR -> proto",
}
FLOORS = {"R1": 100, "R2": 40, "R3": 30, "R4": 1, "R5": 40, "R6": 20, "R7": 6, "R8": 3, "R9": 3, "R10": 10, "R11": 1, "R12": 12, "R13": 2, "R14": 10, "R15": 4, "R16": 20, "R17": 4, "R18": 1, "R19": 3, "R20": 1}
EXPLANATION = (
    "Types every proto expression of serde.py through parameter annotations and the parsed onnx-ml.proto schema, "
    "collects per message the fields the deserializer reads and the serializer writes (attribute access, HasField, "
    "_get_field, getattr, WhichOneof, .add(k=v), CopyFrom), and compares both with the schema; checks the enum "
    "tables, the attribute/type dispatch chains and the direct field copies."
)
NOT_DECIDED = "equality of the values carried by a field, ordering normalisations, default-vs-unset equivalence"
ASSUMPTIONS = ["onnx-ml.proto shipped with the installed onnx package is the schema the library is used with"]

SERDE = "onnx_ir.serde"
# (message, field) -> reason; '*' = every field of the message
EXEMPT = {
    ("ModelProto", "training_info"): "training is out of the IR's scope (neither read nor written)",
    ("GraphProto", "sparse_initializer"): "sparse tensors unsupported on both sides (TODO in the writer)",
    ("AttributeProto", "sparse_tensor"): "both sides raise NotImplementedError for SPARSE_TENSOR",
    ("AttributeProto", "sparse_tensors"): "both sides raise NotImplementedError for SPARSE_TENSORS",
    ("TypeProto", "map_type"): "the readers raise NotImplementedError; the writer rejects unknown type classes",
    ("TypeProto", "opaque_type"): "opaque types are not represented in the IR",
    ("TensorProto", "segment"): "deprecated segment field is not represented",
    ("TrainingInfoProto", "*"): "training is out of scope",
    ("SparseTensorProto", "*"): "sparse tensors unsupported",
    ("TypeProto.Map", "*"): "map types unsupported",
    ("TypeProto.Opaque", "*"): "opaque types unsupported",
    ("TensorProto.Segment", "*"): "deprecated",
}
# proto field -> IR attribute names it may be copied from / to
ALIASES = {
    "elem_type": {"dtype", "elem_type"}, "data_type": {"dtype"}, "dims": {"shape"}, "tensor_name": {"name", "value"},
    "configuration_id": {"name", "configuration"}, "dim_param": {"dim", "value"}, "dim_value": {"dim", "value"},
    "device": {"device", "device_names"}, "sharded_dim": {"sharded_dims"}, "simple_sharding": {"simple_shardings"},
    "sharding_spec": {"sharding_specs"}, "index_to_device_group_map": {"index_to_device_group_map"},
    "i": {"value"}, "f": {"value"}, "s": {"value"}, "t": {"value"}, "g": {"value"}, "ints": {"value"}, "floats": {"value"},
    "strings": {"value"}, "tensors": {"value"}, "graphs": {"value"}, "tp": {"value"}, "type_protos": {"value"},
    "input": {"inputs", "name"}, "output": {"outputs", "name"}, "node": {"nodes"}, "initializer": {"initializers"},
    "opset_import": {"opset_imports"}, "functions": {"functions"}, "attribute": {"attributes", "name"},
    "attribute_proto": {"attributes"}, "configuration": {"device_configurations"}, "device_configurations": {"device_configurations"},
    "string_data": {"value", "string_data"}, "raw_data": {"tobytes"}, "external_data": {"location", "offset", "length"},
    "type": {"type"}, "quant_parameter_tensor_names": {"meta"}, "value_info": {"value_info"}, "key": {"key"}, "value": {"value"},
}  # fmt: skip


def reader_funcs(ctx):
    out = list(c17.deser_funcs(ctx))
    c = ctx.repo.cls(f"{SERDE}:TensorProtoTensor")
    out += list(c.methods.values()) + [p[k] for p in c.props.values() for k in p]
    return out


def _lambdas_of(f: FuncInfo):
    return [f]


def collect(ctx, funcs, writer: bool):
    """{message: {field: (FuncInfo, node)}}"""
    ty, schema = ctx.typer, ctx.schema
    out: dict[str, dict[str, tuple]] = {}

    def add(msg, fld, f, node):
        if msg in schema.messages and fld in schema.messages[msg].fields:
            out.setdefault(msg, {}).setdefault(fld, (f, node))

    def msgs_of(f, e):
        return [a[1] for a in ty.type_of(f, e) if a[0] == "proto" and a[1] != "?"]

    for f in funcs:
        oneof_vars: dict[str, tuple[str, str]] = {}
        for n in own_nodes(f.node):
            if isinstance(n, ast.Attribute):
                for m in msgs_of(f, n.value):
                    add(m, n.attr, f, n)
                if writer and any(a == ("proto", "?") for a in ty.type_of(f, n.value)):
                    # message reached through getattr(proto, <oneof name>): attribute the field by name when
                    # at most two schema messages declare it (the tensor / sparse-tensor leaf types)
                    owners = [m for m, msg in schema.messages.items() if n.attr in msg.fields]
                    if 1 <= len(owners) <= 2:
                        for m in owners:
                            add(m, n.attr, f, n)
            elif isinstance(n, ast.Call):
                fn = n.func
                d = dotted_of(fn) or ""
                if isinstance(fn, ast.Attribute) and fn.attr in ("HasField", "ClearField") and n.args and isinstance(n.args[0], ast.Constant):
                    for m in msgs_of(f, fn.value):
                        add(m, n.args[0].value, f, n)
                if d in ("_get_field", "getattr") and len(n.args) >= 2 and isinstance(n.args[1], ast.Constant):
                    for m in msgs_of(f, n.args[0]):
                        add(m, n.args[1].value, f, n)
                if d in ("_get_field", "getattr") and len(n.args) >= 2 and isinstance(n.args[1], ast.Name) and n.args[1].id not in oneof_vars:
                    # the field's name comes out of a module-level table consulted in this function (`make, field = TABLE[kind]`): every
                    # string in the table's values that names a field of the message is accessed on some path
                    for t_ in own_nodes(f.node):
                        tab = None
                        if isinstance(t_, ast.Call) and isinstance(t_.func, ast.Attribute) and t_.func.attr == "get" and isinstance(t_.func.value, ast.Name):
                            tab = t_.func.value.id
                        elif isinstance(t_, ast.Subscript) and isinstance(t_.value, ast.Name) and isinstance(t_.ctx, ast.Load):
                            tab = t_.value.id
                        dct = f.module.assigns.get(tab) if tab else None
                        if isinstance(dct, ast.Dict):
                            for m in msgs_of(f, n.args[0]):
                                for c_ in (x for v_ in dct.values for x in ast.walk(v_)):
                                    if isinstance(c_, ast.Constant) and isinstance(c_.value, str) and c_.value in schema.messages[m].fields:
                                        add(m, c_.value, f, n)
                if isinstance(fn, ast.Attribute) and fn.attr == "add" and n.keywords:
                    for a in ty.type_of(f, fn.value):
                        if a[0] == "protorep" and a[1] != "?":
                            for k in n.keywords:
                                if k.arg:
                                    add(a[1], k.arg, f, n)
                if isinstance(fn, ast.Attribute) and fn.attr in ("CopyFrom", "MergeFrom") and writer:
                    for m in msgs_of(f, fn.value):
                        for fld in schema.messages[m].fields:
                            add(m, fld, f, n)
                if d.endswith("ExternalDataInfo") and n.args:
                    for m in msgs_of(f, n.args[0]):
                        add(m, "external_data", f, n)
                if isinstance(fn, ast.Attribute) and fn.attr == "WhichOneof" and n.args and isinstance(n.args[0], ast.Constant):
                    par = getattr(n, "_parent", None)
                    if isinstance(par, ast.Assign) and isinstance(par.targets[0], ast.Name):
                        for m in msgs_of(f, fn.value):
                            oneof_vars[par.targets[0].id] = (m, n.args[0].value)
        # oneof dispatch through the variable: comparisons with field names and getattr(proto, var)
        for n in own_nodes(f.node):
            if isinstance(n, ast.Compare) and isinstance(n.left, ast.Name) and n.left.id in oneof_vars:
                m, _ = oneof_vars[n.left.id]
                for c in n.comparators:
                    if isinstance(c, ast.Constant) and isinstance(c.value, str):
                        add(m, c.value, f, n)
            if isinstance(n, ast.Call) and dotted_of(n.func) == "getattr" and len(n.args) >= 2 and isinstance(n.args[1], ast.Name) \
                    and n.args[1].id in oneof_vars:
                m, oname = oneof_vars[n.args[1].id]
                explicit = [c for c in own_nodes(f.node) if isinstance(c, ast.Compare) and isinstance(c.left, ast.Name) and c.left.id == n.args[1].id]
                if not explicit:
                    for fld in schema.messages[m].oneofs.get(oname, []):
                        add(m, fld, f, n)
    return out


def rule_r1(ctx):
    schema = ctx.schema
    R = collect(ctx, reader_funcs(ctx), writer=False)
    W = collect(ctx, c03.ser_funcs(ctx), writer=True)
    reach = schema.reachable("ModelProto")
    ctx.require(len(reach) >= 20, "schema reachability below floor")
    ctx.tables["messages"] = len(reach)
    nf = 0
    for m in sorted(reach):
        msg = schema.messages[m]
        if (m, "*") in EXEMPT:
            ctx.ob("R1", f"{m}: whole message exempt", True, nontrivial=False, how=EXEMPT[(m, "*")])
            continue
        r, w = set(R.get(m, {})), set(W.get(m, {}))
        for fld in sorted(msg.fields):
            nf += 1
            ex = EXEMPT.get((m, fld))
            inr, inw = fld in r, fld in w
            if ex and not (inr and inw):
                ctx.ob("R1", f"{m}.{fld}: exempt ({'read' if inr else 'not read'}, {'written' if inw else 'not written'})", True,
                       nontrivial=False, how=ex)
                continue
            if inr and inw:
                ctx.ob("R1", f"{m}.{fld}: read and written", True, how="typed proto expressions in serde.py ↔ schema")
                continue
            where, node = (R.get(m, {}).get(fld) or W.get(m, {}).get(fld) or (ctx.repo.module(SERDE), None))
            what = "read by the deserializer but never written by the serializer" if inr else (
                "written by the serializer but never read by the deserializer" if inw else "neither read nor written")
            ctx.check("R1", f"{m}.{fld}: {what}", False, where, node,
                      f"schema field {m}.{fld} is {what}: a proto carrying it does not survive proto → IR → proto",
                      how="set comparison per message", symbol=f"{SERDE}:{m}", construct=f"{m}.{fld} {what}")
    ctx.tables["fields"] = nf
    ctx.require(nf >= 100, "fewer than 100 schema fields examined")


def rule_r2(ctx):
    schema = ctx.schema
    en = ctx.repo.module("onnx_ir._enums")
    for cls, ename in (("AttributeType", "AttributeProto.AttributeType"), ("DataType", "TensorProto.DataType")):
        c = ctx.repo.cls(f"onnx_ir._enums:{cls}")
        mem = {}
        for s in c.node.body:
            if isinstance(s, ast.Assign) and isinstance(s.targets[0], ast.Name) and isinstance(s.value, ast.Constant):
                mem[s.targets[0].id] = s.value.value
        want = schema.enums[ename]
        for name in sorted(set(mem) | set(want)):
            ok = mem.get(name) == want.get(name)
            ctx.check("R2", f"{cls}.{name} = {mem.get(name)} (schema {want.get(name)})", ok, c, c.node,
                      f"{cls}.{name} is {mem.get(name)} in the IR but {want.get(name)} in onnx-ml.proto",
                      how="member table vs schema enum", construct=f"{cls}.{name} {mem.get(name)} vs {want.get(name)}")


def _attr_type_chain(f: FuncInfo):
    """{member: 'handled' | 'raises'} from `type_ == AttributeType.X` if-chains."""
    out = {}
    for n in own_nodes(f.node):
        if isinstance(n, ast.If):
            for mem in _test_members(n.test):
                only_raise = all(isinstance(s, ast.Raise) for s in n.body)
                out[mem] = "raises" if only_raise else "handled"
    for mem in _table_dispatch(f):
        out.setdefault(mem, "handled")
    return out


def _test_members(test) -> list[str]:
    """Members of AttributeType a dispatch test selects: `x == AttributeType.X`, `x in (…)`, or an `or` of such tests."""
    if isinstance(test, ast.BoolOp) and isinstance(test.op, ast.Or):
        out = []
        for v in test.values:
            m_ = _test_members(v)
            if not m_:
                return []
            out += m_
        return out
    if isinstance(test, ast.Compare) and len(test.comparators) == 1 and isinstance(test.ops[0], (ast.Eq, ast.Is, ast.In)):
        return _attr_type_members(test.comparators[0])
    return []


def _table_dispatch(f: FuncInfo, fields: set | None = None) -> dict:
    """{AttributeType member: set of payload field names} for a table-driven dispatch: a module-level dict keyed by AttributeType
    members that the function consults with `.get(<type>)` / `[<type>]` / `in`; the payload field of an entry is the string constant
    in its value that names an AttributeProto field (read with getattr(<proto>, <field>))."""
    out = {}
    for n in own_nodes(f.node):
        tab = None
        if isinstance(n, ast.Call) and isinstance(n.func, ast.Attribute) and n.func.attr == "get" and isinstance(n.func.value, ast.Name):
            tab = n.func.value.id
        elif isinstance(n, ast.Subscript) and isinstance(n.value, ast.Name) and isinstance(n.ctx, ast.Load):
            tab = n.value.id
        d = f.module.assigns.get(tab) if tab else None
        if not isinstance(d, ast.Dict):
            continue
        for k_, v_ in zip(d.keys, d.values):
            mems = _attr_type_members(k_) if k_ is not None else []
            for mem in mems:
                got = {c.value for c in ast.walk(v_) if isinstance(c, ast.Constant) and isinstance(c.value, str) and (fields is None or c.value in fields)}
                out.setdefault(mem, set()).update(got)
    return out


def _attr_type_members(e) -> list[str]:
    """Members of AttributeType an if-test compares with: `== AttributeType.X`, or `in (AttributeType.X, AttributeType.Y)`."""
    if isinstance(e, ast.Call) and dotted_of(e.func) in ("frozenset", "set", "tuple") and len(e.args) == 1:
        e = e.args[0]
    els = e.elts if isinstance(e, (ast.Tuple, ast.Set, ast.List)) else [e]
    out = []
    for x in els:
        d = dotted_of(x) or ""
        if "AttributeType." in d:
            out.append(d.rsplit(".", 1)[1])
    return out


def _branch_fields(f: FuncInfo, proto_param: str, fields: set) -> dict:
    """{AttributeType member: set of AttributeProto fields touched through the proto parameter in that branch}."""
    out = {}
    for n in own_nodes(f.node):
        if isinstance(n, ast.If):
            mems = _test_members(n.test)
            if mems:
                got = set()
                for b in n.body:
                    for x in ast.walk(b):
                        if isinstance(x, ast.Attribute) and isinstance(x.value, ast.Name) and x.value.id == proto_param and x.attr in fields:
                            got.add(x.attr)
                for mem in mems:
                    out[mem] = set(got) if len(mems) == 1 else out.get(mem, set()) | got
    for mem, got in _table_dispatch(f, fields).items():
        out.setdefault(mem, set()).update(got)
    return out


def rule_r12(ctx, rule="R12", consequence=""):
    repo = ctx.repo
    rd = repo.func(f"{SERDE}:_deserialize_attribute")
    wr = repo.func(f"{SERDE}:_fill_in_value_for_attribute")
    msg = ctx.schema.messages["AttributeProto"]
    fields = set(msg.fields) - {"name", "type", "doc_string", "ref_attr_name"}
    ctx.require(len(fields) >= 10, "AttributeProto value fields not found in the schema")
    r = _branch_fields(rd, rd.params[0], fields)
    w = _branch_fields(wr, wr.params[0], fields)
    n = 0
    for mem in sorted(set(r) | set(w)):
        if mem not in r or mem not in w or (not r[mem] and not w[mem]):
            continue  # R3 decides presence; unsupported kinds touch no field on either side
        n += 1
        ctx.check(rule, f"AttributeType.{mem}: reader reads {sorted(r[mem])}, writer writes {sorted(w[mem])}", r[mem] == w[mem], rd, rd.node,
                  f"the deserializer's {mem} branch reads AttributeProto.{sorted(r[mem])} while the serializer's {mem} branch writes "
                  f"{sorted(w[mem])}: a field the writer never fills for this kind is the unset default, so what is read from it is empty" + consequence,
                  how="fields touched through the proto parameter inside the `type_ == AttributeType.X` branches of both dispatch functions",
                  construct=f"{mem}: reader fields {sorted(r[mem])} vs writer fields {sorted(w[mem])}")
    ctx.require(n >= 12, f"only {n} attribute kinds compared")


def rule_r3(ctx):
    repo = ctx.repo
    c = repo.cls("onnx_ir._enums:AttributeType")
    members = [s.targets[0].id for s in c.node.body if isinstance(s, ast.Assign) and isinstance(s.targets[0], ast.Name)]
    rd = _attr_type_chain(repo.func(f"{SERDE}:_deserialize_attribute"))
    wr = _attr_type_chain(repo.func(f"{SERDE}:_fill_in_value_for_attribute"))
    for mem in members:
        r, w = rd.get(mem), wr.get(mem)
        if mem == "UNDEFINED":
            ctx.ob("R3", "AttributeType.UNDEFINED: reader builds a valueless Attr, writer is never asked to write a value", r == "handled",
                   nontrivial=False)
            continue
        ok = r is not None and w is not None and r == w
        ctx.check("R3", f"AttributeType.{mem}: reader {r}, writer {w}", ok, repo.func(f"{SERDE}:_fill_in_value_for_attribute"), None,
                  f"attribute kind {mem} is {r} by the deserializer but {w} by the serializer",
                  how="if-chains of both dispatch functions", symbol=f"{SERDE}:attribute dispatch", construct=f"{mem}: reader={r} writer={w}")
    # type classes
    core = repo.module("onnx_ir._core")
    tp = repo.cls("onnx_ir._protocols:TypeProtocol")
    concrete = [k.name for k in core.classes.values() if repo.is_subclass(k, tp) and not k.name.startswith("_")]
    wt = repo.func(f"{SERDE}:serialize_type_into")
    handled = set()
    oneof_written = {}
    for n in own_nodes(wt.node):
        if isinstance(n, ast.If) and isinstance(n.test, ast.Call) and dotted_of(n.test.func) == "isinstance":
            cls = (dotted_of(n.test.args[1]) or "").split(".")[-1]
            handled.add(cls)
            for x in ast.walk(n):
                if isinstance(x, ast.Attribute) and norm(x.value) == "type_proto" and x.attr.endswith("_type"):
                    oneof_written[cls] = x.attr
    for k in sorted(concrete):
        ctx.check("R3", f"serialize_type_into handles {k}", k in handled, wt, wt.node,
                  f"IR type class {k} has no branch in the type serializer", how="isinstance chain vs TypeProtocol subclasses",
                  construct=f"type class {k} unhandled")
    for fn in ("deserialize_type_proto_for_type", "deserialize_type_proto_for_shape"):
        f = repo.func(f"{SERDE}:{fn}")
        cases = _hasfield_cases(f)
        for cls, oneof in sorted(oneof_written.items()):
            ctx.check("R3", f"{fn} handles oneof case {oneof} (written for {cls})", oneof in cases, f, f.node,
                      f"the type writer emits {oneof} for {cls} but {fn} has no branch for it",
                      how="HasField cases vs oneof fields written", construct=f"{fn} lacks {oneof}")
    a = repo.func(f"{SERDE}:deserialize_type_proto_for_type")
    b = repo.func(f"{SERDE}:deserialize_type_proto_for_shape")
    ca, cb = _hasfield_cases(a), _hasfield_cases(b)
    ctx.check("R3", "type and shape readers handle the same oneof cases", ca == cb, b, b.node, f"cases differ: {sorted(ca ^ cb)}",
              how="sibling agreement", construct=f"type/shape reader cases differ {sorted(ca ^ cb)}")
    n = 0
    for f, node, ok, detail, label in s1_sites(repo, {SERDE}):
        n += 1
        ctx.check("R3", f"S1 {f.local}: {label}"[:150], ok, f, node, detail, how="GRAPH/GRAPHS sibling agreement", construct=f"S1 {label}")


def _hasfield_cases(f) -> set[str]:
    """Field names a function tests with `<proto>.HasField(…)` in an if: constants, and the elements of a literal tuple a loop
    variable ranges over (`for field in ("tensor_type", "sparse_tensor_type"): if proto.HasField(field): …`)."""
    out: set[str] = set()
    for n in own_nodes(f.node):
        if not (isinstance(n, ast.If) and isinstance(n.test, ast.Call) and isinstance(n.test.func, ast.Attribute) and n.test.func.attr == "HasField" and n.test.args):
            continue
        a = n.test.args[0]
        if isinstance(a, ast.Constant) and isinstance(a.value, str):
            out.add(a.value)
        elif isinstance(a, ast.Name):
            p_ = getattr(n, "_parent", None)
            while p_ is not None and p_ is not f.node:
                if isinstance(p_, ast.For) and isinstance(p_.target, ast.Name) and p_.target.id == a.id and isinstance(p_.iter, (ast.Tuple, ast.List, ast.Set)):
                    out |= {e.value for e in p_.iter.elts if isinstance(e, ast.Constant) and isinstance(e.value, str)}
                    break
                p_ = getattr(p_, "_parent", None)
    return out


def rule_r4(ctx, rule="R4"):
    n = 0
    for f in c03.ser_funcs(ctx):
        copies = [c for c in calls_in(f) if isinstance(c.func, ast.Attribute) and c.func.attr in ("CopyFrom", "MergeFrom")]
        if not copies:
            continue
        cfg = CFG(f.node)
        for cp in copies:
            tgt = norm(cp.func.value)
            if "(" in tgt:  # x.add().CopyFrom(...): a fresh element, nothing can be appended to it afterwards by name
                continue
            n += 1
            cn = cfg.nodes_containing(cp)[0]
            reach = cfg.reachable_from(cn, exc=False)
            bad = []
            for c in calls_in(f):
                if c is cp:
                    continue
                # an append into a repeated sub-field of the same target: target.field.add/append/extend or a helper
                # called with target.field as its output argument
                texts = []
                if isinstance(c.func, ast.Attribute) and c.func.attr in ("add", "append", "extend") and norm(c.func.value).startswith(tgt + "."):
                    texts.append(norm(c.func.value))
                for a in c.args[:1]:
                    if norm(a).startswith(tgt + ".") and (dotted_of(c.func) or "").startswith(("_serialize", "serialize")):
                        texts.append(norm(a))
                for t in texts:
                    nn = cfg.nodes_containing(c)
                    if nn and nn[0].id in reach:
                        fld = t[len(tgt) + 1:].split(".")[0]
                        clears = [x for x in calls_in(f) if isinstance(x.func, ast.Attribute) and x.func.attr == "ClearField" and x.args
                                  and isinstance(x.args[0], ast.Constant) and x.args[0].value == fld
                                  and cfg.nodes_containing(x) and cfg.nodes_containing(x)[0].id in reach]
                        dels = any(isinstance(s, ast.Delete) and fld in norm(s) for s in own_nodes(f.node))
                        if not clears and not dels:
                            bad.append((c, fld, "appended again"))
                        elif clears and not dels:
                            # the copied entries are dropped on EVERY path after the copy, not only when the IR side has
                            # something to write (otherwise entries deleted from the IR object come back from the copy)
                            ks = {cfg.nodes_containing(x)[0].id for x in clears}
                            if not cfg.all_paths_through(cn, ks, {cfg.exit.id}, exc=False):
                                bad.append((clears[0], fld, "cleared only on some paths"))
            ctx.check(rule, f"{f.local}: after {tgt}.CopyFrom(…) a repeated field of {tgt} that the IR re-writes is cleared on every path", not bad, f,
                      bad[0][0] if bad else cp,
                      (f"`{tgt}` receives the whole source message and `{bad[0][1]}` is {bad[0][2]}: the copied entries are emitted "
                       "next to (or instead of) the IR's own - they double on every round trip, or entries removed from the IR object reappear") if bad else "",
                      how="reachability from the CopyFrom to appends into the same target's sub-fields; the ClearField lies on every path from the copy to the exit",
                      construct=f"{tgt}.{bad[0][1]} {bad[0][2]}" if bad else None)
    ctx.require(n >= 1, "no whole-message CopyFrom into a named target found")


def _ir_attr_of(e) -> str | None:
    """IR attribute a value expression copies from: `from_.name` -> name, `x.dtype.value` -> dtype."""
    while isinstance(e, ast.Call) and e.args and dotted_of(e.func) in ("str", "int", "tuple", "list", "os.fspath"):
        e = e.args[0]
    if isinstance(e, ast.Attribute):
        if e.attr in ("value",) and isinstance(e.value, ast.Attribute):
            return e.value.attr
        return e.attr
    return None


def _stem(s: str) -> str:
    return s[:-1] if s.endswith("s") else s


def _names_match(field: str, attr: str) -> bool:
    if field == attr or _stem(field) == _stem(attr):
        return True
    return attr in ALIASES.get(field, ())


def rule_r5(ctx):
    ty, schema = ctx.typer, ctx.schema
    n = 0
    for f in c03.ser_funcs(ctx):
        for s in own_nodes(f.node):
            if isinstance(s, ast.Assign) and len(s.targets) == 1 and isinstance(s.targets[0], ast.Attribute):
                t = s.targets[0]
                if not any(a[0] == "proto" and a[1] != "?" for a in ty.type_of(f, t.value)):
                    continue
                attr = _ir_attr_of(s.value)
                if attr is None or not ctx.typer.recv_classes(f, s.value.value if isinstance(s.value, ast.Attribute) else (
                        s.value.value.value if isinstance(s.value, ast.Attribute) and isinstance(s.value.value, ast.Attribute) else s.value)):
                    if not (isinstance(s.value, ast.Attribute) and isinstance(s.value.value, (ast.Name, ast.Attribute))):
                        continue
                if attr is None:
                    continue
                # only copies from IR-typed sources (from_.x, value.x, …), not locals/constants
                src = s.value
                while isinstance(src, ast.Call) and src.args:
                    src = src.args[0]
                root = src
                while isinstance(root, ast.Attribute):
                    root = root.value
                if not isinstance(root, ast.Name) or root.id not in f.params:
                    continue
                n += 1
                ok = _names_match(t.attr, attr)
                ctx.check("R5", f"{f.local}: {norm(s)[:70]}", ok, f, s,
                          f"proto field `{t.attr}` is filled from IR attribute `{attr}`: a swapped or wrong field copy",
                          how="field name equals attribute name (singular/plural) or alias table")
    for f in reader_funcs(ctx):
        for c in calls_in(f):
            for k in c.keywords:
                if not k.arg:
                    continue
                v = k.value
                if isinstance(v, ast.Call) and dotted_of(v.func) == "_get_field" and len(v.args) == 2 and isinstance(v.args[1], ast.Constant):
                    fld = v.args[1].value
                elif isinstance(v, ast.Attribute) and any(a[0].startswith("proto") for a in ty.type_of(f, v.value)):
                    fld = v.attr
                else:
                    continue
                n += 1
                ok = _names_match(fld, k.arg)
                ctx.check("R5", f"{f.local}: {k.arg}=<{fld}>", ok, f, c,
                          f"IR argument `{k.arg}` is filled from proto field `{fld}`: a swapped or wrong field copy",
                          how="keyword name equals field name (singular/plural) or alias table",
                          construct=f"{norm(c.func)}({k.arg}=<{fld}>)")
    ctx.require(n >= 40, f"only {n} direct field copies recognised")


def writer_funcs(ctx):
    return [f for f in ctx.repo.module(SERDE).all_funcs if "serialize" in f.name and "deserialize" not in f.name]


def _proto_writes(ctx, f):
    """[(stmt, value expressions)] for statements that write a field of a proto-typed receiver."""
    ty = ctx.typer

    def is_proto(e):
        return any(a[0] in ("proto", "protorep") for a in ty.type_of(f, e))

    out = []
    for st in own_nodes(f.node):
        if isinstance(st, (ast.Assign, ast.AugAssign)):
            tg = st.targets if isinstance(st, ast.Assign) else [st.target]
            for t in tg:
                if isinstance(t, ast.Attribute) and is_proto(t.value):
                    out.append((st, [st.value]))
        elif isinstance(st, ast.Expr) and isinstance(st.value, ast.Call) and isinstance(st.value.func, ast.Attribute):
            c = st.value
            recv = c.func.value
            if c.func.attr in ("append", "extend", "add", "CopyFrom", "MergeFrom") and (is_proto(recv) or (isinstance(recv, ast.Call) and isinstance(recv.func, ast.Attribute) and is_proto(recv.func.value))):
                out.append((st, list(c.args) + [k.value for k in c.keywords]))
            elif "serialize" in (dotted_of(c.func) or "") and c.args and is_proto(c.args[0]):
                out.append((st, list(c.args[1:])))
        elif isinstance(st, ast.Expr) and isinstance(st.value, ast.Call) and "serialize" in (dotted_of(st.value.func) or "") and st.value.args \
                and is_proto(st.value.args[0]):
            out.append((st, list(st.value.args[1:])))
    return out


def _is_callee(attr) -> bool:
    """`obj.method` in `obj.method(...)`: a method may look at the whole object."""
    p_ = getattr(attr, "_parent", None)
    return isinstance(p_, ast.Call) and p_.func is attr


def _closure_names(f, exprs, depth=4) -> set[str]:
    """Texts of names/attributes the expressions data-depend on, through the function's locals and loop variables."""
    seen_names: set[str] = set()
    out: set[str] = set()
    work = list(exprs)
    for _ in range(depth):
        nxt = []
        for e in work:
            for x in ast.walk(e):
                if isinstance(x, ast.Attribute):
                    out.add(norm(x))
                if isinstance(x, ast.Name):
                    # a name read only as the root of an attribute chain (`from_.type`) stands for that field, not for the
                    # whole object: two different fields of one object do not depend on each other
                    par_ = getattr(x, "_parent", None)
                    if not (isinstance(par_, ast.Attribute) and par_.value is x and x.id in getattr(f, "params", ()) and not _is_callee(par_)):
                        out.add(x.id)
                    if x.id not in seen_names:
                        seen_names.add(x.id)
                        for n in own_nodes(f.node):
                            if isinstance(n, (ast.Assign, ast.AnnAssign)) and getattr(n, "value", None) is not None:
                                tg = n.targets if isinstance(n, ast.Assign) else [n.target]
                                if any(isinstance(y, ast.Name) and y.id == x.id for t in tg for y in ast.walk(t)):
                                    nxt.append(n.value)
                                    # control dependence: a flag set to constants under tests depends on what they test
                                    q = getattr(n, "_parent", None)
                                    while q is not None and q is not f.node:
                                        if isinstance(q, (ast.If, ast.While)):
                                            nxt.append(q.test)
                                        q = getattr(q, "_parent", None)
                            elif isinstance(n, (ast.For, ast.comprehension)) and any(isinstance(y, ast.Name) and y.id == x.id for y in ast.walk(n.target)):
                                nxt.append(n.iter)
        work = nxt
    return out


def rule_r7(ctx, rule="R7"):
    n_ret = 0
    for f in writer_funcs(ctx):
        rets = [r for r in own_nodes(f.node) if isinstance(r, ast.Return) and r is not f.node.body[-1]]
        if not rets:
            continue
        cfg = CFG(f.node)
        writes = _proto_writes(ctx, f)
        for r in rets:
            blk = getattr(r, "_parent", None)
            # statements that would run next if the return were not there: reachable from the statement after the
            # innermost enclosing statement that has a successor in its block
            cont = set()
            child, par = r, blk
            while par is not None:
                for fld in ("body", "orelse", "finalbody"):
                    b = getattr(par, fld, None)
                    if isinstance(b, list) and child in b:
                        for nxt in b[b.index(child) + 1:]:
                            for cn_ in cfg.node_of(nxt):
                                cont |= cfg.reachable_from(cn_, exc=False) | {cn_.id}
                if par is f.node:
                    break
                child, par = par, getattr(par, "_parent", None)
            bypassed = [(st, vals) for st, vals in writes if any(x.id in cont for x in cfg.node_of(st))]
            if not bypassed:
                continue
            n_ret += 1
            # justifications
            body = getattr(blk, "body", []) if r in getattr(blk, "body", []) else getattr(blk, "orelse", [])
            before = body[: body.index(r)] if r in body else []
            copied = any(isinstance(x, ast.Call) and isinstance(x.func, ast.Attribute) and x.func.attr == "CopyFrom" for s_ in before for x in ast.walk(s_))
            warned = any(isinstance(x, ast.Call) and (dotted_of(x.func) or "").startswith("logger.") for s_ in before for x in ast.walk(s_))
            tested = set()
            if isinstance(blk, ast.If):
                for x in ast.walk(blk.test):
                    if isinstance(x, ast.Attribute):
                        tested.add(norm(x))
                    elif isinstance(x, ast.Name):
                        par_ = getattr(x, "_parent", None)
                        if not (isinstance(par_, ast.Attribute) and par_.value is x and x.id in f.params and not _is_callee(par_)):
                            tested.add(x.id)
            if isinstance(blk, ast.If):
                tested |= _closure_names(f, [blk.test])  # … through the locals the test reads (an inlined predicate's result)
            tested -= {"None", "True", "False", "isinstance", "len", "hasattr", "getattr"}
            bad = None
            if not (copied or warned):
                for st, vals in bypassed:
                    deps = _closure_names(f, vals)
                    if not (deps & tested) and not any(d.startswith(t + ".") or t.startswith(d + ".") for d in deps for t in tested):
                        bad = st
                        break
            why = "follows a whole-message CopyFrom" if copied else "follows a logged warning" if warned else "bypassed writes depend on the tested value"
            ctx.check(rule, f"{f.local}: early return under `{short(norm(blk.test)) if isinstance(blk, ast.If) else ''}` bypasses no independent field write", bad is None, f, r,
                      (f"this return skips `{short(norm(bad))}`, whose value does not depend on what the guard tested "
                       f"(`{short(norm(blk.test)) if isinstance(blk, ast.If) else ''}`): that field is lost for the inputs taking this exit") if bad is not None else "",
                      how=f"continuation of the return ∩ proto writes; justification: {why}",
                      construct=f"return bypasses {short(norm(bad)) if bad is not None else ''}")
    ctx.require(n_ret >= 6, f"only {n_ret} early returns with bypassed writes examined in the serializer")


def partial_eq_classes(ctx) -> dict[str, tuple]:
    """{class key: (ClassInfo, ignored fields)} for package classes whose own/inherited __eq__ ignores instance state."""
    repo = ctx.repo
    out = {}
    for m in repo.modules.values():
        if not m.name.startswith("onnx_ir"):
            continue
        for c in m.classes.values():
            eq = repo.lookup(c, "__eq__")
            if not isinstance(eq, FuncInfo) or eq.cls is None or eq.cls.external:
                continue
            fields = set()
            for k in repo.mro(c):
                if isinstance(k, ClassInfo) and not k.external:
                    fields |= set(k.slots or ())
                    init = k.methods.get("__init__")
                    if init is not None:
                        for n in own_nodes(init.node):
                            if isinstance(n, (ast.Assign, ast.AnnAssign)):
                                for t in n.targets if isinstance(n, ast.Assign) else [n.target]:
                                    if isinstance(t, ast.Attribute) and norm(t.value) == "self":
                                        fields.add(t.attr)
            fields = {x for x in fields if x not in ("__weakref__", "__dict__", "_frozen") and "cache" not in x}
            if not fields:
                continue
            # everything __eq__ may look at: attributes read from self (through properties), or self as a whole (repr/str/iter)
            reads, whole = set(), False
            bodies = [eq]
            for n in own_nodes(eq.node):
                if isinstance(n, ast.Call) and isinstance(n.func, ast.Attribute) and norm(n.func.value) == eq.params[0]:
                    g = repo.lookup(c, n.func.attr)
                    if isinstance(g, FuncInfo):
                        bodies.append(g)
            for n in (x for b in bodies for x in own_nodes(b.node)):
                if isinstance(n, ast.Attribute) and norm(n.value) in (eq.params[0], "self"):
                    reads.add(n.attr)
                    reads.add("_" + n.attr)
                elif isinstance(n, ast.Call) and any(norm(a) == eq.params[0] for a in n.args):
                    whole = True
            if whole:
                continue
            ignored = sorted(x for x in fields if x not in reads and x.lstrip("_") not in {r.lstrip("_") for r in reads})
            if ignored:
                out[c.key] = (c, ignored)
    return out


def rule_r6(ctx):
    ty = ctx.typer
    partial = partial_eq_classes(ctx)
    ctx.tables["classes with a partial __eq__"] = {k: v[1] for k, v in sorted(partial.items())}
    ctx.require(any(k.endswith(":Shape") for k in partial), "Shape.__eq__ no longer ignores denotations? (partial-equality table is empty for Shape)")
    n = 0
    for f in reader_funcs(ctx):
        for st in own_nodes(f.node):
            tgt = None
            if isinstance(st, (ast.Assign, ast.AugAssign, ast.AnnAssign)):
                for t in st.targets if isinstance(st, ast.Assign) else [st.target]:
                    if isinstance(t, (ast.Attribute, ast.Subscript)):
                        tgt = t
            elif isinstance(st, ast.Expr) and isinstance(st.value, ast.Call) and isinstance(st.value.func, ast.Attribute) \
                    and st.value.func.attr in ("update", "append", "extend", "add", "setdefault", "insert"):
                tgt = st.value.func
            if tgt is None:
                continue
            base = tgt
            while isinstance(base, (ast.Attribute, ast.Subscript, ast.Call)):
                base = base.value if not isinstance(base, ast.Call) else base.func
            if not isinstance(base, ast.Name) or base.id == "self":
                continue
            n += 1
            bad = None
            p = getattr(st, "_parent", None)
            while p is not None and p is not f.node and bad is None:
                if isinstance(p, (ast.If, ast.While, ast.IfExp)):
                    for cmp_ in ast.walk(p.test):
                        if isinstance(cmp_, ast.Compare) and any(isinstance(o, (ast.Eq, ast.NotEq)) for o in cmp_.ops):
                            for operand in [cmp_.left, *cmp_.comparators]:
                                ks = []
                                for k in ty.recv_classes(f, operand):
                                    ks += [x for x in ctx.repo.subclasses(k) if not x.name.endswith("Protocol")] if k.name.endswith("Protocol") else [k]
                                for k in ks:
                                    if k.key in partial and bad is None:
                                        bad = (cmp_, k, partial[k.key][1])
                p = getattr(p, "_parent", None)
            ctx.check("R6", f"{f.local}: {short(norm(st))} not guarded by a partial equality", bad is None, f, st,
                      (f"the store is controlled by `{norm(bad[0])}`, but {bad[1].name}.__eq__ ignores {bad[2]}: when the IR object "
                       "already holds an 'equal' object the proto's content for the ignored part is dropped") if bad else "",
                      how="controlling tests of the store; operand classes typed; __eq__ read set vs instance fields",
                      nontrivial=False, construct=f"{short(norm(st))} under {norm(bad[0]) if bad else ''}")
    ctx.require(n >= 20, f"only {n} IR stores found in the deserialize functions")


def _collection_of(f, e) -> str | None:
    """'inputs' / 'initializers' / 'outputs' when e (a loop iterable or the right side of a membership test) derives from
    <x>.inputs / <x>.initializers / <x>.outputs, directly or through a local built from it."""
    for x in ast.walk(e):
        if isinstance(x, ast.Attribute) and x.attr in ("inputs", "initializers", "outputs"):
            return x.attr
    for x in ast.walk(e):
        if isinstance(x, ast.Name):
            for n in own_nodes(f.node):
                if isinstance(n, (ast.Assign, ast.AnnAssign)) and getattr(n, "value", None) is not None and any(
                        isinstance(t, ast.Name) and t.id == x.id for t in (n.targets if isinstance(n, ast.Assign) else [n.target])):
                    for y in ast.walk(n.value):
                        if isinstance(y, ast.Attribute) and y.attr in ("inputs", "initializers", "outputs"):
                            return y.attr
    return None


def rule_r8(ctx, rule="R8", consequence=""):
    n = 0
    for f in writer_funcs(ctx):
        # per-value emitters: module helpers called with a loop variable inside loops over value collections
        sites = {}
        for lp in (x for x in own_nodes(f.node) if isinstance(x, ast.For) and isinstance(x.target, ast.Name)):
            coll = _collection_of(f, lp.iter)
            if coll is None:
                continue
            v = lp.target.id
            for c in (x for x in ast.walk(lp) if isinstance(x, ast.Call)):
                d = dotted_of(c.func) or ""
                if isinstance(c.func, ast.Attribute) and c.func.attr == "add" and isinstance(c.func.value, ast.Attribute) and not c.args \
                        and ctx.typer.type_of(f, c.func.value.value) and any(a[0].startswith("proto") for a in ctx.typer.type_of(f, c.func.value.value)):
                    # the emission itself: a new entry of a repeated proto field (this is what is left of an emitter helper
                    # that the normal form expanded into the loop) - keyed by the field
                    d = f"<proto>.{c.func.value.attr}.add"
                elif not d or "." in d or not any(isinstance(a, ast.Name) and a.id == v for a in c.args):
                    continue
                # membership guards between the call and the loop: `<v>.name (not) in <collection>`
                defers = set()
                child, par = c, getattr(c, "_parent", None)
                while par is not None and par is not lp:
                    if isinstance(par, ast.If) and any(child is y for st in par.body for y in ast.walk(st)):
                        for t in ast.walk(par.test):
                            if isinstance(t, ast.Compare) and len(t.ops) == 1 and isinstance(t.ops[0], ast.NotIn):
                                other = _collection_of(f, t.comparators[0])
                                if other and other != coll:
                                    defers.add(other)
                    child, par = par, getattr(par, "_parent", None)
                sites.setdefault(d, []).append((coll, defers, c))
        for emitter, lst in sites.items():
            if len(lst) < 2:
                continue
            for coll, defers, c in lst:
                n += 1
                back = [(c2, coll2) for coll2, defers2, c2 in lst if coll2 in defers and coll in defers2]
                ctx.check(rule, f"{f.local}: {emitter}(…) in the loop over {coll} (defers to {sorted(defers) or 'nothing'})", not back, f, c,
                          f"the loop over `{coll}` skips values that are also in `{back[0][1] if back else ''}` and the loop over "
                          f"`{back[0][1] if back else ''}` skips values that are also in `{coll}`: for a value in both collections {emitter} is never "
                          "called, so what it emits is lost in the round trip" + consequence,
                          how="membership guards of the emitter's call sites, collection of each enclosing loop; no pair defers to each other",
                          construct=f"{emitter}: {coll} and {back[0][1] if back else ''} defer to each other")
    ctx.require(n >= 3, f"only {n} per-value emitter sites examined")


def _vi_categories_written(f) -> dict[str, ast.AST]:
    """Categories of values for which the writer f adds entries to <proto>.value_info."""
    out = {}
    for c in (x for x in own_nodes(f.node) if isinstance(x, ast.Call)):
        if not ((dotted_of(c.func) or "").endswith("serialize_value_into") and c.args and isinstance(c.args[0], ast.Call)
                and isinstance(c.args[0].func, ast.Attribute) and c.args[0].func.attr == "add"
                and isinstance(c.args[0].func.value, ast.Attribute) and c.args[0].func.value.attr == "value_info"):
            continue
        v = c.args[1] if len(c.args) > 1 else None
        p = getattr(c, "_parent", None)
        while p is not None and p is not f.node:
            if isinstance(p, ast.For) and isinstance(p.target, ast.Name) and isinstance(v, ast.Name) and p.target.id == v.id:
                it = p.iter
                attr = next((x.attr for x in ast.walk(it) if isinstance(x, ast.Attribute) and x.attr in ("inputs", "initializers", "outputs")), None)
                if attr == "outputs":
                    attr = "node outputs"  # loops over <node>.outputs
                if attr:
                    out.setdefault(attr, c)
                break
            p = getattr(p, "_parent", None)
    return out


def _vi_categories_read(ctx, f) -> set[str]:
    """Categories of values to which the reader f applies value_info entries."""
    out = set()
    for c in calls_in(f):
        d = dotted_of(c.func) or ""
        if d in ("_declare_node_outputs", "_deserialize_node") and (any(k.arg == "value_info" for k in c.keywords) or len(c.args) >= 3):
            out.add("node outputs")
        if d.endswith("deserialize_value_info_proto") and len(c.args) >= 2 and isinstance(c.args[1], ast.Name):
            v = c.args[1].id
            # provenance of the value: loop variable over a list built for a category, or a local of the initializer branch
            p = getattr(c, "_parent", None)
            while p is not None and p is not f.node:
                if isinstance(p, ast.For) and any(isinstance(x, ast.Name) and x.id == v for x in ast.walk(p.target)):
                    names = {x.id for x in ast.walk(p.iter) if isinstance(x, ast.Name)}
                    for nm in names:
                        for n in own_nodes(f.node):
                            if isinstance(n, (ast.Assign, ast.AnnAssign)) and any(isinstance(t, ast.Name) and t.id == nm for t in (n.targets if isinstance(n, ast.Assign) else [n.target])):
                                src = norm(n.value) if getattr(n, "value", None) is not None else ""
                                if "proto.input" in src or ".input" in src:
                                    out.add("inputs")
                    if any(isinstance(x, ast.Attribute) and x.attr == "input" for x in ast.walk(p.iter)):
                        out.add("inputs")
                    break
                p = getattr(p, "_parent", None)
            for n in own_nodes(f.node):
                if isinstance(n, ast.Assign) and any(isinstance(t, ast.Name) and t.id == v for t in n.targets) and isinstance(n.value, ast.Call) \
                        and any(k.arg == "const_value" for k in n.value.keywords):
                    out.add("initializers")
    return out


def rule_r9(ctx):
    repo = ctx.repo
    pairs = (("serialize_graph_into", "_deserialize_graph"), ("serialize_function_into", "deserialize_function"))
    n = 0
    for wn, rn in pairs:
        w, r = repo.func(f"{SERDE}:{wn}"), repo.func(f"{SERDE}:{rn}")
        written = _vi_categories_written(w)
        read = _vi_categories_read(ctx, r)
        ctx.tables[f"value_info categories {wn} / {rn}"] = {"written": sorted(written), "read": sorted(read)}
        for cat, node in sorted(written.items()):
            n += 1
            ctx.check("R9", f"{rn}: value_info is applied to {cat} (written by {wn})", cat in read, r, r.node,
                      f"{wn} writes value_info entries for {cat} but {rn} never applies value_info to them: their type and shape "
                      "are lost on every round trip",
                      how="writer: loops adding <proto>.value_info entries, by collection; reader: targets of deserialize_value_info_proto / value_info= arguments",
                      construct=f"value_info of {cat} not read")
    ctx.require(n >= 3, f"only {n} value_info categories found in the writers")


def rule_r10(ctx):
    from ..shared import leaked_iteration_collections

    n = 0
    for f in ctx.repo.module(SERDE).all_funcs:
        if isinstance(f.node, ast.Lambda) or not any(isinstance(x, (ast.For, ast.While)) for x in own_nodes(f.node)):
            continue
        n += 1
        leaks = leaked_iteration_collections(f)
        ctx.check("R10", f"{f.local}: collections stored per iteration are created per iteration", not leaks, f, leaks[0][2] if leaks else f.node,
                  (f"`{norm(leaks[0][2])}` stores `{leaks[0][0]}` once per iteration, but `{leaks[0][0]}` is created before the loop and only grows: "
                   "every iteration after the first also gets the entries collected for the earlier ones") if leaks else "",
                  how="loops whose body grows a local collection and stores it into an object: the collection is bound inside the loop body",
                  nontrivial=bool(leaks), construct=f"collection {leaks[0][0] if leaks else ''} outlives its iteration")
    ctx.require(n >= 10, f"only {n} functions with loops found in serde")


def rule_type_reader_siblings(ctx, rule="R3"):
    """The branches of the type reader are siblings: every IR type object it constructs receives the same keyword
    information (the type denotation) - a branch that omits a keyword the others pass loses that field for one type kind."""
    f = ctx.repo.func(f"{SERDE}:deserialize_type_proto_for_type")
    tp = ctx.repo.modules["onnx_ir._protocols"].classes.get("TypeProtocol")
    ctors = []
    for c in calls_in(f):
        k = ctx.typer.ctor_class(f, c)
        if k is not None and tp is not None and ctx.repo.is_subclass(k, tp):
            ctors.append((c, k))
    ctx.require(len(ctors) >= 4, f"type reader: only {len(ctors)} type constructions found")
    kwsets = [frozenset(kw.arg for kw in c.keywords if kw.arg) for c, _ in ctors]
    union = frozenset().union(*kwsets)
    for (c, k), kws in zip(ctors, kwsets):
        missing = sorted(union - kws)
        ctx.check(rule, f"deserialize_type_proto_for_type: {k.name}(…) passes {sorted(union)}", not missing, f, c,
                  f"`{norm(c)}` omits {missing}, which the sibling branches pass: for this kind of type the {', '.join(missing)} of the proto is dropped when "
                  "the IR object is built, so it is gone after a round trip",
                  how="keyword sets of the IR type constructions in the reader's dispatch are equal", construct=f"{k.name} construction omits {missing}")


def rule_r11(ctx):
    f = ctx.repo.func("onnx_ir._core:StringTensor.string_data")
    bad = None
    for c in calls_in(f):
        d = dotted_of(c.func) or ""
        if d.split(".")[-1] in ("array", "asarray", "asanyarray", "fromiter") and d.split(".")[0] in ("np", "numpy"):
            bad = c
        if isinstance(c.func, ast.Attribute) and c.func.attr in ("numpy", "__array__") and norm(c.func.value) == f.params[0]:
            bad = c
    ctx.check("R11", "StringTensor.string_data does not go through a numpy array built from the stored sequence", bad is None, f, bad if bad is not None else f.node,
              f"`{norm(bad) if bad is not None else ''}` turns the stored sequence of bytes into a numpy array before it is written to the proto: numpy's "
              "fixed-width bytes dtype strips trailing NUL bytes, so b'key\\x00\\x00' comes back as b'key' after a round trip",
              how="no self.numpy()/self.__array__()/np.array(...) call in string_data (elements of an existing ndarray are taken with tolist())",
              construct="string payload re-encoded through numpy")


def rule_r13(ctx):
    from ..shared import optional_number_truth_tests

    n = 0
    for m in ctx.repo.pkg_modules():
        if m.name not in (SERDE, "onnx_ir._core", "onnx_ir.external_data"):
            continue
        for f in m.all_funcs:
            if isinstance(f.node, ast.Lambda):
                continue
            for node, t, src in optional_number_truth_tests(ctx.repo, ctx.typer, f):
                n += 1
                ok, how = False, ""
                if isinstance(node, ast.BoolOp) and isinstance(node.op, ast.Or) and len(node.values) == 2 and node.values[0] is t \
                        and isinstance(node.values[1], ast.Constant) and node.values[1].value == 0 and node.values[1].value is not False:
                    ok, how = True, "`v or 0`: the default is the value that tests false"
                elif isinstance(node, ast.If) and not node.orelse and node.test is t and all(
                        isinstance(st, ast.Assign) and len(st.targets) == 1 and isinstance(st.targets[0], ast.Attribute) and norm(st.value) == norm(t)
                        and any(a[0].startswith("proto") for a in ctx.typer.type_of(f, st.targets[0].value)) for st in node.body):
                    ok, how = True, "guards only the direct store into a scalar proto field: unset and 0 are equivalent there"
                ctx.check("R13", f"{f.local}: truthiness test of {norm(t)} ({src})", ok, f, node,
                          f"`{norm(t)}` is declared `{src}`: an optional number - and is tested by truthiness: the value 0 (an external tensor at offset 0, "
                          "an empty tensor of length 0, version 0) is treated as absent and what the test guards is skipped for it",
                          how=how or "declared type of the tested expression (through locals, dict displays and loops) is an optional number",
                          construct=f"truthiness of optional number {src}")
    ctx.require(n >= 2, f"only {n} truthiness tests of optional numbers found on the serialization path")


def rule_r14(ctx):
    from ..shared import sized_payload_truth_tests

    n = 0
    for f in ctx.repo.module(SERDE).all_funcs:
        if isinstance(f.node, ast.Lambda):
            continue
        f._s12_examined = 0
        hits = sized_payload_truth_tests(ctx.repo, ctx.typer, f)
        n += f._s12_examined
        for node, t, src, cls in hits:
            ctx.check("R14", f"{f.local}: presence of {norm(t)} ({src}) is tested with `is None`", False, f, node,
                      f"`{norm(t)}` is tested by truthiness but it is declared `{src}`: {cls} - an instance without elements (a Graph without nodes, a "
                      "rank-0 Shape) is falsy although it is a value with a name, inputs, outputs and initializers of its own; what the test guards "
                      "is skipped for it, so the subgraph (or shape) is missing from the written proto",
                      how="declared type of the tested expression (S10 source tracing) vs package classes defining __len__/__bool__ with further state",
                      construct=f"truthiness of {src}")
    for _ in range(n):
        ctx.counts["R14"] = ctx.counts.get("R14", 0) + 1
    ctx.ob("R14", f"{n} truthiness tests with a declared type examined in serde", True, nontrivial=False, how="S12")
    ctx.require(n >= 10, f"only {n} typed truthiness tests found in serde")


_EXTERNAL_KEY_EXEMPT = {"basepath": "transient key written by onnx's own loader helpers and stripped again when a model is saved; not part of the stored form"}


def _onnx_external_keys(ctx) -> set[str]:
    """Keys of an external_data record according to the installed onnx: attributes initialised by ExternalDataInfo.__init__
    (the source file is parsed, not imported)."""
    import importlib.util
    import os

    spec = importlib.util.find_spec("onnx")
    ctx.require(spec is not None and spec.origin, "onnx package sources not found")
    path = os.path.join(os.path.dirname(spec.origin), "external_data_helper.py")
    ctx.require(os.path.exists(path), "onnx/external_data_helper.py not found")
    with open(path, encoding="utf-8") as fh:
        tree = ast.parse(fh.read())
    keys: set[str] = set()
    for c in tree.body:
        if isinstance(c, ast.ClassDef) and c.name == "ExternalDataInfo":
            for fn in c.body:
                if isinstance(fn, ast.FunctionDef) and fn.name == "__init__":
                    for n in ast.walk(fn):
                        if isinstance(n, ast.Assign):
                            for t in n.targets:
                                if isinstance(t, ast.Attribute) and isinstance(t.value, ast.Name) and t.value.id == "self":
                                    keys.add(t.attr)
    ctx.require(len(keys) >= 3, f"ExternalDataInfo.__init__: only {sorted(keys)} found")
    return keys


def rule_r15(ctx):
    keys = _onnx_external_keys(ctx)
    ctx.tables["external_data keys (onnx)"] = sorted(keys)
    # the reader: whichever deserialize function takes the ExternalDataInfo view of the tensor
    rd, views = None, set()
    for g in reader_funcs(ctx):
        if isinstance(g.node, ast.Lambda):
            continue
        v = {n.targets[0].id for n in own_nodes(g.node) if isinstance(n, ast.Assign) and isinstance(n.targets[0], ast.Name)
             and isinstance(n.value, ast.Call) and (dotted_of(n.value.func) or "").endswith("ExternalDataInfo")}
        if v:
            rd, views = g, v
            break
    ctx.require(rd is not None, "deserializer: ExternalDataInfo view of an external tensor not found")
    read = {x.attr for x in own_nodes(rd.node) if isinstance(x, ast.Attribute) and isinstance(x.value, ast.Name) and x.value.id in views}
    # the writer: constant keys stored into entries added to <proto>.external_data
    written: set[str] = set()
    wsite = None
    for f in ctx.repo.module(SERDE).all_funcs:
        if isinstance(f.node, ast.Lambda):
            continue
        if not any(isinstance(c.func, ast.Attribute) and c.func.attr == "add" and norm(c.func.value).endswith(".external_data") for c in calls_in(f)):
            continue
        wsite = f
        for n in own_nodes(f.node):
            v = None
            if isinstance(n, ast.Assign) and isinstance(n.targets[0], ast.Attribute) and n.targets[0].attr == "key":
                v = n.value
            elif isinstance(n, ast.Call) and isinstance(n.func, ast.Attribute) and n.func.attr == "add" and norm(n.func.value).endswith(".external_data"):
                v = next((k.value for k in n.keywords if k.arg == "key"), None)
            if v is not None:
                if isinstance(v, ast.Constant) and isinstance(v.value, str):
                    written.add(v.value)
                elif isinstance(v, ast.Name):
                    # the loop variable of `for k, v in {…}.items()` / `for k in (…)`
                    for lp in (x for x in own_nodes(f.node) if isinstance(x, ast.For)):
                        tg = lp.target.elts[0] if isinstance(lp.target, ast.Tuple) and lp.target.elts else lp.target
                        if isinstance(tg, ast.Name) and tg.id == v.id:
                            it = lp.iter.func.value if isinstance(lp.iter, ast.Call) and isinstance(lp.iter.func, ast.Attribute) and lp.iter.func.attr == "items" else lp.iter
                            if isinstance(it, ast.Name):
                                # a table bound once to a local
                                binds = [a.value for a in own_nodes(f.node) if isinstance(a, (ast.Assign, ast.AnnAssign)) and a.value is not None
                                         and any(isinstance(t, ast.Name) and t.id == it.id for t in (a.targets if isinstance(a, ast.Assign) else [a.target]))]
                                if len(binds) == 1:
                                    it = binds[0]
                            if isinstance(it, ast.Call) and dotted_of(it.func) == "dict" and not it.args:
                                written |= {k.arg for k in it.keywords if k.arg}
                            if isinstance(it, ast.Dict):
                                written |= {k.value for k in it.keys if isinstance(k, ast.Constant) and isinstance(k.value, str)}
                            elif isinstance(it, (ast.Tuple, ast.List, ast.Set)):
                                written |= {k.value for k in it.elts if isinstance(k, ast.Constant) and isinstance(k.value, str)}
                                # a table of (key, value) pairs
                                written |= {k.elts[0].value for k in it.elts if isinstance(k, (ast.Tuple, ast.List)) and k.elts
                                            and isinstance(k.elts[0], ast.Constant) and isinstance(k.elts[0].value, str)}
    ctx.require(wsite is not None and bool(written), "serializer: writer of external_data entries not found")
    for k in sorted(keys):
        if k in _EXTERNAL_KEY_EXEMPT:
            ctx.ob("R15", f"external_data key `{k}`: exempt", True, nontrivial=False, how=_EXTERNAL_KEY_EXEMPT[k])
            continue
        ok = k in read and k in written
        where = rd if k not in read else wsite
        ctx.check("R15", f"external_data key `{k}` is read by the deserializer and written by the serializer", ok, where, where.node,
                  f"the key `{k}` of an external-data record is {'not read by the deserializer' if k not in read else 'not written by the serializer'}: "
                  f"a tensor stored with `{k}` comes back without it (proto -> IR -> proto loses a storage field)",
                  how="keys of onnx's ExternalDataInfo ↔ attributes read off the view ↔ constant keys the serializer stores", construct=f"external_data key {k} dropped",
                  symbol=f"{SERDE}:external_data record")
    for k in sorted((read | written) - keys):
        ctx.check("R15", f"external_data key `{k}` is known to onnx", False, wsite, wsite.node,
                  f"`{k}` is read or written as an external-data key but onnx does not accept it (it is ignored, with a warning, by ExternalDataInfo)",
                  how="key sets compared", construct=f"external_data key {k} unknown")


def rule_r16(ctx):
    n = 0
    for f in c03.ser_funcs(ctx):
        if isinstance(f.node, ast.Lambda) or len(f.params) < 2:
            continue
        sources = set(f.params[1:])

        def src_attrs(e):
            return {(x.value.id, x.attr) for x in ast.walk(e) if isinstance(x, ast.Attribute) and isinstance(x.value, ast.Name) and x.value.id in sources}

        for a in own_nodes(f.node):
            if not isinstance(a, (ast.Assign, ast.AugAssign, ast.Expr)):
                continue
            used = src_attrs(a)
            if not used:
                continue
            p_ = getattr(a, "_parent", None)
            child = a
            while p_ is not None and p_ is not f.node:
                if isinstance(p_, ast.If) and any(child is st for st in p_.body):
                    t = p_.test
                    g = None
                    if isinstance(t, ast.Attribute) and isinstance(t.value, ast.Name) and t.value.id in sources:
                        g = (t.value.id, t.attr)
                    elif isinstance(t, ast.Compare) and len(t.ops) == 1 and isinstance(t.ops[0], (ast.IsNot, ast.NotEq)) and isinstance(t.left, ast.Attribute) \
                            and isinstance(t.left.value, ast.Name) and t.left.value.id in sources and isinstance(t.comparators[0], ast.Constant):
                        g = (t.left.value.id, t.left.attr)
                    if g is not None:
                        n += 1
                        ctx.check("R16", f"{f.local}: `{norm(a)[:50]}` under the presence test of {g[0]}.{g[1]}", g in used, f, a,
                                  f"`{norm(a)[:70]}` writes from {sorted('.'.join(u) for u in used)} but only runs when `{norm(t)}` holds: an object that has the one "
                                  f"and not the other ({g[1]} empty) loses the field in the proto",
                                  how="presence tests (truthiness / `is not None` of a source attribute) enclosing a write ⊆ the attributes the write reads",
                                  construct=f"write of {sorted(u[1] for u in used)} guarded by presence of {g[1]}")
                child, p_ = p_, getattr(p_, "_parent", None)
    ctx.require(n >= 20, f"only {n} presence-guarded writes found in the serializer")


def rule_r17(ctx):
    f = ctx.repo.func(f"{SERDE}:serialize_graph_into")
    src = f.params[1] if len(f.params) > 1 else "from_"
    # emitters: module functions that add to <proto>.quantization_annotation
    emitters = {g.name for g in ctx.repo.module(SERDE).all_funcs if not isinstance(g.node, ast.Lambda) and any(
        isinstance(c.func, ast.Attribute) and c.func.attr == "add" and norm(c.func.value).endswith(".quantization_annotation") for c in calls_in(g))}
    ctx.require(bool(emitters), "no function adds to <graph proto>.quantization_annotation")

    def coll_of(lp):
        """The collection of the graph a top-level loop ranges over: inputs / initializers / nodes / outputs."""
        for x in ast.walk(lp.iter):
            if isinstance(x, ast.Attribute) and isinstance(x.value, ast.Name) and x.value.id == src and x.attr in ("inputs", "initializers", "outputs"):
                return x.attr
        if isinstance(lp.iter, ast.Name) and lp.iter.id == src:
            return "nodes"
        return None

    # what each local is derived from (collections of the graph), to a fixpoint
    derived: dict[str, set[str]] = {}
    for _ in range(4):
        for n in own_nodes(f.node):
            if isinstance(n, ast.Assign) and len(n.targets) == 1 and isinstance(n.targets[0], ast.Name):
                d = set()
                for x in ast.walk(n.value):
                    if isinstance(x, ast.Attribute) and isinstance(x.value, ast.Name) and x.value.id == src and x.attr in ("inputs", "initializers", "outputs"):
                        d.add(x.attr)
                    if isinstance(x, ast.Name) and x.id in derived:
                        d |= derived[x.id]
                if d:
                    derived.setdefault(n.targets[0].id, set()).update(d)
            # … and what is merged into it later: X.update(E) / X |= E
            tgt = val = None
            if isinstance(n, ast.Call) and isinstance(n.func, ast.Attribute) and n.func.attr in ("update", "extend") and isinstance(n.func.value, ast.Name) and n.args:
                tgt, val = n.func.value.id, n.args[0]
            elif isinstance(n, ast.AugAssign) and isinstance(n.target, ast.Name):
                tgt, val = n.target.id, n.value
            if tgt is not None:
                d = set()
                for x in ast.walk(val):
                    if isinstance(x, ast.Attribute) and isinstance(x.value, ast.Name) and x.value.id == src and x.attr in ("inputs", "initializers", "outputs"):
                        d.add(x.attr)
                    if isinstance(x, ast.Name) and x.id in derived:
                        d |= derived[x.id]
                if d:
                    derived.setdefault(tgt, set()).update(d)
    loops = [lp for lp in f.node.body if isinstance(lp, ast.For) and coll_of(lp) is not None
             and any(_emits(c, emitters) for c in ast.walk(lp))]
    ctx.require(len(loops) >= 4, f"serialize_graph_into: only {len(loops)} loops emit quantization annotations (inputs, initializers, node outputs, outputs expected)")
    structurally_disjoint = {frozenset(("nodes", "inputs")), frozenset(("nodes", "initializers"))}
    for j, lp in enumerate(loops):
        mine = coll_of(lp)
        call = next(c for c in ast.walk(lp) if _emits(c, emitters))
        # what guards the emission inside this loop: tests of enclosing ifs and of earlier `if …: continue`
        tests = []
        p_ = getattr(call, "_parent", None)
        while p_ is not None and p_ is not lp:
            if isinstance(p_, ast.If):
                tests.append(p_.test)
            p_ = getattr(p_, "_parent", None)
        tests += _earlier_continue_tests(lp, call)
        tests += _callee_guards(f, call, emitters)
        mentioned: set[str] = set()
        guard_names: set[str] = set()
        for t in tests:
            for x in ast.walk(t):
                if isinstance(x, ast.Attribute) and isinstance(x.value, ast.Name) and x.value.id == src:
                    mentioned.add(x.attr)
                if isinstance(x, ast.Name) and x.id in derived:
                    mentioned |= derived[x.id]
                    guard_names.add(x.id)
                if isinstance(x, ast.Call) and isinstance(x.func, ast.Attribute) and x.func.attr == "is_graph_output":
                    mentioned.add("outputs")
                if isinstance(x, ast.Call) and isinstance(x.func, ast.Attribute) and x.func.attr == "is_graph_input":
                    mentioned.add("inputs")
                if isinstance(x, ast.Call) and isinstance(x.func, ast.Attribute) and x.func.attr == "is_initializer":
                    mentioned.add("initializers")
        others = [coll_of(o) for k, o in enumerate(loops) if k != j]
        for other in dict.fromkeys(others):
            if other == mine or frozenset((mine, other)) in structurally_disjoint:
                continue
            # the pair is covered when either of the two loops guards against the other's collection
            lp_o = next(o for o in loops if coll_of(o) == other)
            covered = other in mentioned or _guards_against(lp_o, mine, src, derived, emitters, f)
            if loops.index(lp_o) < j or not covered:
                ctx.check("R17", f"serialize_graph_into: annotations of {mine} are not emitted again for values that are also {other}", covered, f, call,
                          f"the loop over the {mine} emits a quantization annotation for every value with one, and so does the loop over the {other}: a value that is both "
                          f"(a graph input passed through as an output, an initializer listed as an output) gets two TensorAnnotation entries of one tensor name",
                          how="pairwise: one of the two emitting loops tests membership in (a set built from) the other's collection, or the value's own flag",
                          construct=f"annotation emitted for {mine} and again for {other}")
        if mine == "outputs":
            records = any(isinstance(c, ast.Call) and isinstance(c.func, ast.Attribute) and c.func.attr == "add" and isinstance(c.func.value, ast.Name)
                          and c.func.value.id in guard_names for c in ast.walk(lp))
            ctx.check("R17", "serialize_graph_into: an output listed twice is annotated once", records, f, call,
                      "the graph outputs may list one value twice (C14's OutputFixPass exists because of it); the loop over the outputs emits the annotation of such a "
                      "value once per position",
                      how="the set the emission is guarded by is added to inside the loop", construct="annotation emitted per output position")


def _earlier_continue_tests(lp, call):
    """Tests of `if …: continue` statements that precede the call in its block or in an enclosing block of the loop (by position
    in the statement lists: expanded helpers keep the line numbers of the helper)."""
    out = []
    child, p_ = call, getattr(call, "_parent", None)
    while p_ is not None:
        for fld in ("body", "orelse"):
            b = getattr(p_, fld, None)
            if isinstance(b, list) and any(child is st for st in b):
                for st in b[: next(i for i, st in enumerate(b) if st is child)]:
                    if isinstance(st, ast.If) and any(isinstance(y, ast.Continue) for y in st.body):
                        out.append(st.test)
        if p_ is lp:
            break
        child, p_ = p_, getattr(p_, "_parent", None)
    return out


def _callee_guards(f, call, emitters):
    """Tests that govern the emission inside a module function the loop hands the value to (`_emit_for(graph_proto, value)`): ifs
    enclosing the emission there, and the guard clauses (`if …: return`) before it - read as tests of the loop itself."""
    d = dotted_of(call.func) or ""
    g = f.module.functions.get(d) if "." not in d else None
    if g is None or isinstance(g.node, ast.Lambda):
        return []
    inner = next((c for c in ast.walk(g.node) if c is not call and _emits(c, emitters - {g.name})), None)
    if inner is None:
        return []
    tests = []
    child, p_ = inner, getattr(inner, "_parent", None)
    while p_ is not None:
        if isinstance(p_, ast.If):
            tests.append(p_.test)
        for fld in ("body", "orelse"):
            b = getattr(p_, fld, None)
            if isinstance(b, list) and any(child is st for st in b):
                for st in b[: next(i for i, st in enumerate(b) if st is child)]:
                    if isinstance(st, ast.If) and any(isinstance(y, (ast.Return, ast.Continue)) for y in st.body):
                        tests.append(st.test)
        if p_ is g.node:
            break
        child, p_ = p_, getattr(p_, "_parent", None)
    return tests


def _emits(c, emitters) -> bool:
    return isinstance(c, ast.Call) and ((dotted_of(c.func) or "") in emitters or (
        isinstance(c.func, ast.Attribute) and c.func.attr == "add" and norm(c.func.value).endswith(".quantization_annotation")))


def _guards_against(lp, coll, src, derived, emitters, f=None) -> bool:
    call = next((c for c in ast.walk(lp) if _emits(c, emitters)), None)
    if call is None:
        return False
    tests = []
    p_ = getattr(call, "_parent", None)
    while p_ is not None and p_ is not lp:
        if isinstance(p_, ast.If):
            tests.append(p_.test)
        p_ = getattr(p_, "_parent", None)
    tests += _earlier_continue_tests(lp, call)
    if f is not None:
        tests += _callee_guards(f, call, emitters)
    flag = {"outputs": "is_graph_output", "inputs": "is_graph_input", "initializers": "is_initializer"}.get(coll)
    for t in tests:
        for x in ast.walk(t):
            if isinstance(x, ast.Attribute) and isinstance(x.value, ast.Name) and x.value.id == src and x.attr == coll:
                return True
            if isinstance(x, ast.Name) and coll in derived.get(x.id, ()):
                return True
            if isinstance(x, ast.Call) and isinstance(x.func, ast.Attribute) and x.func.attr == flag:
                return True
    return False


def rule_r19(ctx):
    k = ctx.repo.cls("onnx_ir._core:Function")
    init = k.methods.get("__init__")
    ctx.require(init is not None, "Function.__init__ not found")
    me = init.params[0]
    n = 0
    for part in ("domain", "name", "overload"):
        stores = [a for a in own_nodes(init.node) if isinstance(a, (ast.Assign, ast.AnnAssign)) and getattr(a, "value", None) is not None and any(
            isinstance(t, ast.Attribute) and norm(t.value) == me and t.attr in (part, "_" + part) for t in (a.targets if isinstance(a, ast.Assign) else [a.target]))]
        for a in stores:
            n += 1
            ok = isinstance(a.value, ast.Name) and a.value.id in init.params
            ctx.check("R19", f"Function.__init__: `{norm(a)[:50]}` keeps the {part} as given", ok, init, a,
                      f"`{norm(a)[:70]}` rewrites the {part} a function is created with: the reader of pre-IR10 function value information matches `<domain>::<name>/<value>` "
                      "against the identifiers of the model's functions as text, so entries written with the original spelling (`ai.onnx::F/x`) match no function any more and "
                      "are dropped - the value information of the function's values is lost in proto -> IR -> proto",
                      how="right-hand side of the identifier stores in Function.__init__ is the bare parameter", construct=f"Function.__init__ rewrites its {part}")
    ctx.require(n >= 3, f"only {n} identifier stores found in Function.__init__")


def rule_r20(ctx):
    from ..shared import misplaced_named_arguments

    hits, n = misplaced_named_arguments(ctx.repo, ctx.typer, lambda name: True)
    for f, c, arg, param, g in hits:
        ctx.check("R20", f"S21 {f.local}: `{arg}` is passed to the parameter of that name", False, f, c,
                  f"`{norm(c)[:80]}` passes `{arg}` in the position of the parameter `{param}` of {g.local}, which has a parameter called `{arg}` of its own: the value ends up in the "
                  "wrong field (a doc string stored as the name of a referenced attribute turns the attribute into a reference attribute: its value and doc string are not "
                  "serialized, and a dangling ref_attr_name is)",
                  how="positional arguments that are plain names × parameter names of the resolved callee", construct=f"{arg} passed as {param} of {g.local}")
    ctx.ob("R20", f"{n} positional arguments of resolved package calls examined", True, how="S21")
    ctx.require(n >= 500, f"only {n} positional arguments of resolved calls found")


def run(ctx):
    from . import c17

    rule_r20(ctx)
    rule_r19(ctx)

    c17.rule_r9(ctx, rule="R18", consequence="the declared shape (unknown and named dimensions, denotations) or type of the entry is replaced by the tensor's, "
                "so the value_info entry serialized afterwards is not the one that was read")
    rule_r17(ctx)
    rule_r16(ctx)
    rule_r14(ctx)
    rule_r13(ctx)
    rule_r12(ctx)
    rule_type_reader_siblings(ctx)
    rule_r11(ctx)
    rule_r10(ctx)
    rule_r9(ctx)
    rule_r6(ctx)
    rule_r7(ctx)
    rule_r8(ctx)
    rule_r1(ctx)
    rule_r2(ctx)
    rule_r3(ctx)
    rule_r4(ctx)
    rule_r5(ctx)
    rule_r15(ctx)
