"""C06 — a rejected edit leaves every IR object exactly as it was."""

from __future__ import annotations

import ast
import hashlib
import re

from ..effects import Effects
from ..facts import calls_in
from ..index import FuncInfo, dotted_of, norm, own_nodes, short

PROPERTY = "C06"
RULES = {
    "R1": "validate-before-commit: in every public mutator no path performs a write to non-fresh IR state (M) and "
    "afterwards reaches a point that can still reject (C) — explicit raise, rejecting callee, or rejecting builtin — "
    "including loop-carried orderings (k-th element)",
    "R2": "every rejection point counted by R1 is either feasible or discharged by the frozen infeasibility table "
    "(guards backed by a C01/C11 invariant or by a dominating test), one reason per entry; a table entry that no "
    "longer matches anything is reported",
    "R3": "the validation sees what the commit sees (shared rule S13): a parameter declared as an Iterable is iterated at one point "
    "only, or is first rebound to a materialised copy (`nodes = tuple(nodes)`) - the library's validate-then-commit mutators walk "
    "their argument twice, and a generator handed to `frozenset(nodes)` is empty when the validation loop iterates `nodes` "
    "again: nothing is validated, the commit loop runs on unchecked nodes and rejects half-way",
}
FLOORS = {"R1": 45, "R2": 10, "R3": 15}
EXPLANATION = (
    "Interprocedural effect summaries (writes on non-fresh objects, rejection points with their path conditions, "
    "through the type-resolved call graph incl. property setters, __setitem__/__delitem__ and the stdlib "
    "UserList/UserDict mixins specialised per receiver class) feed a forward may-analysis over each mutator's CFG "
    "that finds every M→C ordering, loop back-edges and comprehensions included."
)
NOT_DECIDED = "that validation is complete (e.g. MemoryError, AttributeError on a None argument, exceptions from user callbacks)"
ASSUMPTIONS = [
    "assert does not reject; onnx_ir.DEBUG-only invariance checks are not rejections",
    "TypeError/AttributeError from passing objects of the wrong Python type are outside the statement's list of rejections "
    "unless raised explicitly by the library",
]

GC = "onnx_ir._graph_containers"
CORE = "onnx_ir._core"

# ---- R2: rejection points that cannot fire where they are reached -----------------------------
# (regex on "Origin.local: condition", regex on the via-chain or None, reason)
def _unnamed_twice_guard(text: str) -> bool:
    """The validation rejects an unnamed value that is given under a second key: the rejection holds under a test that the value
    has no name (`not v.name`, directly or as the negation of an earlier `if v.name: continue`) and compares the key recorded for
    `id(v)` with the current key."""
    unnamed = re.search(r"not \(?\(?[\w$]+\.name\b", text) is not None
    return unnamed and "id(" in text and ("!=" in text or " is not " in text)


def _complete_step_guard(text: str) -> bool:
    """The validation rejects EVERY extended slice whose size differs from the assigned sequence: a conjunction of a test that
    holds for every step other than None and 1 (`<i>.step not in (None, 1)`, `<i>.step is not None and <i>.step != 1`) and of
    `len(<a>) != len(<b>)` - `(i.step or 1) > 1` lets negative steps through."""
    for part in re.split(r" ## | && ", text):
        try:
            e = ast.parse(part.strip(), mode="eval").body
        except SyntaxError:
            continue
        conj = e.values if isinstance(e, ast.BoolOp) and isinstance(e.op, ast.And) else [e]
        flat = []
        for c in conj:
            flat += c.values if isinstance(c, ast.BoolOp) and isinstance(c.op, ast.And) else [c]

        def is_step(x):
            return isinstance(x, ast.Attribute) and x.attr == "step"

        step_ok = False
        for c in flat:
            if isinstance(c, ast.Compare) and len(c.ops) == 1 and isinstance(c.ops[0], ast.NotIn) and is_step(c.left) \
                    and isinstance(c.comparators[0], (ast.Tuple, ast.Set, ast.List)):
                vals = [x.value for x in c.comparators[0].elts if isinstance(x, ast.Constant)]
                if len(vals) == len(c.comparators[0].elts) and set(map(repr, vals)) == {"None", "1"}:
                    step_ok = True
        not_none = any(isinstance(c, ast.Compare) and len(c.ops) == 1 and isinstance(c.ops[0], ast.IsNot) and is_step(c.left)
                       and isinstance(c.comparators[0], ast.Constant) and c.comparators[0].value is None for c in flat)
        not_one = any(isinstance(c, ast.Compare) and len(c.ops) == 1 and isinstance(c.ops[0], ast.NotEq) and is_step(c.left)
                      and isinstance(c.comparators[0], ast.Constant) and c.comparators[0].value == 1 for c in flat)
        step_ok = step_ok or (not_none and not_one)
        len_ok = any(isinstance(c, ast.Compare) and len(c.ops) == 1 and isinstance(c.ops[0], ast.NotEq)
                     and all(isinstance(x, ast.Call) and isinstance(x.func, ast.Name) and x.func.id == "len" for x in (c.left, c.comparators[0])) for c in flat)
        if step_ok and len_ok:
            return True
    return False


def _ascending_release_loop(f) -> bool:
    """the loop that releases the dropped inputs visits them in ascending order, smallest index first: every `for i in <range>` whose
    body calls replace_input_with(i, …) iterates a plain two-argument `range(lo, hi)` (no reversed(), no negative step)"""
    size = f.params[1] if len(f.params) > 1 else None
    for n in f.node.body:
        # … or a negative size is refused outright before anything else happens
        if isinstance(n, ast.If) and n.body and isinstance(n.body[-1], ast.Raise) and isinstance(n.test, ast.Compare) and len(n.test.ops) == 1 and (
                (isinstance(n.test.ops[0], ast.Lt) and norm(n.test.left) == size and norm(n.test.comparators[0]) == "0")
                or (isinstance(n.test.ops[0], ast.Gt) and norm(n.test.comparators[0]) == size and norm(n.test.left) == "0")):
            return True
        if isinstance(n, (ast.For, ast.While, ast.With, ast.Try)) or (isinstance(n, ast.If) and any(isinstance(x, ast.For) for x in ast.walk(n))):
            break
    loops = 0
    for n in own_nodes(f.node):
        if isinstance(n, ast.For) and any(isinstance(c, ast.Call) and isinstance(c.func, ast.Attribute) and c.func.attr == "replace_input_with" for st in n.body for c in ast.walk(st)):
            loops += 1
            it = n.iter
            if not (isinstance(it, ast.Call) and dotted_of(it.func) == "range" and len(it.args) in (1, 2) and not it.keywords):
                return False
    return loops > 0


_ascending_release_loop._on_function = True


INFEASIBLE = [
    {"guard": '^_LinkBox\\.erase: self\\.value is None', "via": None, "why": 'erase() is only called by DoublyLinkedSet.remove on a box taken from the id→box map, which holds live boxes only (C11-R3)', "requires": ()},
    {"guard": '^DoublyLinkedSet\\._insert_one_after: \\$p1\\.owning_list is not self', "via": None, "why": "box is self._root(.prev) or a box from self's own map in every caller (C11-R3 insertion entry points)", "requires": ()},
    {"guard": '^DoublyLinkedSet\\.remove: (\\(\\$\\d+ := id\\(value\\)\\)|id\\(value\\)) not in self\\._value_ids_to_boxes', "via": 'DoublyLinkedSet\\._insert_one_after', "why": 'the call in _insert_one_after is guarded by `id in self._value_ids_to_boxes`', "requires": ()},
    {"guard": '^DoublyLinkedSet\\.remove: (\\(\\$\\d+ := id\\(value\\)\\)|id\\(value\\)) not in self\\._value_ids_to_boxes', "via": '^onnx_ir\\._core:Graph\\.remove$|Graph\\.remove,', "why": 'Graph.remove validated `node.graph is self` for every node before unlinking; a node names a graph iff it is in its list (C01-R3b)', "requires": ('(node|\\$\\d+)\\.graph is not self',)},
    {"guard": '^DoublyLinkedSet\\._insert_one_after: \\$p2 is None', "via": None, "why": 'every Graph-level caller dereferences the node (node.graph) in _set_node_graph_to_self_and_assign_names first', "requires": ()},
    {"guard": '^Value\\._remove_usage: `self\\._uses\\.pop\\(Usage\\(\\$p1, \\$p2\\)\\)`: key absent', "via": None, "why": 'a use (node, i) is registered for every non-None input slot (C01-R3a), and the caller checked old_input is not None', "requires": ()},
    {"guard": '^Node\\.replace_input_with: index < 0 or index >= len\\(self\\.inputs\\)', "via": 'Graph\\.remove|Value\\.replace_all_uses_with', "why": 'the index is drawn from range(len(node.inputs)) / from value.uses(), which are in range for their node (C01-R3a)', "requires": ()},
    {"guard": '^Node\\.replace_input_with: index < 0 or index >= len\\(self\\.inputs\\)', "via": 'Node\\.resize_inputs', "why": 'the indices are visited in ascending order from new_size up to the current size: the only one that can be out of range (a negative new_size) is the first, checked before anything is released', "requires": (_ascending_release_loop,)},
    {"guard": '^Value\\.name\\.setter: ', "via": 'NameAuthority\\.register_or_name_value', "why": "the name authority assigns a name only when value.name is None, and an initializer always has a name, so the setter's initializer branch is dead", "requires": ()},
    {"guard": '^(GraphInitializers\\.(__setitem__|_check_item)|GraphInitializers\\.(_set_graph|_check_can_set_graph)|UserDict\\.__delitem__@GraphInitializers): ', "via": 'NameAuthority\\.register_or_name_value', "why": "reached only through the name setter's initializer branch, dead for a value whose name is None", "requires": ()},
    {"guard": '^GraphInitializers\\.(__setitem__|_check_item): not isinstance\\((value|\\$p2), _core\\.Value\\)', "via": 'Value\\.name\\.setter', "why": 'the value re-keyed by the name setter is `self`, a Value', "requires": ()},
    {"guard": '^GraphInitializers\\.(__setitem__|_check_item): (not \\(not value\\.name\\) and key != value\\.name|value\\.name and key != value\\.name|\\$p2\\.name and \\$p1 != \\$p2\\.name)', "via": 'Value\\.name\\.setter', "why": 'the setter stores the new name in self._name before re-keying under the same new name', "requires": ()},
    {"guard": '^GraphInitializers\\.(__setitem__|_check_item): (value|\\$p2)\\.producer\\(\\) is not None', "via": 'Value\\.name\\.setter', "why": 'an initializer has no producer (C01-R4)', "requires": ()},
    {"guard": '^GraphInitializers\\.(_set_graph|_check_can_set_graph): (value|\\$p1)\\._graph is not None and (value|\\$p1)\\._graph is not self\\._graph', "via": 'Value\\.name\\.setter', "why": "the initializer's _graph is the graph whose initializers are re-keyed", "requires": ()},
    {"guard": "^GraphInitializers\\.(__setitem__|_check_item): (key|\\$p1) == ''", "via": 'Value\\.name\\.setter', "why": "the setter rejects the empty string for an initializer before anything is written (fix 5006b98)", "requires": ("value == ''",)},
    {"guard": '^GraphInitializers\\.(__setitem__|_check_item): not isinstance\\((key|\\$p1), str\\)', "via": 'Value\\.name\\.setter', "why": 'the new name is annotated str | None and None is rejected up front; a non-string name is a type-violating call (wrong Python types are outside the property, see NOT_DECIDED)', "requires": ()},
    {"guard": '^Value\\.name\\.setter: ', "via": 'GraphInitializers\\.(__setitem__|_check_item), .*Value\\.name\\.setter|Value\\.name\\.setter, .*GraphInitializers\\.(__setitem__|_check_item), .*Value\\.name\\.setter', "why": "__setitem__ names the value only when it has no name; re-entry of the setter from the setter's own re-keying sees name == key and returns early", "requires": ()},
    {"guard": '^GraphInitializers\\.(__setitem__|_check_item): (not \\(not value\\.name\\) and key != value\\.name|value\\.name and key != value\\.name|\\$p2\\.name and \\$p1 != \\$p2\\.name)', "via": 'GraphInitializers\\.update', "why": 'the commit writes `value.name = key` only for an unnamed value, and update rejects up front an unnamed value given under two different keys (fix b8d1d7f), so no key is ever compared with a name set for an earlier key', "requires": (_unnamed_twice_guard,)},
    {"guard": '^UserList\\.__setitem__@_GraphIO: `i` is an extended slice', "via": '_GraphIO\\.__setitem__', "why": 'the index branch runs under isinstance(i, SupportsIndex); the slice branch rejects an extended slice whose size differs from the assigned sequence before it releases or adopts anything (fix df0f9ca)', "requires": (_complete_step_guard,)},
    {"guard": '^UserDict\\.__delitem__@GraphInitializers: key of `del self\\.data\\[key\\]` absent', "via": 'Value\\.name\\.setter', "why": 'an initializer is stored under its current name (C01-R3d), which is the key popped', "requires": ()},
    {"guard": '^UserDict\\.__delitem__@GraphInitializers: key of `del self\\.data\\[key\\]` absent', "via": 'GraphInitializers\\.__delitem__', "why": '__delitem__ reads self.data[key] (KeyError before any write) before unsetting', "requires": ()},
    {"guard": '^Graph\\.(_set_node_graph_to_self_and_assign_names|_check_node_can_be_added): (node|\\$p1)\\.graph is not None and (node|\\$p1)\\.graph is not self', "via": '^onnx_ir\\._core:Graph\\.sort,', "why": 'each bucket of sorted nodes is keyed by node.graph and extended into that same graph (C12-R2)', "requires": ()},
    {"guard": '^Graph\\.(_set_node_graph_to_self_and_assign_names|_check_node_can_be_added): (node|\\$p1)\\.graph is not None and (node|\\$p1)\\.graph is not self', "via": '^onnx_ir\\._core:Node\\.__init__,', "why": 'the node under construction has self._graph = None assigned just before graph.append(self)', "requires": ()},
    {"guard": '^Value\\.replace_all_uses_with: self\\.is_graph_output\\(\\) and not replace_graph_outputs', "via": '^onnx_ir\\._convenience:replace_nodes_and_values,', "why": 'replace_nodes_and_values passes replace_graph_outputs=True', "requires": ()},
    {"guard": '^Shape\\.__setitem__: self\\._frozen', "via": 'Value\\.merge_shapes', "why": 'merge_shapes copies a frozen shape before writing into it', "requires": ()},
    {"guard": '^(SymbolicDim\\.__init__|_maybe_convert_to_symbolic_dim): ', "via": 'Value\\.merge_shapes', "why": 'merged dims are taken from existing Shapes, whose elements are int or SymbolicDim', "requires": ()},
    {"guard": '^Value\\.shape\\.setter: (always|value is not None and not \\(isinstance\\(value, Shape\\)\\))', "via": 'replace_nodes_and_values', "why": "old_value.shape is a Shape or None by the same setter's invariant", "requires": ()},
    {"guard": '^UserList\\.__delitem__@_GraphIO: key of `del self\\.data\\[i\\]` absent', "via": '_GraphIO\\.__delitem__', "why": '__delitem__ reads self.data[i] (IndexError before any write) with the same index first', "requires": ()},
    {"guard": '^DoublyLinkedSet\\.insert_(after|before): (\\(\\$\\d+ := id\\(value\\)\\)|id\\(value\\)) not in self\\._value_ids_to_boxes', "via": '^onnx_ir\\._core:Graph\\.insert_(after|before),', "why": 'the anchor was validated with `node.graph is not self` before any write; a node names a graph iff it is in its list (C01-R3b)', "requires": ('(node|\\$\\d+)\\.graph is not self',)},
    {"guard": '^Value\\.name\\.setter: ', "via": '^onnx_ir\\._convenience:rename_values,', "why": "initializer values were popped from their graphs before renaming, so the setter's initializer branch is dead", "requires": ()},
    {"guard": '^(GraphInitializers\\.(__setitem__|_check_item)|GraphInitializers\\.(_set_graph|_check_can_set_graph)): ', "via": '^onnx_ir\\._convenience:rename_values,', "why": 'validated up front: every value is a Value, every initializer name a non-empty str without collision; values are re-added under their own new names to the graph they were popped from', "requires": ("(name|\\$\\d+) == ''", 'not isinstance\\((value|\\$\\d+), _core\\.Value\\)', 'not isinstance\\((name|\\$\\d+), str\\)')},
]


def mutators(ctx) -> list[FuncInfo]:
    repo = ctx.repo
    out: list[FuncInfo] = []
    gc = repo.module(GC)
    for cn in ("_GraphIO", "GraphInputs", "GraphOutputs", "GraphInitializers", "Attributes"):
        c = repo.cls(f"{GC}:{cn}")
        for f in c.methods.values():
            if f.name.startswith("_check") or f.only_raises() or f.is_abstract_stub():
                continue
            out.append(f)
    table = {
        "Graph": ["__init__", "append", "extend", "insert_after", "insert_before", "remove", "sort", "register_initializer"],
        "Function": ["append", "extend", "insert_after", "insert_before", "remove", "sort"],
        "Node": ["__init__", "replace_input_with", "resize_inputs", "resize_outputs", "shard", "set_pipeline_stage", "prepend", "append"],
        "Value": ["replace_all_uses_with", "merge_shapes"],
        "Model": ["add_device_configuration", "remove_device_configuration"],
    }
    for cn, names in table.items():
        c = repo.cls(f"{CORE}:{cn}")
        for n in names:
            ctx.require(n in c.methods, f"mutator {cn}.{n} not found")
            out.append(c.methods[n])
    setter = repo.cls(f"{CORE}:Value").props.get("name", {}).get("set")
    ctx.require(setter is not None, "Value.name setter not found")
    out.append(setter)
    for n in ("replace_all_uses_with", "rename_values", "replace_nodes_and_values"):
        out.append(repo.func(f"onnx_ir._convenience:{n}"))
    return out


def discharged(rej, used: dict, site=None) -> str | None:
    chain = ", ".join(rej.via)
    for i, ent in enumerate(INFEASIBLE):
        if re.search(ent["guard"], rej.key) and (ent["via"] is None or re.search(ent["via"], chain)):
            used[i] = used.get(i, 0) + 1
            used.setdefault(("by", i), set()).update(rej.via)
            if site is not None:
                used.setdefault(("sites", i), []).append(site)
            return ent["why"]
    return None


def _loop_of(node, var: str, stop):
    """Innermost enclosing for-loop (or comprehension) of `node` whose target is `var`."""
    p = getattr(node, "_parent", None)
    while p is not None and p is not stop:
        if isinstance(p, ast.For) and (norm(p.target) == var or (isinstance(p.target, ast.Tuple) and var in [norm(e) for e in p.target.elts])):
            return p, norm(p.iter)
        if isinstance(p, (ast.ListComp, ast.GeneratorExp, ast.SetComp)):
            for g in p.generators:
                if norm(g.target) == var:
                    return p, norm(g.iter)
        p = getattr(p, "_parent", None)
    return None, None


def prevalidated(ef: Effects, f: FuncInfo, c_event, rej) -> str | None:
    """R2 (validate-then-commit idiom): the rejection belongs to a side-effect-free checker that the mutator
    already ran, on the same argument or over the same iterable, at a point dominating this site."""
    site = c_event.node
    if not isinstance(site, ast.Call) or not site.args:
        return None
    cfg, _ = ef.events(f)
    cand = {rej.origin, *rej.via}
    sn = cfg.nodes_containing(site)
    if not sn:
        return None
    a2 = norm(site.args[0])
    for x in calls_in(f):
        if x is site or not x.args:
            continue
        tg, _st = ef._call_targets(f, x)
        # dynamic dispatch may give several alternatives (one per container class): all must be side-effect
        # free and the rejection's own checker must be among them
        if not tg or any(ef.summary(g).mods for g in tg):
            continue
        # the checker called earlier is the rejection's own function, or one that can raise the very same guard
        pure = [g for g in tg if g.key in cand or rej.key in ef.summary(g).rejs]
        # … and the checker reaches that guard whatever else holds: where it only forwards to the function that owns the guard, the
        # forwarding call is not under a test of its own (`if value.is_initializer(): self._check_can_set_graph(value)` checks
        # ownership for initializers only, the commit rejects every foreign value)
        pure = [g for g in pure if not _forwards_conditionally(ef, g, rej)]
        if not pure:
            continue
        xn = cfg.nodes_containing(x)
        if not xn or xn[0].id == sn[0].id:
            continue
        xa = [norm(a) for a in x.args]
        a1 = a2 if a2 in xa else xa[0]
        l1, it1 = _loop_of(x, a1, f.node)
        l2, it2 = _loop_of(site, a2, f.node)
        if l1 is None and l2 is None and a1 == a2 and cfg.dominates(xn[0], sn[0]):
            return f"{pure[0].local}({a1}) was called before any write"
        if l1 is not None and l2 is None and isinstance(l1, ast.For) and it1 in (a2, f"{a2}.items()", f"{a2}.values()") and _checks_every_element(l1, x):
            # the whole container is handed to a callee after each of its elements passed the checker
            ln = [n for n in cfg.node_of(l1) if n.kind == "iter"]
            if ln and cfg.dominates(ln[0], sn[0]):
                if _interferes(ef, f, site, rej):
                    continue
                return f"every element of `{a2}` passed {pure[0].local} before the container is handed over"
        if l1 is not None and l2 is not None and l1 is not l2 and it1 == it2 and _checks_every_element(l1, x):
            # the whole validation loop precedes the commit loop
            ln = [n for n in cfg.node_of(l1) if n.kind == "iter"]
            if (ln and cfg.dominates(ln[0], sn[0])) or not isinstance(l1, ast.For):
                if _interferes(ef, f, site, rej):
                    continue
                return f"every element of `{it1}` passed {pure[0].local} in an earlier loop"
    return None


def _forwards_conditionally(ef: Effects, g: FuncInfo, rej) -> bool:
    """The checker g does not own the guard and every call through which it can reach it sits under an if-test."""
    from ..effects import path_condition

    if rej.origin == g.key or isinstance(g.node, ast.Lambda):
        return False
    sites = []
    for x in calls_in(g):
        tg, _st = ef._call_targets(g, x)
        if any(h.key == rej.origin or rej.key in ef.summary(h).rejs for h in tg or ()):
            sites.append(x)
    if not sites:
        return False
    return all(path_condition(x, g.node) != "always" and not _only_guard_negations(x, g.node) for x in sites)


def _only_guard_negations(node, stop) -> bool:
    """The statement is enclosed by no if at all (its path condition comes from guard clauses before it only)."""
    p = getattr(node, "_parent", None)
    while p is not None and p is not stop:
        if isinstance(p, (ast.If, ast.IfExp, ast.While, ast.Try, ast.For)):
            return False
        p = getattr(p, "_parent", None)
    return True


def _checks_every_element(loop, check_call) -> bool:
    """The validation loop applies the checker to every element: nothing ends the loop early (break), and no iteration is left
    (continue / return) before the checker has run - a `continue` in a statement that FOLLOWS the check skips nothing of it."""
    body = getattr(loop, "body", None)
    if not isinstance(body, list):
        return not any(isinstance(n, (ast.Break, ast.Continue, ast.Return)) for n in ast.walk(loop))
    idx = next((i for i, st in enumerate(body) if any(check_call is y for y in ast.walk(st))), None)
    if idx is None:
        return False
    if any(isinstance(n, ast.Break) for st in body for n in ast.walk(st) if not isinstance(st, (ast.For, ast.While)) or True):
        return False
    if any(isinstance(n, (ast.Continue, ast.Return)) for st in body[: idx + 1] for n in ast.walk(st)):
        return False
    # … and the checker is not applied to some elements only: between the loop and the call there is no test of its own
    # (`if item not in self._seen: self._check(item)` validates the new elements, the commit rejects the others too)
    p = getattr(check_call, "_parent", None)
    while p is not None and p is not loop:
        if isinstance(p, (ast.If, ast.IfExp, ast.While, ast.BoolOp)):
            return False
        p = getattr(p, "_parent", None)
    return True


def _commit_writes(ef: Effects, g: FuncInfo, attr: str, depth=0, seen=None):
    """[(value expression, function)] of the assignments to `<x>.attr` / `<x>._attr` reachable from g (3 levels)."""
    seen = seen if seen is not None else set()
    if g.key in seen or depth > 3 or isinstance(g.node, ast.Lambda):
        return []
    seen.add(g.key)
    out = []
    for n in own_nodes(g.node):
        if isinstance(n, (ast.Assign, ast.AnnAssign, ast.AugAssign)) and getattr(n, "value", None) is not None:
            for t in (n.targets if isinstance(n, ast.Assign) else [n.target]):
                if isinstance(t, ast.Attribute) and t.attr.lstrip("_") == attr:
                    out.append((n.value, g))
                    # a property setter: follow it as well (the stored expression is its parameter)
        if isinstance(n, ast.Call):
            tg, _ = ef._call_targets(g, n)
            for h in tg or ():
                out += _commit_writes(ef, h, attr, depth + 1, seen)
        # `x[k] = v` dispatches to a user-defined __setitem__
        if isinstance(n, (ast.Assign, ast.AugAssign)):
            for t in (n.targets if isinstance(n, ast.Assign) else [n.target]):
                if isinstance(t, ast.Subscript):
                    try:
                        ts = ef.ty.type_of(g, t.value)
                    except Exception:
                        ts = ()
                    for a in ts:
                        if a[0] == "cls":
                            for h in ef.ty._lookup_dyn(a[1], "__setitem__"):
                                if isinstance(h, FuncInfo):
                                    out += _commit_writes(ef, h, attr, depth + 1, seen)
    return out


def _invariant(e, g: FuncInfo) -> bool:
    """Expression does not depend on the element being committed: constants and self-rooted chains only."""
    selfname = g.params[0] if g.params else "self"
    return all(x.id == selfname for x in ast.walk(e) if isinstance(x, ast.Name))


def _interferes(ef: Effects, f: FuncInfo, site, rej) -> str | None:
    """The validate-then-commit idiom checks every element against the state BEFORE the commit; the commit re-runs the
    check per element against the state the earlier elements left behind (the same object can sit under two keys or
    twice in a list). Harmless when every write of the commit to an attribute the guard reads stores an
    element-independent value that the guard excludes (`x.graph is not self`); harmful when the stored value depends
    on the element (`value.name = key`): the re-check of a later element can then reject."""
    attrs = {a.lstrip("_") for a in re.findall(r"\.([A-Za-z_]\w*)", rej.cond)}
    tg, _ = ef._call_targets(f, site)
    bad = []
    for a in sorted(attrs):
        writes = [w for g in tg or () for w in _commit_writes(ef, g, a)]
        if not writes:
            continue
        varying = [(e, g) for e, g in writes if not _invariant(e, g)]
        excluded = re.search(r"\._?%s (is not|!=) (self\b[\w.]*)" % re.escape(a), rej.cond) is not None
        if varying or not excluded:
            e, g = (varying or writes)[0]
            bad.append(f"{a} (stored as `{norm(e)}` in {g.local})")
    return "; ".join(bad) if bad else None


def _expanded_guard(f: FuncInfo, raise_node) -> str:
    """Tests of the `if`s enclosing a raise, with every local replaced by the expression it is bound to (one level): a
    validation written through a temporary (`step = i.step; if step not in (None, 1) …`) reads the same."""
    if raise_node is None or isinstance(f.node, ast.Lambda):
        return ""
    binds: dict[str, str] = {}
    for n in own_nodes(f.node):
        if isinstance(n, ast.Assign) and len(n.targets) == 1 and isinstance(n.targets[0], ast.Name):
            binds.setdefault(n.targets[0].id, norm(n.value))
    out = []

    def expand(t: str) -> str:
        for name, val in binds.items():
            t = re.sub(r"(?<![\w.])%s(?![\w(])" % re.escape(name), f"({val})", t)
        return t

    child, p = raise_node, getattr(raise_node, "_parent", None)
    while p is not None and p is not f.node:
        if isinstance(p, ast.If):
            out.append(expand(norm(p.test)))
        # what held when an earlier statement of the same block did not leave: `if c: continue` before the raise adds `not (c)`
        for fld in ("body", "orelse"):
            b = getattr(p, fld, None)
            if isinstance(b, list) and any(child is st for st in b):
                for st in b[: next(i for i, y in enumerate(b) if y is child)]:
                    if isinstance(st, ast.If) and not st.orelse and st.body and isinstance(st.body[-1], (ast.Continue, ast.Return, ast.Break)):
                        out.append(expand(f"not ({norm(st.test)})"))
        child, p = p, getattr(p, "_parent", None)
    return " && ".join(out)


def _under_test_of(node, name: str, stop) -> bool:
    """node sits in the body of `if <name>:` (the bare truth test of that variable)."""
    child, p = node, getattr(node, "_parent", None)
    while p is not None and p is not stop:
        if isinstance(p, ast.If) and isinstance(p.test, ast.Name) and p.test.id == name and any(child is b or any(child is x for x in ast.walk(b)) for b in p.body):
            return True
        child, p = p, getattr(p, "_parent", None)
    return False


def analyse_mutator(ef: Effects, f: FuncInfo, used: dict, own: frozenset = frozenset(), _memo=None, _depth=0):
    """[(M event, C event, [undischarged rejs], n_discharged)] grouped by C site.

    ``own``: keys of functions that are analysed (and reported) as mutators themselves; a callee among them that is
    not atomic is reported there, not again at every caller."""
    s = ef.summary(f)
    _memo = {} if _memo is None else _memo
    by_site: dict[int, list] = {}
    for m, c in s.dirty:
        if getattr(c, "late", False):
            g = c.callee
            if g.key in own or _depth > 5:
                continue
            # a callee site guarded by `if <its **kwargs parameter>:` is dead when this call passes no keyword arguments
            no_kw = isinstance(c.node, ast.Call) and not c.node.keywords and not any(isinstance(a, ast.Starred) for a in c.node.args)
            kwname = g.node.args.kwarg.arg if no_kw and not isinstance(g.node, ast.Lambda) and g.node.args.kwarg else None
            mk = (g.key, kwname)
            if mk not in _memo:
                _memo[mk] = []
                sub = analyse_mutator(ef, g, used, own, _memo, _depth + 1)
                _memo[mk] = [r for _, c2, u, _ in sub for r in u if not (kwname and _under_test_of(c2.node, kwname, g.node))]
            inner = _memo[mk]
            if not inner:
                continue
            ent = by_site.setdefault((id(c.node), "late"), [m, c, {}, 0])
            for r in inner:
                r2 = type(r)(r.origin, r.cond, r.exc, r.node, (f.key, g.key, *r.via))
                why = discharged(r2, used, (f.key, c.node)) or prevalidated(ef, f, c, r2)
                if why is None:
                    ent[2].setdefault(r.key, r)
                else:
                    ent[3] += 1
            continue
        ent = by_site.setdefault(id(c.node), [m, c, {}, 0])
        for r in c.rejs:
            r2 = type(r)(r.origin, r.cond, r.exc, r.node, (f.key, *r.via))
            why = discharged(r2, used, (f.key, c.node)) or prevalidated(ef, f, c, r)
            if why is None:
                ent[2].setdefault(r.key, r)
            else:
                ent[3] += 1
    return [(m, c, list(u.values()), n) for m, c, u, n in by_site.values()]


def required_validations(ef: Effects, muts, used: dict, i: int, ent: dict):
    """[(text of the validation, mutators the entry was used for, those among them that no longer validate)] for the dominating
    validations an infeasibility entry relies on."""
    out = []
    for need in ent["requires"]:
        # every mutator the entry was used for (and that the entry's `via` names) must still validate by itself
        holders = [f for f in muts if ent["via"] and re.search(ent["via"], f.key + ",") and f.key in used.get(("by", i), ())]
        if getattr(need, "_on_function", False):
            # a witness that is a shape of the mutator itself (e.g. the order in which a loop visits its indices), not one of its rejections
            missing = [f for f in holders if not need(f)]
        else:
            def _witnesses(f):
                return [r for r in ef.summary(f).rejs.values() if r.origin == f.key and (
                    need(r.cond + " ## " + _expanded_guard(f, r.node)) if callable(need) else re.search(need, r.cond + " ## " + _expanded_guard(f, r.node)))]

            def _covers(f, ws):
                """Every site of f at which the entry was used comes after one of the witnesses: the top-level statement of the function
                that holds the witness' rejection stands before (or is) the one that holds the site - a fast path that writes and
                returns before the validation is not covered by it."""
                sites = [nd for k_, nd in used.get(("sites", i), ()) if k_ == f.key]
                body = list(getattr(f.node, "body", []))

                def top(nd):
                    q = nd
                    while q is not None and getattr(q, "_parent", None) is not f.node:
                        q = getattr(q, "_parent", None)
                    return next((j_ for j_, st in enumerate(body) if st is q), None)

                wpos = [top(r.node) for r in ws]
                wpos = [x for x in wpos if x is not None]
                for nd in sites:
                    sp = top(nd)
                    if sp is not None and wpos and not any(w <= sp for w in wpos):
                        return False
                return True

            missing = [f for f in holders if not _witnesses(f) or not _covers(f, _witnesses(f))]
        text = (need.__doc__ or need.__name__).split(":")[0][:90] if callable(need) else need
        out.append((text, holders, missing))
    return out


def rule_r3(ctx):
    from ..shared import iterable_consumed_twice

    n = 0
    for m in ctx.repo.pkg_modules():
        if not (m.name in ("onnx_ir._core", "onnx_ir._graph_containers", "onnx_ir._linked_list", "onnx_ir._cloner") or m.name.startswith("onnx_ir._convenience")):
            continue
        for f in m.all_funcs:
            if isinstance(f.node, ast.Lambda):
                continue
            a = f.node.args
            its = [x.arg for x in a.posonlyargs + a.args + a.kwonlyargs if x.annotation is not None and any(w in norm(x.annotation) for w in ("Iterable", "Iterator"))]
            if not its:
                continue
            n += len(its)
            hits = iterable_consumed_twice(f)
            for p_, e1, e2 in hits:
                ctx.check("R3", f"{f.local}: `{p_}` is iterated once (or materialised first)", False, f, e2,
                          f"`{p_}` is declared an Iterable and is consumed by `{short(norm(e1))}` and again by `{short(norm(e2))}` without being rebound to a "
                          "materialised copy in between: for a generator argument the second pass is empty - a validation loop validates nothing and "
                          "the commit then rejects after it has changed the graph (or an unsafe removal is not rejected at all)",
                          how="consumption points of Iterable-annotated parameters on the CFG; rebinding `p = tuple(p)` cuts the path",
                          construct=f"{p_} consumed twice in {f.local}")
            for p_ in its:
                if not any(h[0] == p_ for h in hits):
                    ctx.ob("R3", f"{f.local}: `{p_}` is iterated at one point or materialised first", True, nontrivial=False, how="S13")
    ctx.require(n >= 15, f"only {n} Iterable parameters found in the IR core")


def run(ctx):
    rule_r3(ctx)
    ef = ctx._shared.get("effects")
    if ef is None:
        ef = ctx._shared["effects"] = Effects(ctx.repo, ctx.typer, tier4=(ctx.tier == "thorough"))
    ef.compute()
    used: dict[int, int] = {}
    muts = mutators(ctx)
    own = frozenset(f.key for f in muts)
    ctx.tables["mutators"] = [f.key for f in muts]
    ctx.tables["summary_iterations"] = ef.n_iter
    for f in muts:
        s = ef.summary(f)
        sites = analyse_mutator(ef, f, used, own)
        n_events = sum(len(v) for v in ef.events(f)[1].values())
        if not sites:
            ctx.ob("R1", f"{f.local}: no write precedes a rejection point", True,
                   how=f"{n_events} events over {len(ef.events(f)[0].nodes)} CFG nodes; mods={len(s.mods)} rejections={len(s.rejs)}",
                   nontrivial=bool(s.mods) and bool(s.rejs))
            continue
        for m, c, undis, ndis in sites:
            inst = f"{f.local}: {short(m.node)[:50]} … then {short(c.node)[:50]}"
            if not undis:
                ctx.ob("R1", inst, True, how=f"all {ndis} rejection point(s) of the later site are infeasible there (R2 table)")
                continue
            guards = sorted(r.key for r in undis)
            ctx.ob("R1", inst, False, how="forward may-analysis: M reaches C")
            ctx.violation(
                "R1", f, c.node,
                f"state is written ({m.desc}) and a later point on the same path can still reject: "
                + "; ".join(guards[:4]) + (f" (+{len(guards) - 4} more)" if len(guards) > 4 else "")
                + " — a rejected call leaves the earlier write in place",
                construct=f"{short(m.node)[:70]} => {short(c.node)[:70]}",
                path=[f"M at line {getattr(m.node, 'lineno', '?')}: {m.desc}", f"C at line {getattr(c.node, 'lineno', '?')}: {c.desc}"]
                + [f"guard {g}" for g in guards[:8]],
            )
    for i, ent in enumerate(INFEASIBLE):
        ok = used.get(i, 0) > 0
        ctx.check("R2", f"table entry {i}: {ent['guard'][:70]} via {str(ent['via'])[:40]}", ok, ctx.repo.module(CORE), None,
                  "infeasibility table entry matches no rejection point any more (stale entry: the code changed; re-triage)",
                  how=f"matched {used.get(i, 0)} rejection point(s): {ent['why'][:80]}", symbol="C06:INFEASIBLE",
                  construct=f"stale entry {ent['guard']} via {ent['via']}", nontrivial=False)
        # a dominating validation in the mutator that makes the guard infeasible must still exist
        for need, holders, missing in required_validations(ef, muts, used, i, ent):
            ctx.check("R2", f"table entry {i} requires validation `{need}`", bool(holders) and not missing, ctx.repo.module(CORE), None,
                      f"the validation `{need}` that makes this guard infeasible is gone from {', '.join(f.local for f in missing) or 'the mutator'}",
                      how="a rejection with that condition exists in each mutator the entry is used for", symbol="C06:INFEASIBLE",
                      construct=f"missing validation {need} for {ent['guard']}")
