"""C16 — symbolic dimensions compute, print and re-parse with integer semantics."""

from __future__ import annotations

import ast
import re

from ..facts import calls_in
from ..index import FuncInfo, dotted_of, norm, own_nodes, short

PROPERTY = "C16"
RULES = {
    "R1": "vocabulary: every SymPy function head a SymbolicDim method can produce (sympy.<F>(…) constructors, "
    "floor from //, Mod from %) is a key of the parser's function table, and every table value prints under a key",
    "R2": "precedence: the parser's tiers, derived from the call chain of its _parse_* methods, follow the "
    "printer's order: binary + - < * / // % < unary - < **"
    " ; the '-' branch of the unary handler returns the negation of a parse at the unary tier",
    "R3": "associativity: left-associative tiers fold in a while loop into the left operand; ** recurses on the right",
    "R4": "every operator token the tokenizer can emit is consumed by some parser tier"
    " ; the parser replaces its current token only by the tokenizer's next token (no token rewriting)",
    "R5": "operator agreement: each arithmetic dunder of SymbolicDim applies the operator its name denotes with "
    "operands in the right order; each parser operator token builds the matching SymPy form",
    "R7": "whole expressions: what a SymbolicDim method returns (or wraps in a new SymbolicDim) is never built from a "
    "sub-term projection of a SymPy expression (.args, .args[i], .expr, .as_*()): a branch of a Piecewise, a numerator, one "
    "argument of Max stand for a different function of the symbols than the expression they were taken from",
    "R6": "integer bindings are looked up by presence, never by truthiness: a value taken from a `Mapping[str, int]` "
    "parameter (bindings[...] / bindings.get(...)) is not used as an operand of and/or or as a bare condition - a "
    "binding of 0 (an empty dimension) is falsy and would be treated as absent",
    "R8": "a shape delegates to every symbolic dimension: in the element-wise methods of Shape that have a counterpart on SymbolicDim "
    "(evaluate, simplify, free_symbols), each symbolic dimension goes through `dim.<method>(…)` - the branch for SymbolicDim neither "
    "hands the dimension on unchanged nor leaves the iteration before the call: a partial binding has to be substituted into the "
    "dimension now (the residual is what a later binding completes), a dimension that is passed through keeps its unbound form",
    "R9": "a symbolic dimension keeps nothing of a call: outside __init__, a method of SymbolicDim stores in a field of `self` only what is "
    "determined by the dimension itself (the lazily parsed expression of its own text) - never a parameter of the call or a value "
    "computed from one: `self._eval_cache = (bindings, result)` keeps the caller's mapping object, which the caller goes on editing, "
    "so the key of the memo changes with it and a later evaluate() with other bindings answers with the old result",
    "R10": "a call in a dimension string means the function of all its arguments: in the parser's function-call production the list that "
    "receives one parsed expression per argument is handed to the SymPy constructor as it is - it is only ever appended to, never "
    "filtered, sliced, sorted or rebound (`[a for a in args if not (a.is_Integer and a <= 0)]` turns `max(N - 5, 0)` into `N - 5`, which is "
    "-2 for N = 3), and no branch of the production depends on which function is called",
    "R11": "the grammar has no size limit: no `raise` of the expression tokenizer / parser is governed by an ordering comparison "
    "(<, <=, >, >=) between a counter - a field or local of these classes that is stepped with += / -= - and a numeric limit (a literal or a "
    "module constant of 2 or more): the printed form of a dimension may nest parentheses and calls to any depth and be of any length, "
    "and the parser has to read back every text the library prints; a depth or count guard (the more so one whose counter is not "
    "wound back on every exit, so that it counts calls seen so far rather than nesting) refuses such text with ValueError - "
    "lengths compared with len(<text>) and arities compared with == / != are not limits",
    "R12": "an expression becomes an int only when it is one: in SymbolicDim and Shape, every `int(<e>)` whose argument is (or is derived "
    "from) the SymPy expression of a dimension (`._expr`, the result of `.subs(…)` / simplification, through locals) is governed by a test "
    "that asks `is_integer` (`is_Integer`, `isinstance(…, sympy.Integer)`) - `int()` of a rational constant truncates towards zero, so a "
    "dimension that simplifies to 1/2 would be stored as 0 and every later evaluation or arithmetic on it differs from the unsimplified one",
}
FLOORS = {"R1": 6, "R2": 3, "R3": 3, "R4": 6, "R5": 18, "R6": 2, "R7": 15, "R8": 3, "R9": 1, "R10": 1, "R11": 4, "R12": 1}
EXPLANATION = (
    "Derives the printer-side vocabulary from the sympy constructors called in SymbolicDim's methods and the "
    "parser-side grammar (tiers, tokens, associativity, operator→SymPy form) from the recursive-descent parser's "
    "own call chain, and compares them with each other and with Python/SymPy printing precedence."
)
NOT_DECIDED = "evaluation results (SymPy arithmetic), partial evaluation, simplification soundness"
ASSUMPTIONS = [
    "SymPy prints a function application under the function's class name and Pow/Mul/Add with Python precedence",
]

NON_PRINTING = {"sympify", "simplify", "Rational", "Integer", "Symbol", "Expr", "Basic"}
RIGHT_IDENTITY = {ast.Mult: 1, ast.Div: 1, ast.Add: 0, ast.Sub: 0, ast.Pow: 1}
OPNAME = {ast.Add: "+", ast.Sub: "-", ast.Mult: "*", ast.Div: "/", ast.FloorDiv: "//", ast.Mod: "%", ast.Pow: "**"}
DUNDER = {
    "__add__": ast.Add, "__radd__": ast.Add, "__sub__": ast.Sub, "__rsub__": ast.Sub,
    "__mul__": ast.Mult, "__rmul__": ast.Mult, "__floordiv__": ast.FloorDiv, "__rfloordiv__": ast.FloorDiv,
    "__truediv__": ast.Div, "__rtruediv__": ast.Div, "__mod__": ast.Mod, "__rmod__": ast.Mod,
    "__pow__": ast.Pow, "__rpow__": ast.Pow,
}  # fmt: skip
COMMUTATIVE = {ast.Add, ast.Mult}
SYM = "onnx_ir._symbolic_shapes"


def _table(ctx):
    m = ctx.repo.module(SYM)
    t = m.assigns.get("_ALLOWED_FUNCTIONS")
    ctx.require(isinstance(t, ast.Dict), "_ALLOWED_FUNCTIONS dict literal not found")
    out = {}
    for k, v in zip(t.keys, t.values):
        if isinstance(k, ast.Constant):
            out[k.value] = dotted_of(v) or norm(v)
    return out, t


def _sd(ctx):
    return ctx.repo.cls("onnx_ir._core:SymbolicDim")


def rule_r1(ctx):
    table, tnode = _table(ctx)
    sd = _sd(ctx)
    heads: dict[str, tuple[FuncInfo, ast.AST]] = {}
    funcs = list(sd.methods.values()) + [p[k] for p in sd.props.values() for k in p]
    for f in funcs:
        for c in calls_in(f):
            d = dotted_of(c.func) or ""
            if d.startswith("sympy.") and d.count(".") == 1:
                h = d.split(".")[1]
                if h not in NON_PRINTING:
                    heads.setdefault(h, (f, c))
        for n in own_nodes(f.node):
            if isinstance(n, ast.BinOp) and "_expr" in norm(n):
                if isinstance(n.op, ast.FloorDiv):
                    heads.setdefault("floor", (f, n))
                elif isinstance(n.op, ast.Mod):
                    heads.setdefault("Mod", (f, n))
    ctx.require(len(heads) >= 2, "no SymPy function heads found in SymbolicDim")
    for h, (f, node) in sorted(heads.items()):
        ctx.check("R1", f"head {h} (from {f.local})", h in table, f, node,
                  f"SymbolicDim.{f.name} can produce the function '{h}', which the parser's table does not accept: "
                  "the dimension's text cannot be parsed back",
                  how="head ∈ keys(_ALLOWED_FUNCTIONS)", symbol=f.key, construct=f"sympy head {h}")
    m = ctx.repo.module(SYM)
    for key, val in sorted(table.items()):
        cls = val.split(".")[-1]
        ok = val.startswith("sympy.") and cls in table
        ctx.check("R1", f"table entry {key!r}: {val}", ok, m, tnode,
                  f"table value {val} prints as '{cls}', which is not itself a key",
                  how="printed name of the value is a key", symbol=f"{SYM}:_ALLOWED_FUNCTIONS", construct=f"entry {key}")


def _parser(ctx):
    return ctx.repo.cls(f"{SYM}:_ExpressionParser")


def _module_literal(f: FuncInfo, e):
    """The literal a module-level constant name stands for (dict / tuple / set / list / frozenset(...) display), else e."""
    for _ in range(3):
        if isinstance(e, ast.Name) and e.id in f.module.assigns and e.id not in f.params:
            e = f.module.assigns[e.id]
        else:
            break
    if isinstance(e, ast.Call) and dotted_of(e.func) in ("frozenset", "set", "tuple", "dict") and len(e.args) == 1:
        e = e.args[0]
    return e


def _ops_consumed(f: FuncInfo) -> set[str]:
    """Operator strings compared with ``self.current_token[1]`` in f (literal collections, or module-level tables whose
    keys / elements are the operators)."""
    out = set()
    # locals that stand for the current token (`token = self.current_token`)
    tok = {"self.current_token"} | {norm(a.targets[0]) for a in own_nodes(f.node) if isinstance(a, ast.Assign) and len(a.targets) == 1
                                     and isinstance(a.targets[0], ast.Name) and norm(a.value) == "self.current_token"}
    for n in own_nodes(f.node):
        # the whole token compared with a (type, operator) pair: `self.current_token != ("OP", "**")`
        if isinstance(n, ast.Compare) and norm(n.left) in tok and len(n.ops) == 1 and isinstance(n.ops[0], (ast.Eq, ast.NotEq, ast.In, ast.NotIn)):
            c = _module_literal(f, n.comparators[0])
            pairs = [c] if isinstance(n.ops[0], (ast.Eq, ast.NotEq)) else (list(c.elts) if isinstance(c, (ast.Tuple, ast.Set, ast.List)) else [])
            for q in pairs:
                q = _module_literal(f, q)
                if isinstance(q, ast.Tuple) and len(q.elts) == 2 and all(isinstance(e, ast.Constant) for e in q.elts) and q.elts[0].value == "OP" \
                        and isinstance(q.elts[1].value, str):
                    out.add(q.elts[1].value)
        if isinstance(n, ast.Compare) and norm(n.left) in {t + "[1]" for t in tok}:
            for c in n.comparators:
                c = _module_literal(f, c)
                if isinstance(c, ast.Constant) and isinstance(c.value, str):
                    out.add(c.value)
                elif isinstance(c, (ast.Tuple, ast.Set, ast.List)):
                    out |= {e.value for e in c.elts if isinstance(e, ast.Constant)}
                elif isinstance(c, ast.Dict):
                    out |= {k.value for k in c.keys if isinstance(k, ast.Constant)}
    return out


_OPERATOR_MODULE_FORMS = {"operator.add": "left + right", "operator.sub": "left - right", "operator.mul": "left * right",
                          "operator.truediv": "left / right", "operator.floordiv": "left // right", "operator.mod": "left % right",
                          "operator.pow": "left ** right"}


def _callable_form(ctx, f: FuncInfo, v) -> str | None:
    """What `v(left, right)` builds, for v an entry of an operator dispatch table: a function of the operator module, a SymPy
    class, or a two-parameter module helper / lambda made of a single expression."""
    d = dotted_of(v) or ""
    if d in _OPERATOR_MODULE_FORMS:
        return _OPERATOR_MODULE_FORMS[d]
    if d.startswith("sympy."):
        return f"{d}(left, right)"
    g, body, params = None, None, None
    if isinstance(v, ast.Lambda):
        body, params = v.body, [a.arg for a in v.args.args]
    elif isinstance(v, ast.Name) and v.id in f.module.functions:
        g = f.module.functions[v.id]
        stmts = [s_ for s_ in g.node.body if not (isinstance(s_, ast.Expr) and isinstance(s_.value, ast.Constant))]
        if len(stmts) == 1 and isinstance(stmts[0], ast.Return) and stmts[0].value is not None:
            body, params = stmts[0].value, g.params
    if body is None or len(params) != 2:
        return None
    role = {params[0]: "left", params[1]: "right"}
    touched = [(x, x.id) for x in ast.walk(body) if isinstance(x, ast.Name) and x.id in role]
    try:
        for x, old_ in touched:
            x.id = role[old_]
        return norm(body)
    finally:
        for x, old_ in touched:
            x.id = old_


def _tiers(ctx):
    """[(FuncInfo, ops, callees among _parse_* )] following the chain from parse()."""
    p = _parser(ctx)
    start = p.methods.get("parse")
    ctx.require(start is not None, "_ExpressionParser.parse not found")
    chain, seen = [], set()
    cur = start
    while cur is not None and cur.name not in seen:
        seen.add(cur.name)
        nxt = [c.func.attr for c in calls_in(cur)
               if isinstance(c.func, ast.Attribute) and norm(c.func.value) == "self" and c.func.attr.startswith("_parse_")]  # fmt: skip
        if cur is not start:
            chain.append((cur, _ops_consumed(cur), nxt))
        down = [n for n in nxt if n != cur.name and n not in seen]
        cur = p.methods.get(down[0]) if down else None
    return chain


def rule_r2_r3_r4(ctx):
    chain = _tiers(ctx)
    ctx.require(len(chain) >= 4, "parser tier chain shorter than expected")
    level = {}
    for i, (f, ops, nxt) in enumerate(chain):
        for op in ops:
            # unary minus: handler that recurses into itself after consuming '-' without a left operand
            kind = "unary-" if (op == "-" and not any(isinstance(n, ast.While) for n in own_nodes(f.node))
                                and f.name in nxt) else op
            level.setdefault(kind, (i, f))
    ctx.tables["parser_tiers"] = [f"{f.name}:{sorted(ops)}" for f, ops, _ in chain]
    need = ["+", "-", "*", "/", "//", "%", "**", "unary-"]
    missing = [k for k in need if k not in level]
    for k in missing:
        ctx.check("R4", f"operator {k!r} has a parser tier", False, chain[0][0], chain[0][0].node,
                  f"no parser tier consumes {k!r}: expressions the printer emits with it cannot be parsed back",
                  how="operator sets of the _parse_* chain", construct=f"no tier for {k}", nontrivial=False)
    if missing:
        return
    p = ctx.repo.module(SYM)

    def lv(k):
        return level[k][0]

    ok = lv("+") == lv("-") < lv("*") == lv("/") == lv("//") == lv("%")
    ctx.check("R2", "additive tier below multiplicative tier", ok, level["+"][1], level["+"][1].node,
              "binary + - must bind looser than * / // %", how="position in the _parse_* call chain")
    ok = lv("*") < lv("unary-") and lv("*") < lv("**")
    ctx.check("R2", "multiplicative tier below unary minus and **", ok, level["*"][1], level["*"][1].node,
              "* / // % must bind looser than unary - and **", how="position in the _parse_* call chain")
    ok = lv("unary-") < lv("**")
    fu = level["unary-"][1]
    ctx.check("R2", "unary minus binds looser than **", ok, fu, fu.node,
              "the parser applies unary minus before ** (so the printed '-N**2' re-parses as (-N)**2), "
              "unlike Python/SymPy where -N**2 == -(N**2)",
              how="tier of the unary '-' handler vs tier of the '**' handler",
              symbol=fu.key, construct="unary '-' tier above '**' tier")
    # the '-' branch of the unary handler returns the negation of what the same (or a looser) tier parses next: the
    # sign applies to the whole following unary expression, never to a token or to a tighter-binding piece of it
    tier_idx = {g.name: i for i, (g, _, _) in enumerate(chain)}
    def _minus_cmp(n):
        # the comparison of the test that names '-' (alone, in a one-element collection, or as the pair ("OP", "-"))
        for c in ast.walk(n.test):
            if isinstance(c, ast.Compare) and any(
                    (isinstance(k, ast.Constant) and k.value == "-")
                    or (isinstance(k, (ast.Tuple, ast.Set, ast.List)) and [e.value for e in k.elts if isinstance(e, ast.Constant)] in (["-"], ["OP", "-"]))
                    for k in (_module_literal(fu, k0) for k0 in c.comparators)):
                return c
        return None

    def _minus_region(n):
        # the statements that run when the current token is '-': the body of a positive test; for a negative one
        # (`!=`, `not in`, under `not`) the else branch and, when the body leaves the function, what follows the if
        c = _minus_cmp(n)
        neg = isinstance(c.ops[0], (ast.NotEq, ast.NotIn))
        q = getattr(c, "_parent", None)
        while q is not None and q is not n:
            if isinstance(q, ast.UnaryOp) and isinstance(q.op, ast.Not):
                neg = not neg
            q = getattr(q, "_parent", None)
        if not neg:
            return list(n.body)
        out_ = list(n.orelse)
        if n.body and isinstance(n.body[-1], (ast.Return, ast.Raise)):
            par = getattr(n, "_parent", None)
            for fld in ("body", "orelse"):
                blk = getattr(par, fld, None)
                if isinstance(blk, list) and n in blk:
                    out_ += blk[blk.index(n) + 1:]
        return out_

    minus_ifs = [n for n in own_nodes(fu.node) if isinstance(n, ast.If) and _minus_cmp(n) is not None]
    ok = bool(minus_ifs)
    badret = None
    for iff in minus_ifs:
        for r in (x for st in _minus_region(iff) for x in ast.walk(st) if isinstance(x, ast.Return)):
            v = r.value
            neg = isinstance(v, ast.UnaryOp) and isinstance(v.op, ast.USub)
            operand = v.operand if neg else None
            calls_ok = operand is not None and any(
                isinstance(c, ast.Call) and isinstance(c.func, ast.Attribute) and norm(c.func.value) == "self"
                and tier_idx.get(c.func.attr, 99) <= tier_idx.get(fu.name, -1) for c in ast.walk(operand))
            if not (neg and calls_ok):
                ok = False
                badret = badret or r
    ctx.check("R2", "unary minus negates the result of parsing the following unary expression", ok, fu, badret if badret is not None else fu.node,
              f"on the branch that consumed '-', `{norm(badret) if badret is not None else ''}` does not return the negation of a parse at the "
              "unary tier: the sign is attached to a token or to a tighter-binding sub-expression, so '-2**n' means (-2)**n",
              how="returns inside the '-' branch are `-self.<handler of the same or a looser tier>()`", construct="'-' branch return is not a negated unary parse")
    # R3
    for op in ("+", "*"):
        f = level[op][1]
        loops = [n for n in own_nodes(f.node) if isinstance(n, ast.While)]
        ok = bool(loops)
        if ok:
            # the accumulator is the local this handler returns; inside the loop it is only ever replaced by an
            # expression whose leftmost operand is the accumulator itself
            rets = [r for r in own_nodes(f.node) if isinstance(r, ast.Return) and isinstance(r.value, ast.Name)]
            acc = rets[-1].value.id if rets else None

            def left_is_acc(v):
                if isinstance(v, ast.BinOp):
                    return isinstance(v.left, ast.Name) and v.left.id == acc
                if isinstance(v, ast.Call) and v.args:
                    a0 = v.args[0]
                    return (isinstance(a0, ast.Name) and a0.id == acc) or left_is_acc(a0)
                return False

            assigns = [n for n in ast.walk(loops[0]) if isinstance(n, ast.Assign) and isinstance(n.targets[0], ast.Name) and n.targets[0].id == acc]
            ok = acc is not None and bool(assigns) and all(left_is_acc(a.value) for a in assigns)
            # the right operand is parsed once per iteration by the next tier, never by this tier itself
            rights = [n for n in ast.walk(loops[0]) if isinstance(n, ast.Assign) and isinstance(n.value, ast.Call) and isinstance(n.value.func, ast.Attribute)
                      and norm(n.value.func.value) == "self" and n.value.func.attr.startswith("_parse_")]
            ok = ok and len(rights) == 1 and rights[0].value.func.attr != f.name
        ctx.check("R3", f"{f.name}: left-associative fold", ok, f, f.node,
                  "binary operators of this tier are not folded left-to-right in a loop",
                  how="while loop assigning `left = left <op> right` in every branch")
    f = level["**"][1]
    # right associativity: the exponent is parsed by a method from which this handler is reachable again
    # (directly `_parse_power`, or `_parse_unary` → `_parse_power` so that 2**-3**2 nests on the right)
    pcls = _parser(ctx)

    def reaches(start: str, goal: str, seen=None) -> bool:
        seen = seen or set()
        if start == goal:
            return True
        if start in seen or start not in pcls.methods:
            return False
        seen.add(start)
        return any(isinstance(c.func, ast.Attribute) and norm(c.func.value) == "self" and reaches(c.func.attr, goal, seen)
                   for c in calls_in(pcls.methods[start]))

    tier_of = {g.name: i for i, (g, _, _) in enumerate(chain)}
    rec = [c for c in calls_in(f) if isinstance(c.func, ast.Attribute) and norm(c.func.value) == "self"
           and c.func.attr.startswith("_parse_") and reaches(c.func.attr, f.name)
           # … without going through a tighter-binding tier (a parenthesised primary re-enters the grammar, but
           # `2**3**2` must not need parentheses to nest on the right)
           and tier_of.get(c.func.attr, 99) <= tier_of[f.name]]
    in_loop = any(isinstance(n, ast.While) for n in own_nodes(f.node))
    pows = [n for n in own_nodes(f.node) if isinstance(n, ast.BinOp) and isinstance(n.op, ast.Pow)]
    rec = [c for c in rec if isinstance(getattr(c, "_parent", None), ast.Assign) or any(c is p.right for p in pows)]
    ok = bool(rec) and not in_loop and bool(pows)
    if ok:
        # exponent is the recursive call's result, base is the first operand parsed
        exp_names = {norm(a.targets[0]) for a in own_nodes(f.node) if isinstance(a, ast.Assign) and a.value in rec}
        ok = all(norm(pw.right) in exp_names or pw.right in rec for pw in pows)
    ctx.check("R3", f"{f.name}: ** is right-associative", ok, f, f.node,
              "** does not recurse on its right operand", how="self-recursive call supplies the exponent; no loop")
    # … and the exponent binds at least as tightly as a unary expression: the call that supplies it is the unary handler or the
    # power handler itself - not a looser tier, which would swallow the `* / // %` operands that follow the power
    un = level["unary-"][1].name
    for pw in pows:
        src = pw.right
        if isinstance(src, ast.Name):
            ds = [a.value for a in own_nodes(f.node) if isinstance(a, ast.Assign) and any(isinstance(t, ast.Name) and t.id == src.id for t in a.targets)]
            src = ds[0] if len(ds) == 1 else src
        if isinstance(src, ast.Call) and isinstance(src.func, ast.Attribute) and norm(src.func.value) == "self" and src.func.attr in tier_of:
            tight = tier_of[src.func.attr] >= tier_of[un]
            ctx.check("R3", f"{f.name}: the exponent of ** is parsed at the unary tier or tighter", tight, f, src,
                      f"the exponent is parsed by `{norm(src)}`, a looser tier than the unary handler: everything that follows in the same term becomes part of the exponent - "
                      "`N**2*M` parses as `N**(2*M)` and `floor(N**2/2)` as `floor(N**(2/2))`, so the text SymPy prints for `N*N/3` (`N**2/3`) re-parses to another expression",
                      how="tier of the parser method that supplies the right operand of ** (position in the _parse_* chain) >= tier of the unary handler",
                      construct="exponent parsed at a looser tier")
    # R4
    tok = ctx.repo.cls(f"{SYM}:_ExpressionTokenizer").methods.get("get_token")
    ctx.require(tok is not None, "tokenizer get_token not found")
    emitted = set()
    def returns_op(stmts) -> bool:
        for s_ in stmts:
            for r in ast.walk(s_):
                if isinstance(r, ast.Return) and isinstance(r.value, ast.Tuple) and r.value.elts and isinstance(r.value.elts[0], ast.Constant) \
                        and r.value.elts[0].value == "OP":
                    return True
        return False

    for n in own_nodes(tok.node):
        # `<something> in <literal collection / string>` guarding a branch that returns an ("OP", …) token
        if isinstance(n, ast.Compare) and len(n.ops) == 1 and isinstance(n.ops[0], ast.In):
            par = getattr(n, "_parent", None)
            while par is not None and not isinstance(par, ast.If):
                par = getattr(par, "_parent", None) if isinstance(par, (ast.BoolOp, ast.UnaryOp)) else None
            if not (isinstance(par, ast.If) and returns_op(par.body)):
                continue
            c = n.comparators[0]
            if isinstance(c, (ast.Tuple, ast.Set, ast.List)):
                emitted |= {e.value for e in c.elts if isinstance(e, ast.Constant) and isinstance(e.value, str)}
            elif isinstance(c, ast.Constant) and isinstance(c.value, str):
                emitted |= set(c.value)
    # … or a module-level table from characters to token types that get_token looks the character up in
    #     (`{**dict.fromkeys("+-*/%", "OP"), "(": "LPAREN", …}` with `return (table.get(ch), ch)`)
    for n in own_nodes(tok.node):
        tbl = None
        if isinstance(n, ast.Call) and isinstance(n.func, ast.Attribute) and n.func.attr == "get" and isinstance(n.func.value, ast.Name):
            tbl = n.func.value.id
        elif isinstance(n, ast.Subscript) and isinstance(n.value, ast.Name) and isinstance(n.ctx, ast.Load):
            tbl = n.value.id
        if tbl is None or tbl in tok.params:
            continue
        val = tok.module.assigns.get(tbl)
        for k, v in (_literal_table(val) or {}).items():
            if v == "OP" and isinstance(k, str):
                emitted.add(k)
    ctx.require(len(emitted) >= 5, "tokenizer operator set not recognised")
    # the token stream is read-only for the grammar: the parser's current token is only ever replaced by the next
    # token of the tokenizer (no handler rewrites a token)
    pc = _parser(ctx)
    for g in pc.methods.values():
        for n in own_nodes(g.node):
            if isinstance(n, (ast.Assign, ast.AugAssign, ast.AnnAssign)):
                for t in n.targets if isinstance(n, ast.Assign) else [n.target]:
                    if isinstance(t, ast.Attribute) and t.attr == "current_token" and norm(t.value) == "self":
                        v = getattr(n, "value", None)
                        from_tok = v is None or isinstance(v, ast.Constant) or any(
                            isinstance(c, ast.Call) and isinstance(c.func, ast.Attribute) and c.func.attr == "get_token" for c in ast.walk(v))
                        ctx.check("R4", f"{g.name}: current_token is replaced only by the tokenizer's next token", from_tok, g, n,
                                  f"`{norm(n)}` rewrites the current token inside the parser: what is parsed is no longer the token sequence of the "
                                  "text (e.g. a sign folded into a number literal changes how the following '**' binds)",
                                  how="stores to self.current_token take their value from tokenizer.get_token()", construct=f"token rewritten: {short(norm(n))}")

    consumed = set()
    for f, ops, _ in chain:
        consumed |= ops
    for op in sorted(emitted):
        ctx.check("R4", f"token {op!r} consumed", op in consumed, tok, tok.node,
                  f"the tokenizer emits {op!r} but no parser tier consumes it", nontrivial=False,
                  construct=f"operator token {op}")


def _literal_table(e) -> dict | None:
    """The mapping a dict display denotes when it is built from constants: `{"a": 1, **dict.fromkeys("xy", 2), **{…}}`."""
    if isinstance(e, ast.Call) and (dotted_of(e.func) or "") == "dict.fromkeys" and len(e.args) == 2 and isinstance(e.args[1], ast.Constant):
        ks = e.args[0]
        if isinstance(ks, ast.Constant) and isinstance(ks.value, str):
            return {c: e.args[1].value for c in ks.value}
        if isinstance(ks, (ast.Tuple, ast.List, ast.Set)) and all(isinstance(x, ast.Constant) for x in ks.elts):
            return {x.value: e.args[1].value for x in ks.elts}
        return None
    if not isinstance(e, ast.Dict):
        return None
    out: dict = {}
    for k, v in zip(e.keys, e.values):
        if k is None:
            inner = _literal_table(v)
            if inner is None:
                return None
            out.update(inner)
        elif isinstance(k, ast.Constant) and isinstance(v, ast.Constant):
            out[k.value] = v.value
        else:
            return None
    return out


_OPERATOR_FUNCS = {"operator.add": ast.Add, "operator.sub": ast.Sub, "operator.mul": ast.Mult, "operator.truediv": ast.Div,
                   "operator.floordiv": ast.FloorDiv, "operator.mod": ast.Mod, "operator.pow": ast.Pow}


def _other_aliases(f, other: str) -> set[str]:
    """Locals of f every binding of which is the other operand or its expression (`rhs = other` / `rhs = other._expr`)."""
    binds: dict[str, list] = {}
    for a in own_nodes(f.node):
        tg = a.targets if isinstance(a, ast.Assign) else [a.target] if isinstance(a, ast.AnnAssign) and a.value is not None else []
        for t in tg:
            if isinstance(t, ast.Name):
                binds.setdefault(t.id, []).append(a.value)
    return {k for k, v in binds.items() if v and all(norm(x) in (other, f"{other}._expr") for x in v)}


def _expr_aliases(f) -> set[str]:
    """Locals of f bound (once) to `self._expr`: reading them is reading the expression."""
    binds: dict[str, list] = {}
    for a in own_nodes(f.node):
        if isinstance(a, ast.Assign):
            for t in a.targets:
                if isinstance(t, ast.Name):
                    binds.setdefault(t.id, []).append(a.value)
    return {k for k, v in binds.items() if len(v) == 1 and norm(v[0]) == "self._expr"}


def rule_r5(ctx):
    sd = _sd(ctx)
    for name, opcls in DUNDER.items():
        f = sd.methods.get(name)
        if f is None:
            continue
        reflected = name.startswith("__r") and name not in ("__repr__",)
        other = f.params[1] if len(f.params) > 1 else "other"
        exprs = []
        for r in (n for n in own_nodes(f.node) if isinstance(n, ast.Return) and isinstance(n.value, ast.Call)):
            c = r.value
            if dotted_of(c.func) == "SymbolicDim" and c.args:
                e = c.args[0]
                if isinstance(e, ast.Call) and dotted_of(e.func) == "sympy.sympify" and e.args:
                    e = e.args[0]
                if isinstance(e, ast.Constant) and e.value is None:
                    continue
                exprs.append((e, r))
            elif isinstance(c.func, ast.Attribute) and norm(c.func.value) == "self" and c.func.attr.startswith("__"):
                exprs.append((c, r))
        ctx.require(bool(exprs), f"SymbolicDim.{name}: no result expression recognised")
        for e, r in exprs:
            inst = f"SymbolicDim.{name}: {norm(e)}"
            ok, why = False, ""
            if isinstance(e, ast.Call) and (dotted_of(e.func) or "") in _OPERATOR_FUNCS and len(e.args) == 2 and not e.keywords:
                # operator.add(a, b) is a + b
                e = ast.BinOp(left=e.args[0], op=_OPERATOR_FUNCS[dotted_of(e.func)](), right=e.args[1])
            if isinstance(e, ast.Call) and isinstance(e.func, ast.Attribute) and norm(e.func.value) == "self":
                base = e.func.attr
                ok = reflected and DUNDER.get(base) is opcls and opcls in COMMUTATIVE and [norm(a) for a in e.args] == [other]
                why = "reflected method may delegate to the plain one only for commutative operators"
            elif isinstance(e, ast.BinOp):
                l, rr = norm(e.left), norm(e.right)
                selfs = ("self._expr", *sorted(_expr_aliases(f)))
                others = (other, f"{other}._expr", *sorted(_other_aliases(f, other)))
                if type(e.op) is opcls:
                    ok = (l in others and rr in selfs) if reflected else (l in selfs and rr in others)
                    why = "operands in the wrong order for this (reflected) method" if not ok else ""
                elif opcls is ast.Div and isinstance(e.op, ast.Mult) and not reflected:
                    ok = l == f"sympy.Rational(1, {other})" and rr in selfs
                    why = "only Rational(1, other) * self is accepted as a spelling of division"
                else:
                    why = f"applies '{OPNAME.get(type(e.op), '?')}' in a method named {name}"
            else:
                why = "result expression is not a binary operation"
                # the operand returned unchanged is exact for the operator's right identity only (x * 1, x / 1, x + 0, x - 0,
                # x ** 1); floor division and modulo have none: x // 1 is floor(x)
                ident = RIGHT_IDENTITY.get(opcls)
                if norm(e) in ("self._expr", "self") and not reflected and ident is not None:
                    g = getattr(r, "_parent", None)
                    if isinstance(g, ast.If) and r in g.body and isinstance(g.test, ast.Compare) and len(g.test.ops) == 1 and isinstance(g.test.ops[0], ast.Eq) \
                            and norm(g.test.left) == other and isinstance(g.test.comparators[0], ast.Constant) and g.test.comparators[0].value == ident \
                            and type(g.test.comparators[0].value) is int:
                        ok, why = True, ""
                    else:
                        why = f"the operand is returned unchanged, which is exact only under `{other} == {ident}`"
                elif norm(e) in ("self._expr", "self"):
                    why = f"the operand is returned unchanged, but '{OPNAME.get(opcls, '?')}' has no identity operand (x // 1 is floor(x))"
            ctx.check("R5", inst, ok, f, r, why or "operator/operand mismatch",
                      how="operator class and operand order compared with the dunder's name")
    # an integer may stand on either side: every binary operator the class defines has its reflected twin
    for name in DUNDER:
        if name.startswith("__r") or name not in sd.methods:
            continue
        twin = "__r" + name[2:]
        ctx.check("R5", f"SymbolicDim.{name} has the reflected method {twin}", twin in sd.methods, sd.methods[name], sd.methods[name].node,
                  f"SymbolicDim defines {name} but not {twin}: `7 {OPNAME.get(DUNDER[name], '?')} dim` raises TypeError although the integer operand is "
                  "accepted on the right-hand side",
                  how="plain and reflected arithmetic methods of the class", construct=f"missing {twin}")
    f = sd.methods.get("__neg__")
    if f is not None:
        al = _expr_aliases(f)
        ok = any(isinstance(n, ast.UnaryOp) and isinstance(n.op, ast.USub) and (norm(n.operand) == "self._expr" or norm(n.operand) in al) for n in own_nodes(f.node))
        ctx.check("R5", "SymbolicDim.__neg__: -self._expr", ok, f, f.node, "__neg__ does not negate", nontrivial=False)
    # parser side: operator token -> SymPy form
    want = {"+": "left + right", "-": "left - right", "*": "left * right", "/": "left / right",
            "//": "sympy.floor(left / right)", "%": "sympy.Mod(left, right)"}  # fmt: skip
    for f, ops, _ in _tiers(ctx):
        loops = [n for n in own_nodes(f.node) if isinstance(n, ast.While)]
        if not loops or not ops:
            continue
        remaining = set(ops)
        # roles by data flow: accumulator = the returned local, right operand = the local bound to the next tier's
        # result inside the loop, token = the local bound to self.current_token[1]
        rets = [r for r in own_nodes(f.node) if isinstance(r, ast.Return) and isinstance(r.value, ast.Name)]
        acc = rets[-1].value.id if rets else None
        rnames = [n.targets[0].id for n in ast.walk(loops[0]) if isinstance(n, ast.Assign) and isinstance(n.targets[0], ast.Name) and isinstance(n.value, ast.Call)
                  and isinstance(n.value.func, ast.Attribute) and norm(n.value.func.value) == "self" and n.value.func.attr.startswith("_parse_")]
        toks = {n.targets[0].id for n in ast.walk(loops[0]) if isinstance(n, ast.Assign) and isinstance(n.targets[0], ast.Name)
                and norm(n.value).startswith("self.current_token[")}
        role = {acc: "left"}
        if rnames:
            role[rnames[0]] = "right"

        def form(e):
            touched = [(x, x.id) for x in ast.walk(e) if isinstance(x, ast.Name) and x.id in role]
            try:
                for x, old_ in touched:
                    x.id = role[old_]
                return norm(e)
            finally:
                for x, old_ in touched:
                    x.id = old_

        # dispatch through a table: `left = TABLE[op](left, right)` - every entry is checked against the operator's form
        bound_tables = {n.targets[0].id: n.value for n in ast.walk(loops[0]) if isinstance(n, ast.Assign) and isinstance(n.targets[0], ast.Name)
                        and isinstance(n.value, ast.Subscript)}
        for a in (n for n in ast.walk(loops[0]) if isinstance(n, ast.Assign) and isinstance(n.value, ast.Call)):
            sub = a.value.func
            if isinstance(sub, ast.Name) and sub.id in bound_tables:
                sub = bound_tables[sub.id]  # `combine = TABLE[op]; left = combine(left, right)`
            if not isinstance(sub, ast.Subscript):
                continue
            tbl = _module_literal(f, sub.value)
            if not (isinstance(tbl, ast.Dict) and isinstance(sub.slice, ast.Name) and sub.slice.id in toks and form(a.value).endswith("(left, right)")
                    and isinstance(a.targets[0], ast.Name) and a.targets[0].id == acc):
                continue
            for k, v in zip(tbl.keys, tbl.values):
                if not (isinstance(k, ast.Constant) and isinstance(k.value, str)):
                    continue
                tok = k.value
                got = _callable_form(ctx, f, v)
                remaining.discard(tok)
                ctx.check("R5", f"parser {tok!r} → {want.get(tok)}", got == want.get(tok), f, a,
                          f"token {tok!r} is dispatched to `{norm(v)}`, which builds {got!r} instead of {want.get(tok)!r}",
                          how="entry of the operator dispatch table compared with the operator's SymPy form", construct=f"token {tok} builds [{got!r}]")
        for iff in (n for n in ast.walk(loops[0]) if isinstance(n, ast.If)):
            t = iff.test
            if not (isinstance(t, ast.Compare) and isinstance(t.left, ast.Name) and t.left.id in toks and isinstance(t.comparators[0], ast.Constant)):
                continue
            tok = t.comparators[0].value
            # `if tok == '+': A else: B` and `if tok != '+': B else: A` say the same thing: the arm for the token is the one
            # in which the equality holds
            eq = isinstance(t.ops[0], (ast.Eq, ast.Is))
            if not eq and not isinstance(t.ops[0], (ast.NotEq, ast.IsNot)):
                continue
            arm_tok, arm_rest = (iff.body, iff.orelse) if eq else (iff.orelse, iff.body)
            if not arm_tok:
                continue
            got = [form(s.value) for s in arm_tok if isinstance(s, ast.Assign)]
            remaining.discard(tok)
            ctx.check("R5", f"parser {tok!r} → {want.get(tok)}", got == [want.get(tok)], f, iff,
                      f"token {tok!r} builds {got} instead of {want.get(tok)!r}",
                      how="branch body compared with the operator's SymPy form", construct=f"token {tok} builds {got}")
            if arm_rest and not isinstance(arm_rest[0], ast.If):
                got = [form(s.value) for s in arm_rest if isinstance(s, ast.Assign)]
                ctx.check("R5", f"parser else-branch ({sorted(remaining)}) → SymPy form",
                          len(remaining) == 1 and got == [want.get(next(iter(remaining)))], f, iff,
                          f"the remaining token(s) {sorted(remaining)} build {got}",
                          how="else branch handles exactly the one remaining token of the tier",
                          construct=f"else branch builds {got} for {sorted(remaining)}")
    fpow = next((f for f, ops, _ in _tiers(ctx) if "**" in ops), None)
    if fpow is not None:
        pows = [n for n in own_nodes(fpow.node) if isinstance(n, ast.BinOp) and isinstance(n.op, ast.Pow)]
        ctx.check("R5", "parser '**' → Pow", bool(pows), fpow, fpow.node, "'**' does not build a power", nontrivial=False)


def rule_r6(ctx):
    n = 0
    for mn in ("onnx_ir._core", SYM):
        for f in ctx.repo.module(mn).all_funcs:
            if isinstance(f.node, ast.Lambda):
                continue
            a = f.node.args
            maps = {p_.arg for p_ in a.posonlyargs + a.args + a.kwonlyargs if p_.annotation is not None
                    and re.search(r"(Mapping|dict|Dict)\[str, *int\]", norm(p_.annotation))}
            if not maps:
                continue
            n += 1

            def drawn(e):
                # e is <map>[k] / <map>.get(k[, d]) or a local bound to one
                if isinstance(e, ast.Subscript) and isinstance(e.value, ast.Name) and e.value.id in maps:
                    return True
                if isinstance(e, ast.Call) and isinstance(e.func, ast.Attribute) and e.func.attr == "get" and isinstance(e.func.value, ast.Name) \
                        and e.func.value.id in maps:
                    return True
                if isinstance(e, ast.Name):
                    return any(isinstance(x, ast.Assign) and any(isinstance(t, ast.Name) and t.id == e.id for t in x.targets) and drawn(x.value)
                               for x in own_nodes(f.node))
                if isinstance(e, ast.NamedExpr):
                    return drawn(e.value)
                return False

            bad = None
            for x in own_nodes(f.node):
                if isinstance(x, ast.BoolOp) and any(drawn(v) for v in x.values):
                    bad = x
                elif isinstance(x, (ast.If, ast.IfExp, ast.While)):
                    t = x.test.operand if isinstance(x.test, ast.UnaryOp) and isinstance(x.test.op, ast.Not) else x.test
                    if drawn(t):
                        bad = x.test
                elif isinstance(x, ast.comprehension) and any(drawn(c.operand if isinstance(c, ast.UnaryOp) else c) for c in x.ifs):
                    bad = x.ifs[0]
            ctx.check("R6", f"{f.local}: values of `{sorted(maps)[0]}` are tested by presence, not truthiness", bad is None, f, bad if bad is not None else f.node,
                      f"`{norm(bad) if bad is not None else ''}` uses a bound integer as a truth value: a binding of 0 is treated as missing, so the "
                      "symbol is not substituted and the evaluation returns a residual (or a wrong value) for empty dimensions",
                      how="no and/or operand, if/while/comprehension condition that is a value drawn from the Mapping[str, int] parameter",
                      construct="binding tested by truthiness")
    ctx.require(n >= 2, f"only {n} functions with a Mapping[str, int] bindings parameter found")


_PROJECTIONS = re.compile(r"^(args|expr|cond|func|as_\w+|subs_first|lhs|rhs|numerator|denominator|p|q)$")
_PROJ_EXEMPT = {"p", "q", "numerator", "denominator"}  # of numbers: the value itself, not a sub-term of a formula


def _projection_in(e):
    for x in ast.walk(e):
        if isinstance(x, ast.Attribute) and _PROJECTIONS.match(x.attr) and x.attr not in _PROJ_EXEMPT:
            # `self.args`-like receivers that are plainly not SymPy values are left alone
            if isinstance(x.value, ast.Name) and x.value.id in ("self", "cls"):
                continue
            return x
    return None


def rule_r7(ctx):
    repo = ctx.repo
    dim = repo.cls("onnx_ir._core:SymbolicDim")
    ctx.require(dim is not None, "SymbolicDim not found")
    funcs = [m for m in dim.methods.values() if not isinstance(m.node, ast.Lambda)]
    funcs += [f for f in repo.modules[SYM].all_funcs if not isinstance(f.node, ast.Lambda) and f.owner_class is None]
    n = 0
    for f in funcs:
        rets = [x for x in own_nodes(f.node) if isinstance(x, ast.Return) and x.value is not None]
        if not rets or all(isinstance(r.value, ast.Constant) or (isinstance(r.value, ast.Name) and r.value.id in f.params) for r in rets):
            continue  # answers with a parameter or a literal: nothing is built
        n += 1
        # names that (transitively) hold a projection
        tainted: dict[str, ast.AST] = {}
        changed = True
        while changed:
            changed = False
            for a in own_nodes(f.node):
                if isinstance(a, (ast.Assign, ast.AnnAssign, ast.AugAssign, ast.NamedExpr)) and getattr(a, "value", None) is not None:
                    tg = a.targets if isinstance(a, ast.Assign) else [a.target]
                    src = _projection_in(a.value) or next((tainted[x.id] for x in ast.walk(a.value) if isinstance(x, ast.Name) and x.id in tainted), None)
                    if src is None:
                        continue
                    for t in tg:
                        for x in ast.walk(t):
                            if isinstance(x, ast.Name) and x.id not in tainted:
                                tainted[x.id] = src
                                changed = True
        bad = None
        for r in rets:
            bad = _projection_in(r.value) or next((tainted[x.id] for x in ast.walk(r.value) if isinstance(x, ast.Name) and x.id in tainted), None)
            if bad is not None:
                break
        if bad is None:
            # … nor chosen by one: a branch that decides what to return by looking at a sub-term (`expr.as_numer_denom()[1] == 1 →
            # already whole`) judges the top-level shape only - Mod, Max, Abs of a fraction have denominator 1 and are not whole
            for iff in (x for x in own_nodes(f.node) if isinstance(x, (ast.If, ast.IfExp, ast.While))):
                t = iff.test
                src = _projection_in(t) or next((tainted[x.id] for x in ast.walk(t) if isinstance(x, ast.Name) and x.id in tainted), None)
                if src is not None and (isinstance(iff, ast.IfExp) or any(isinstance(y, ast.Return) for b in iff.body + iff.orelse for y in ast.walk(b))):
                    bad = src
                    break
        ctx.check("R7", f"{f.local}: the result is built from whole SymPy expressions", bad is None, f, bad if bad is not None else f.node,
                  f"{f.local} returns a value built from `{short(norm(bad)) if bad is not None else ''}` - a sub-term of a SymPy expression: the returned dimension "
                  "is a different function of the symbols (e.g. one branch of a Piecewise is singular where another branch applied), so "
                  "simplification/evaluation changes results for some bindings",
                  how="taint from attribute projections (.args/.expr/.as_*) through locals to the returned expression",
                  construct="result built from a sub-term projection")
    ctx.require(n >= 15, f"only {n} value-returning symbolic functions found")


def rule_r8(ctx):
    shape = ctx.repo.cls("onnx_ir._core:Shape")
    sd = ctx.repo.cls("onnx_ir._core:SymbolicDim")
    ctx.require(shape is not None and sd is not None, "Shape / SymbolicDim not found")
    n = 0
    for name, f in shape.methods.items():
        if name.startswith("_") or name not in sd.methods or isinstance(f.node, ast.Lambda):
            continue
        for lp in (x for x in own_nodes(f.node) if isinstance(x, ast.For) and isinstance(x.target, ast.Name)):
            d = lp.target.id
            # the branch for symbolic dimensions: `if isinstance(d, SymbolicDim):` (possibly an elif)
            for br in (x for x in ast.walk(lp) if isinstance(x, ast.If)):
                t, positive = br.test, True
                while isinstance(t, ast.UnaryOp) and isinstance(t.op, ast.Not):
                    t, positive = t.operand, not positive
                if not (isinstance(t, ast.Call) and dotted_of(t.func) == "isinstance" and len(t.args) == 2 and norm(t.args[0]) == d and "SymbolicDim" in norm(t.args[1])):
                    continue
                arm = br.body if positive else br.orelse  # the statements that run for a symbolic dimension
                if not arm:
                    continue
                n += 1
                deleg = [c for st in arm for c in ast.walk(st) if isinstance(c, ast.Call) and isinstance(c.func, ast.Attribute) and c.func.attr == name and norm(c.func.value) == d]
                bare = [c for st in arm for c in ast.walk(st) if isinstance(c, ast.Call) and isinstance(c.func, ast.Attribute) and c.func.attr in ("append", "add", "extend", "update")
                        and any(isinstance(a, ast.Name) and a.id == d for a in c.args)]
                exits = [x for st in arm for x in ast.walk(st) if isinstance(x, (ast.Continue, ast.Break, ast.Return))]
                cond = [x for st in arm for x in ast.walk(st) if isinstance(x, (ast.If, ast.IfExp)) and any(c is y for c in deleg for y in ast.walk(x))]
                bad = (bare or exits or cond or ([] if deleg else [br]))
                ctx.check("R8", f"Shape.{name}: every symbolic dimension goes through {d}.{name}(…)", not bad, f, bad[0] if bad else br,
                          f"`{norm(bad[0])[:70] if bad else ''}`: a symbolic dimension can leave Shape.{name} without `{d}.{name}(…)` having been applied to it - with a partial "
                          "binding the bound symbols are not substituted, so the shape that comes back still carries them and a later binding of the remaining symbols "
                          "gives a symbolic result (or another number) instead of the value of the fully bound expression",
                          how="SymbolicDim branch of the per-dimension loop: one unconditional call of the same-named SymbolicDim method, no bare hand-over, no early exit",
                          construct=f"symbolic dimension bypasses SymbolicDim.{name} in Shape.{name}")
    ctx.require(n >= 3, f"only {n} per-dimension delegations found in Shape (evaluate, simplify, free_symbols expected)")


def rule_r9(ctx):
    k = ctx.repo.cls("onnx_ir._core:SymbolicDim")
    n = 0
    for f in list(k.methods.values()) + [g for pr in k.props.values() for g in pr.values()]:
        if f.name in ("__init__", "__new__", "__setstate__") or isinstance(f.node, ast.Lambda) or not f.params:
            continue
        if f.name.startswith("_") and not f.name.startswith("__") and ctx.repo.transparent_callers(f) is not None:
            continue  # a private helper that exists only as a part of its callers: what it is given is examined there (E1b)
        me, params = f.params[0], set(f.params[1:])
        a = f.node.args
        if a.vararg:
            params.add(a.vararg.arg)
        if a.kwarg:
            params.add(a.kwarg.arg)

        def depends_on_params(e, depth=0, seen=None) -> str | None:
            seen = seen if seen is not None else set()
            for x in ast.walk(e):
                if isinstance(x, ast.Name) and isinstance(x.ctx, ast.Load):
                    if x.id in params:
                        return x.id
                    if x.id != me and x.id not in seen and depth < 4:
                        seen.add(x.id)
                        for st in own_nodes(f.node):
                            vals = []
                            if isinstance(st, ast.Assign) and any(isinstance(t, ast.Name) and t.id == x.id for t in ast.walk(ast.Tuple(elts=st.targets))):
                                vals.append(st.value)
                            elif isinstance(st, (ast.AnnAssign, ast.AugAssign)) and isinstance(st.target, ast.Name) and st.target.id == x.id and getattr(st, "value", None) is not None:
                                vals.append(st.value)
                            elif isinstance(st, ast.NamedExpr) and st.target.id == x.id:
                                vals.append(st.value)
                            elif isinstance(st, ast.For) and any(isinstance(t, ast.Name) and t.id == x.id for t in ast.walk(st.target)):
                                vals.append(st.iter)
                            for v in vals:
                                hit = depends_on_params(v, depth + 1, seen)
                                if hit:
                                    return hit
            return None

        for st in own_nodes(f.node):
            tg = st.targets if isinstance(st, ast.Assign) else [st.target] if isinstance(st, (ast.AnnAssign, ast.AugAssign)) else []
            for t in tg:
                if isinstance(t, ast.Attribute) and norm(t.value) == me and getattr(st, "value", None) is not None:
                    n += 1
                    hit = depends_on_params(st.value)
                    ctx.check("R9", f"{f.local}: `{norm(t)}` is stored from the dimension's own state only", hit is None, f, st,
                              f"`{norm(st)[:80]}` keeps, on the dimension, something that comes from the parameter `{hit}` of this call: a later call answers from what an earlier "
                              "caller passed in (and a stored mapping keeps changing with its owner), so evaluation is no longer a function of the dimension and the bindings given",
                              how="right-hand sides of `self.<field> = …` outside __init__, through the locals they name, mention no parameter of the method",
                              construct=f"{f.name} stores a parameter-derived value in {t.attr}")
    ctx.require(n >= 1, "no field store outside __init__ found in SymbolicDim (the lazy expression cache was expected)")


def rule_r10(ctx):
    p = ctx.repo.cls("onnx_ir._symbolic_shapes:_ExpressionParser")
    f = p.methods.get("_parse_function_call")
    ctx.require(f is not None, "_ExpressionParser._parse_function_call not found")
    # the argument list: the local that receives self._parse_expr() through append
    lists = {c.func.value.id for c in calls_in(f) if isinstance(c.func, ast.Attribute) and c.func.attr == "append" and isinstance(c.func.value, ast.Name)
             and c.args and isinstance(c.args[0], ast.Call) and isinstance(c.args[0].func, ast.Attribute) and c.args[0].func.attr.startswith("_parse")}
    # … or the local bound to what a parser method of its own returns (`args = self._parse_args()`)
    lists |= {a.targets[0].id for a in own_nodes(f.node) if isinstance(a, ast.Assign) and len(a.targets) == 1 and isinstance(a.targets[0], ast.Name)
              and isinstance(a.value, ast.Call) and isinstance(a.value.func, ast.Attribute) and a.value.func.attr.startswith("_parse") and norm(a.value.func.value) == f.params[0]
              and any(isinstance(r, ast.Return) and isinstance(r.value, ast.Call) and any(isinstance(x, ast.Starred) and isinstance(x.value, ast.Name) and x.value.id == a.targets[0].id
                                                                                  for x in r.value.args) for r in own_nodes(f.node))}
    ctx.require(len(lists) == 1, "_parse_function_call: the list of parsed arguments was not found")
    args = next(iter(lists))
    # … is bound once (to an empty list) and spread into the call that builds the result
    binds = [a for a in own_nodes(f.node) if isinstance(a, (ast.Assign, ast.AnnAssign, ast.AugAssign)) and any(
        isinstance(t, ast.Name) and t.id == args for t in (a.targets if isinstance(a, ast.Assign) else [a.target]))]
    mut = [c for c in calls_in(f) if isinstance(c.func, ast.Attribute) and isinstance(c.func.value, ast.Name) and c.func.value.id == args
           and c.func.attr in ("remove", "pop", "clear", "sort", "reverse", "insert", "extend", "__delitem__")]
    dels = [d for d in own_nodes(f.node) if isinstance(d, ast.Delete) and any(isinstance(t, ast.Subscript) and norm(t.value) == args for t in d.targets)]
    rets = [r for r in own_nodes(f.node) if isinstance(r, ast.Return) and isinstance(r.value, ast.Call)]
    spread = [r for r in rets if any(isinstance(a, ast.Starred) and isinstance(a.value, ast.Name) and a.value.id == args for a in r.value.args)]
    extra = [b for b in binds[1:]] + mut + dels
    ok = len(binds) == 1 and not extra and len(spread) == len(rets) and bool(spread)
    bad = (extra or [r for r in rets if r not in spread] or [f.node])[0]
    ctx.check("R10", f"_parse_function_call: every parsed argument reaches the constructor (`{args}` is only appended to and spread)", ok, f, bad,
              f"`{norm(bad)[:80]}`: the list of parsed arguments is changed (or not passed on whole) between parsing and the call of the SymPy constructor - arguments are dropped or "
              "reordered, so the expression does not mean the function of the arguments that were written (`max(N - 5, 0)` parsed as `N - 5`), and the text SymPy prints "
              "for a dimension no longer re-parses to the same evaluations",
              how="bindings and mutating calls of the argument list in the function-call production; the result is `<constructor>(*<list>)`",
              construct="argument list of a parsed call altered before the constructor")


def rule_r11(ctx):
    m = ctx.repo.module("onnx_ir._symbolic_shapes")
    n = 0
    for cname in ("_ExpressionTokenizer", "_ExpressionParser"):
        k = m.classes.get(cname)
        ctx.require(k is not None, f"{cname} not found")
        meths = [f for f in ctx.repo.live(k.methods.values()) if not isinstance(f.node, ast.Lambda)]
        counters = set()
        for f in meths:
            for a in own_nodes(f.node):
                if isinstance(a, ast.AugAssign) and isinstance(a.op, (ast.Add, ast.Sub)):
                    counters.add(norm(a.target))

        def limit(e):
            if isinstance(e, ast.Constant) and isinstance(e.value, (int, float)) and not isinstance(e.value, bool):
                return e.value >= 2
            if isinstance(e, ast.Name) and e.id in m.assigns:
                v = m.assigns[e.id]
                return isinstance(v, ast.Constant) and isinstance(v.value, (int, float)) and not isinstance(v.value, bool) and v.value >= 2
            return False

        def bounded(t):
            for c in ast.walk(t):
                if isinstance(c, ast.Compare) and len(c.ops) == 1 and isinstance(c.ops[0], (ast.Lt, ast.LtE, ast.Gt, ast.GtE)):
                    a_, b_ = c.left, c.comparators[0]
                    for x, y in ((a_, b_), (b_, a_)):
                        if limit(y) and any(norm(z) in counters for z in ast.walk(x) if isinstance(z, (ast.Name, ast.Attribute))):
                            return c
            return None

        for f in meths:
            for r in (x for x in own_nodes(f.node) if isinstance(x, ast.Raise)):
                n += 1
                tests = []
                child, par = r, getattr(r, "_parent", None)
                while par is not None:
                    for fld in ("body", "orelse"):
                        blk = getattr(par, fld, None)
                        if isinstance(blk, list) and child in blk:
                            tests += [p_.test for p_ in blk[: blk.index(child)] if isinstance(p_, ast.If) and p_.body and isinstance(p_.body[-1], (ast.Return, ast.Continue, ast.Break))]
                            if isinstance(par, (ast.If, ast.While)):
                                tests.append(par.test)
                    if par is f.node:
                        break
                    child, par = par, getattr(par, "_parent", None)
                bad = None
                for t in tests:
                    bad = bad or bounded(t)
                ctx.check("R11", f"{f.local}: `{norm(r)[:50]}` is not a size limit", bad is None, f, bad if bad is not None else r,
                          f"`{norm(r)[:70]}` is raised when `{norm(bad) if bad is not None else ''}` - a counter compared with a fixed limit: text the library itself prints for a "
                          "dimension (a long sum of `floor(...)` / `Mod(...)` terms, deeply nested parentheses) is refused with ValueError when it is read back, instead of "
                          "parsing to an expression with the same evaluations",
                          how="tests governing each raise of the tokenizer / parser × ordering comparisons of a stepped counter (+= / -=) with a numeric literal or module constant >= 2",
                          construct=f"size limit {norm(bad) if bad is not None else ''}")
    ctx.require(n >= 4, f"only {n} raise statements found in the expression tokenizer / parser")


def rule_r12(ctx):
    n = 0
    for cname in ("SymbolicDim", "Shape"):
        k = ctx.repo.cls(f"onnx_ir._core:{cname}")
        for f in ctx.repo.live(k.methods.values()):
            if isinstance(f.node, ast.Lambda):
                continue
            # locals that hold (something derived from) a SymPy expression
            sym = set()
            for _ in range(3):
                for a in own_nodes(f.node):
                    if isinstance(a, (ast.Assign, ast.AnnAssign)) and getattr(a, "value", None) is not None and any(
                            (isinstance(y, ast.Attribute) and y.attr in ("_expr", "subs", "simplify", "evalf", "doit")) or (isinstance(y, ast.Name) and y.id in sym)
                            or (isinstance(y, ast.Call) and (dotted_of(y.func) or "").startswith("sympy.")) for y in ast.walk(a.value)):
                        for t in (a.targets if isinstance(a, ast.Assign) else [a.target]):
                            sym |= {y.id for y in ast.walk(t) if isinstance(y, ast.Name)}
            for c in calls_in(f):
                if not (dotted_of(c.func) == "int" and len(c.args) == 1):
                    continue
                arg = c.args[0]
                if not any((isinstance(y, ast.Attribute) and y.attr == "_expr") or (isinstance(y, ast.Name) and y.id in sym) for y in ast.walk(arg)):
                    continue
                n += 1
                tests = []
                child, par = c, getattr(c, "_parent", None)
                while par is not None:
                    if isinstance(par, (ast.If, ast.IfExp, ast.While)):
                        tests.append(par.test)
                    for fld in ("body", "orelse"):
                        blk = getattr(par, fld, None)
                        if isinstance(blk, list) and any(child is st for st in blk):
                            tests += [p_.test for p_ in blk[: next(i for i, st in enumerate(blk) if st is child)]
                                      if isinstance(p_, ast.If) and p_.body and isinstance(p_.body[-1], (ast.Return, ast.Raise, ast.Continue))]
                    if par is f.node:
                        break
                    child, par = par, getattr(par, "_parent", None)
                # a test may read a local that was bound to the question (`is_int = r.is_number and r.is_integer`)
                for t in list(tests):
                    for y in ast.walk(t):
                        if isinstance(y, ast.Name):
                            tests += [a.value for a in own_nodes(f.node) if isinstance(a, ast.Assign) and any(isinstance(t_, ast.Name) and t_.id == y.id for t_ in a.targets)]
                asked = any(isinstance(y, ast.Attribute) and y.attr in ("is_integer", "is_Integer") for t in tests for y in ast.walk(t)) or any(
                    isinstance(y, ast.Call) and dotted_of(y.func) == "isinstance" and "Integer" in norm(y) for t in tests for y in ast.walk(t))
                ctx.check("R12", f"{f.local}: `{norm(c)[:40]}` converts an expression that is known to be an integer", asked, f, c,
                          f"`{norm(c)[:50]}` turns a SymPy expression into an int without a test that it is an integer: a dimension that reduces to a rational constant "
                          "(`N/(2*N)` -> 1/2, the literal `3/2`) is truncated towards zero (0, 1), so the simplified shape evaluates - and multiplies, rounds up - differently from "
                          "the shape it was made from",
                          how="int(<SymPy expression>) in SymbolicDim / Shape × governing tests that read is_integer / is_Integer / isinstance(…, Integer)",
                          construct="int() of an expression not known to be an integer")
    ctx.require(n >= 1, "no int(<expression>) conversion found in SymbolicDim / Shape")


def run(ctx):
    rule_r12(ctx)
    rule_r11(ctx)
    rule_r10(ctx)
    rule_r9(ctx)
    rule_r8(ctx)
    rule_r7(ctx)
    rule_r6(ctx)
    rule_r1(ctx)
    rule_r2_r3_r4(ctx)
    rule_r5(ctx)
