"""C11 — graph iteration stays well defined while the graph is edited."""

from __future__ import annotations

import ast

from ..cfg import CFG
from ..facts import calls_in, field_writes, is_self_call
from ..index import FuncInfo, dotted_of, norm, own_nodes
from ..shared import s1_sites

PROPERTY = "C11"
RULES = {
    "R1": "_LinkBox.erase rewires the neighbours and clears self.value only — it never writes its own prev/next, "
    "so a cursor parked on an erased box can continue from the original place"
    " ; no other field of the erased box (e.g. its owner) is rewritten either",
    "R2": "every yield of DoublyLinkedSet.__iter__/__reversed__ is control-dependent on the box not being erased, "
    "the cursor advances through the box's own next/prev, and the loop ends only at the root",
    "R3": "length and id→box map change together on every path; every insertion entry point reaches "
    "_insert_one_after; there the already-present value is removed before the new box is linked and mapped"
    " ; the anchor's successor is read after that removal and exactly four link writes splice the new box",
    "R4": "RecursiveGraphIterator creates sub-iterators lazily inside the generator, after yielding the owning "
    "node, and treats GRAPH and GRAPHS attributes alike (shared rule S1)"
    " ; the per-node loop walks the live container (the graph or reversed(graph)), not a slice or copy",
    "R6": "indexing, length, membership and iteration of the linked set read only state that every linking/unlinking "
    "primitive maintains (or that is bound once in the constructor): a field they read that some structural primitive does "
    "not write is a derived copy that goes stale under edits",
    "R5": "the node container of a graph is never replaced: `_nodes` is bound once, in Graph.__init__ - iterators in "
    "flight hold boxes of that container object, so an operation that rebuilds it (instead of relinking inside it) cuts them "
    "off from every later edit",
    "R7": "the iterators a graph or function hands out (`__iter__`, `__reversed__`, `all_nodes` - the non-generator methods "
    "annotated as returning an Iterator) are chosen and built without looking at the current contents: no condition in the "
    "method reads through `self`, and nothing derived from `self` is materialised (list/tuple/sorted …) - a decision or "
    "a copy taken before iteration starts is stale after the first edit",
    "R8": "boxes leave the set only through erase(): every method of the linked set (other than the constructor) that takes entries out "
    "of the id→box map (del / pop / clear / rebinding), lowers or resets `_length`, or points the root at itself calls `<box>.erase()` - "
    "for each removed box, i.e. in a loop when more than one box goes (clear(), rebinding, `_length = 0`): erase() is what marks a "
    "box for the cursors parked on it; a bulk reset that skips it leaves iterators walking the stale chain and yielding nodes that "
    "no longer belong to the graph",
    "R9": "a multi-insert continues where the single insert put the element: in the loop of the linked set that inserts several values one "
    "after another, the insertion point for the next value is the box the single-insert primitive returned - never `<point>.next` or "
    "any other walk of the links: the primitive answers with the existing box when the value already sits at the insertion point (a move "
    "that changes nothing), and then `.next` is the following element, so the rest of the batch lands one place too late "
    "(`insert_before(C, [B, X])` with B in front of C puts X after C - an iterator parked on C yields a node inserted before it)",
    "R10": "what the recursive traversal does after handing out a node does not depend on whether the node still belongs to the graph: in "
    "the generators of the traversal module, no test between `yield <node>` and the descent into that node's subgraphs (guard clauses and "
    "enclosing conditions of the `yield from`) reads the node's graph link (`<node>.graph` / `._graph`) or asks whether the node is still "
    "a member of a container - the consumer may remove the node it has just been given, and the nodes of its subgraphs were present at "
    "the start and were never touched, so they are still yielded",
    "R11": "an iterator keeps no record of what it has yielded: the classes of the traversal module (and the linked set) hold no collection "
    "field - bound to `set()` / `{}` / `[]` / dict() in the constructor or in `__iter__` - that `__next__` or a generator of the class "
    "tests membership in or adds to: a node that was already handed out and is then placed again behind the current position (removed "
    "and re-appended, moved forward) belongs to the graph at that position and has to be yielded there, exactly as the plain iterator "
    "of the linked set does - a `_visited` filter makes the recursive iterator disagree with it",
}
FLOORS = {"R1": 3, "R2": 4, "R3": 8, "R4": 3, "R5": 1, "R6": 5, "R7": 6, "R8": 1, "R9": 1, "R10": 1, "R11": 2}
EXPLANATION = (
    "Checks the structural invariants the tombstone scheme of the doubly linked node list depends on: who writes "
    "which link, control dependence of every yield on the erased test, paired updates of length and map (CFG "
    "dominance), reachability of the single insertion primitive, laziness of recursive iteration."
)
NOT_DECIDED = "history-level guarantees: exactly-once, order, resumption point, termination (properties of executions)"
ASSUMPTIONS = ["only the linked-list module writes link fields (decided by C01-R2)"]

LL = "onnx_ir._linked_list"


def rule_r1(ctx):
    box = ctx.repo.cls(f"{LL}:_LinkBox")
    er = box.methods.get("erase")
    ctx.require(er is not None, "_LinkBox.erase not found")
    own, nb, val = [], [], []
    for w in field_writes(er):
        if w.field in ("prev", "next"):
            (own if norm(w.recv) == "self" else nb).append(w)
        if w.field == "value" and norm(w.recv) == "self":
            val.append(w)
    ctx.check("R1", "erase never writes self.prev / self.next", not own, er, own[0].stmt if own else er.node,
              "erase overwrites the erased box's own links: an iterator parked on it cannot resume at the original place",
              how="write sites of prev/next classified by receiver")
    # … nor any other field of the erased box than its value: the iterators' membership test
    # (`box.owning_list is not self`) is applied to every box they step onto, erased ones included
    other = [w for w in field_writes(er) if norm(w.recv) == "self" and w.field not in ("value", "prev", "next")]
    ctx.check("R1", "erase leaves the erased box's owner (and every field but value) untouched", not other, er,
              other[0].stmt if other else er.node,
              f"erase rewrites `self.{other[0].field if other else ''}` of the erased box: an iterator that steps onto (or stands on) an erased "
              "box tests that field before skipping it, so two consecutive removals ahead of an iterator make the iteration raise",
              how="the only self field written by erase is `value`", nontrivial=False, construct="erase writes another field of the erased box")
    ok = {w.field for w in nb} == {"prev", "next"}
    if ok:
        # prev.next = next ; next.prev = prev  (through locals bound to self.prev / self.next)
        binds = {}
        for n in own_nodes(er.node):
            if isinstance(n, ast.Assign) and isinstance(n.targets[0], ast.Tuple) and isinstance(n.value, ast.Tuple):
                for t, v in zip(n.targets[0].elts, n.value.elts):
                    if isinstance(t, ast.Name):
                        binds[t.id] = norm(v)
            elif isinstance(n, ast.Assign) and isinstance(n.targets[0], ast.Name):
                binds[n.targets[0].id] = norm(n.value)
        pairs = set()
        for n in own_nodes(er.node):
            if isinstance(n, ast.Assign):
                tg = n.targets[0].elts if isinstance(n.targets[0], ast.Tuple) else [n.targets[0]]
                vs = n.value.elts if isinstance(n.value, ast.Tuple) and isinstance(n.targets[0], ast.Tuple) else [n.value]
                for t, v in zip(tg, vs):
                    if isinstance(t, ast.Attribute) and t.attr in ("prev", "next") and norm(t.value) != "self":
                        # the neighbour through a local alias (`prev.next = next_`) or written out (`self.prev.next = self.next`)
                        pairs.add((binds.get(norm(t.value), norm(t.value)), t.attr, binds.get(norm(v), norm(v))))
        ok = pairs == {("self.prev", "next", "self.next"), ("self.next", "prev", "self.prev")}
    ctx.check("R1", "erase links the two neighbours to each other", ok, er, er.node,
              "erase does not set prev.next = next and next.prev = prev", how="link writes resolved through the local aliases")
    ok = len(val) == 1 and isinstance(val[0].stmt.value, ast.Constant) and val[0].stmt.value.value is None
    ctx.check("R1", "erase clears self.value (the tombstone mark)", ok, er, er.node,
              "erase does not mark the box as erased", how="self.value = None", nontrivial=False)


class _Specialised:
    """A method as analysed: itself, or - when it only delegates with `yield from self.<walk>(<flag>=<constant>)` - the walk it
    delegates to with the flag folded in."""

    def __init__(self, f, node):
        self.f, self.node = f, node if node is not None else f.node
        self.local, self.key, self.module, self.params = f.local, f.key, f.module, f.params

    def __getattr__(self, a):
        return getattr(self.f, a)


def _delegated_walk(dl, f):
    """The body of the generator a pure delegation `yield from self.<m>(flag)` runs, specialised for the constant flag."""
    from ..index import set_parents
    from ..inline import clone

    body = [st for st in f.node.body if not (isinstance(st, ast.Expr) and isinstance(st.value, ast.Constant))]
    if not (len(body) == 1 and isinstance(body[0], ast.Expr) and isinstance(body[0].value, ast.YieldFrom)):
        return None
    c = body[0].value.value
    if not (isinstance(c, ast.Call) and isinstance(c.func, ast.Attribute) and norm(c.func.value) == f.params[0] and c.func.attr in dl.methods):
        return None
    g = dl.methods[c.func.attr]
    consts = {}
    for i, a in enumerate(c.args):
        if isinstance(a, ast.Constant) and i + 1 < len(g.params):
            consts[g.params[i + 1]] = a.value
    for k in c.keywords:
        if k.arg and isinstance(k.value, ast.Constant):
            consts[k.arg] = k.value.value
    if len(consts) != len(g.params) - 1:
        return None
    node = clone(g.node)

    class Fold(ast.NodeTransformer):
        def visit_Name(self, n):
            if isinstance(n.ctx, ast.Load) and n.id in consts:
                return ast.copy_location(ast.Constant(value=consts[n.id]), n)
            return n

        def visit_IfExp(self, n):
            n = self.generic_visit(n)
            if isinstance(n.test, ast.Constant):
                return n.body if n.test.value else n.orelse
            return n

        def visit_BoolOp(self, n):
            n = self.generic_visit(n)
            vals = []
            for v in n.values:
                if isinstance(v, ast.Constant) and isinstance(v.value, bool):
                    if isinstance(n.op, ast.And) and not v.value:
                        return ast.copy_location(ast.Constant(value=False), n)
                    if isinstance(n.op, ast.Or) and v.value:
                        return ast.copy_location(ast.Constant(value=True), n)
                    continue
                vals.append(v)
            if not vals:
                return ast.copy_location(ast.Constant(value=isinstance(n.op, ast.And)), n)
            return vals[0] if len(vals) == 1 else ast.copy_location(ast.BoolOp(op=n.op, values=vals), n)

        def visit_UnaryOp(self, n):
            n = self.generic_visit(n)
            if isinstance(n.op, ast.Not) and isinstance(n.operand, ast.Constant) and isinstance(n.operand.value, bool):
                return ast.copy_location(ast.Constant(value=not n.operand.value), n)
            return n

        def visit_If(self, n):
            n = self.generic_visit(n)
            if isinstance(n.test, ast.Constant):
                keep = n.body if n.test.value else n.orelse
                return keep or [ast.copy_location(ast.Pass(), n)]
            return n

    node = Fold().visit(node)
    ast.fix_missing_locations(node)
    set_parents(node)
    return node


def _value_locals(fn_node, cur: str) -> set[str]:
    """Locals bound once to `<cursor>.value`."""
    binds: dict[str, list] = {}
    for a in own_nodes(fn_node):
        if isinstance(a, ast.Assign) and len(a.targets) == 1 and isinstance(a.targets[0], ast.Name):
            binds.setdefault(a.targets[0].id, []).append(norm(a.value))
    out = {k for k, v in binds.items() if v == [f"{cur}.value"]}
    for _ in range(3):
        # … or to such a local (`item = value`, the form an expanded generator helper leaves behind)
        out |= {k for k, v in binds.items() if len(v) == 1 and v[0] in out}
    return out


def rule_r2(ctx):
    dl = ctx.repo.cls(f"{LL}:DoublyLinkedSet")
    for name, step in (("__iter__", "next"), ("__reversed__", "prev")):
        f0 = dl.methods.get(name)
        ctx.require(f0 is not None, f"DoublyLinkedSet.{name} not found")
        f = _Specialised(f0, _delegated_walk(dl, f0))
        ys = [n for n in own_nodes(f.node) if isinstance(n, (ast.Yield, ast.YieldFrom))]
        ctx.require(bool(ys), f"{name}: no yield")
        # the cursor is the variable the loop compares with the root sentinel
        loops = [n for n in own_nodes(f.node) if isinstance(n, ast.While)]
        cur = None
        if len(loops) == 1:
            t = loops[0].test
            if isinstance(t, ast.Compare) and len(t.ops) == 1 and isinstance(t.ops[0], ast.IsNot) and isinstance(t.left, ast.Name) \
                    and norm(t.comparators[0]) == "self._root":
                cur = t.left.id
        for y in ys:
            guarded = False
            p = getattr(y, "_parent", None)
            child = y
            while p is not None and p is not f.node:
                if isinstance(p, ast.If) and child in p.body and cur is not None:
                    t = norm(p.test)
                    if t in (f"not {cur}.erased", f"{cur}.value is not None") or any(t == f"{v} is not None" for v in _value_locals(f.node, cur)):
                        guarded = True
                child = p
                p = getattr(p, "_parent", None)
            ctx.check("R2", f"{name}: yield guarded by the erased test", guarded, f, y,
                      "a box is yielded without testing that it has not been erased: removed nodes can be yielded",
                      how="control dependence of the yield on `not <cursor>.erased`", construct="yield not guarded by the erased test")
            ok = isinstance(y, ast.Yield) and cur is not None and (norm(y.value) == f"{cur}.value" or norm(y.value) in _value_locals(f.node, cur))
            ctx.check("R2", f"{name}: yields the box's own value", ok, f, y, "yield does not return <cursor>.value", nontrivial=False,
                      construct="yield is not the cursor's value")
        ok = cur is not None
        if ok:
            adv = [n for n in own_nodes(f.node) if isinstance(n, ast.Assign) and norm(n.targets[0]) == cur]
            init = [a for a in adv if norm(a.value) == f"self._root.{step}"]
            stepw = [a for a in adv if norm(a.value) == f"{cur}.{step}"]
            ok = len(init) == 1 and len(stepw) == 1 and len(adv) == 2
            if ok:
                # the advance is the last statement of the loop body and unconditional
                ok = loops[0].body[-1] is stepw[0] and not any(isinstance(n, (ast.Break, ast.Continue, ast.Return)) for n in ast.walk(loops[0]))
        ctx.check("R2", f"{name}: cursor starts at root.{step}, advances by its own .{step} unconditionally, stops at the root", ok, f, f.node,
                  "the cursor does not advance through the box's own link on every iteration, or the loop can stop early",
                  how="loop test, initialisation, single unconditional advance as last statement")


def rule_r3(ctx, rule="R3"):
    repo = ctx.repo
    dl = repo.cls(f"{LL}:DoublyLinkedSet")
    for f in dl.methods.values():
        if f.name == "__init__":
            continue
        lw = [w for w in field_writes(f) if w.field == "_length" and norm(w.recv) == "self"]
        mw = [w for w in field_writes(f) if w.field == "_value_ids_to_boxes" and norm(w.recv) == "self"]
        if not lw and not mw:
            continue
        cfg = CFG(f.node)
        ok = bool(lw) and bool(mw)
        if ok:
            for a in lw:
                an = cfg.node_of(a.stmt)[0]
                # some map write on every normal path through the length write
                M = {x.id for m in mw for x in (cfg.node_of(m.stmt) or cfg.nodes_containing(m.call if getattr(m, 'call', None) is not None else m.stmt))[:1]}
                before = cfg.all_paths_through(cfg.entry, M, {an.id}, exc=False)
                after = cfg.all_paths_through(an, M, {cfg.exit.id}, exc=False)
                ok = ok and (before or after)
            for m in mw:
                mn = (cfg.node_of(m.stmt) or cfg.nodes_containing(m.call if getattr(m, 'call', None) is not None else m.stmt))[0]
                L = {cfg.node_of(a.stmt)[0].id for a in lw}
                ok = ok and (cfg.all_paths_through(cfg.entry, L, {mn.id}, exc=False) or cfg.all_paths_through(mn, L, {cfg.exit.id}, exc=False))
            # direction agreement: += 1 with a store, -= 1 with a delete
            for a in lw:
                if isinstance(a.stmt, ast.Assign) and isinstance(a.stmt.value, ast.Constant) and a.stmt.value.value == 0:
                    # a reset of the whole set: length 0 goes with an emptied (or fresh) map (that every box is erased is R8's)
                    ok = ok and all((m.kind == "mutcall" and m.method == "clear") or m.kind == "store" for m in mw)
                    continue
                inc = isinstance(a.stmt, ast.AugAssign) and isinstance(a.stmt.op, ast.Add)
                kinds = {m.kind for m in mw}
                ok = ok and ((inc and kinds == {"substore"}) or (not inc and kinds <= {"subdel", "mutcall"}))
                ok = ok and isinstance(a.stmt, ast.AugAssign) and norm(a.stmt.value) == "1"
        ctx.check(rule, f"{f.local}: _length and _value_ids_to_boxes change together", ok, f, f.node,
                  "length and id→box map are not updated on the same paths / in the same direction: len(), indexing "
                  "and membership stop describing the sequence",
                  how="paired CFG path coverage of the two write sets; ±1 matches store/delete")
    ins = dl.methods.get("_insert_one_after")
    ctx.require(ins is not None, "_insert_one_after not found")
    # reachability of the primitive from each insertion entry point
    for name in ("append", "extend", "insert_after", "insert_before", "_insert_many_after"):
        f = dl.methods.get(name)
        ctx.require(f is not None, f"DoublyLinkedSet.{name} not found")
        seen, stack, ok = set(), [f], False
        while stack:
            g = stack.pop()
            if g.key in seen:
                continue
            seen.add(g.key)
            for c in calls_in(g):
                if isinstance(c.func, ast.Attribute) and norm(c.func.value) == "self" and c.func.attr in dl.methods:
                    if c.func.attr == "_insert_one_after":
                        ok = True
                    stack.append(dl.methods[c.func.attr])
        direct = [w for w in field_writes(f) if w.field in ("next", "prev", "_length", "_value_ids_to_boxes")]
        ctx.check(rule, f"{name} inserts only through _insert_one_after", ok and not direct, f, f.node,
                  "insertion entry point links boxes itself instead of going through _insert_one_after",
                  how="intra-class call graph reachability; no direct link writes")
    # inside the primitive
    cfg = CFG(ins.node)
    rm = [c for c in calls_in(ins) if is_self_call(c, "remove")]
    ok = False
    if rm:
        iff = getattr(getattr(rm[0], "_parent", None), "_parent", None)
        ok = isinstance(iff, ast.If) and "in self._value_ids_to_boxes" in norm(iff.test) and " not in " not in norm(iff.test)
        stores = [w for w in field_writes(ins) if w.field == "_value_ids_to_boxes" and w.kind == "substore"]
        links = [w for w in field_writes(ins) if w.field in ("next", "prev")]
        if ok and stores and links:
            tn = [n for n in cfg.node_of(iff) if n.kind == "test"][0]
            ok = all(cfg.dominates(tn, cfg.node_of(w.stmt)[0]) for w in stores + links)
        else:
            ok = False
    ctx.check(rule, "_insert_one_after: present value is removed before the new box is linked and mapped", ok, ins, ins.node,
              "a value already in the list is linked a second time without erasing its old box (duplicate yield / stale map entry)",
              how="`if id in map: self.remove(value)` test dominates every link and map write")
    guards = [norm(n.test) for n in own_nodes(ins.node) if isinstance(n, ast.If) and any(isinstance(s, (ast.Raise, ast.Return)) for s in n.body)]
    p_anchor, p_new = ins.params[1], ins.params[2]  # roles by position: the parameters of a private method may be renamed
    ok = any(f"{p_anchor}.owning_list is not self" in g for g in guards) and any(f"{p_new} is None" in g for g in guards) \
        and any(f"{p_anchor}.value is {p_new}" in g for g in guards)
    ctx.check(rule, "_insert_one_after: rejects None, foreign anchor boxes and self-insertion before linking", ok, ins, ins.node,
              "one of the entry guards of the insertion primitive is missing", how="guard texts", nontrivial=False)
    # new box: prev/next wiring complete.  Roles are taken from the code: the anchor is the box parameter, the new box
    # is the local bound to the _LinkBox constructor, the old successor the local bound to <anchor>.next
    anchor = ins.params[1]
    newb = [n.targets[0].id for n in own_nodes(ins.node) if isinstance(n, ast.Assign) and isinstance(n.targets[0], ast.Name)
            and isinstance(n.value, ast.Call) and (dotted_of(n.value.func) or "").endswith("_LinkBox")]
    on = [n for n in own_nodes(ins.node) if isinstance(n, ast.Assign) and isinstance(n.targets[0], ast.Name) and norm(n.value) == f"{anchor}.next"]
    ok = len(newb) == 1 and len(on) == 1
    w4 = set()
    for a in own_nodes(ins.node):
        if not isinstance(a, ast.Assign):
            continue
        for t in a.targets:
            pairs = list(zip(t.elts, a.value.elts)) if isinstance(t, ast.Tuple) and isinstance(a.value, ast.Tuple) and len(t.elts) == len(a.value.elts) else [(t, a.value)]
            for tt, vv in pairs:
                if isinstance(tt, ast.Attribute) and tt.attr in ("next", "prev"):
                    w4.add((norm(tt.value), tt.attr, norm(vv)))
    if ok:
        nb, succ = newb[0], on[0].targets[0].id
        ok = w4 == {(anchor, "next", nb), (nb, "prev", anchor), (nb, "next", succ), (succ, "prev", nb)}
    if ok:
        ok = cfg.dominates(cfg.node_of(on[0])[0], cfg.node_of([w for w in field_writes(ins) if norm(w.recv) == anchor and w.field == "next"][0].stmt)[0])
    ctx.check(rule, "_insert_one_after: four link writes splice the new box between box and its old successor", ok, ins, ins.node,
              f"link writes are {sorted(w4)}", how="exact set of (receiver, field, value) link stores; successor captured first",
              construct="splice link writes")
    # the successor is read from the anchor only after a present value was unlinked: when the value being moved is the
    # anchor's current successor, a successor captured earlier is the value's own erased box
    if on and rm:
        rm_if = getattr(getattr(rm[0], "_parent", None), "_parent", None)
        tn = [n for n in cfg.node_of(rm_if) if n.kind == "test"] if isinstance(rm_if, ast.If) else []
        ok2 = bool(tn) and cfg.dominates(tn[0], cfg.node_of(on[0])[0])
        ctx.check(rule, "_insert_one_after: the anchor's successor is captured after the present value was removed", ok2, ins, on[0],
                  f"`{norm(on[0])}` runs before the value is unlinked from its old position: if the value is the anchor's own successor, the new "
                  "box is chained to its erased box and the real successor keeps a stale prev link (reverse iteration, indexing from the "
                  "end and later removals go wrong)",
                  how="the remove-if-present test dominates the read of <anchor>.next", construct="successor captured before the removal")


def rule_r4(ctx):
    repo = ctx.repo
    it = repo.cls("onnx_ir.traversal:RecursiveGraphIterator")
    gen = it.methods.get("_recursive_node_iter")
    sub = it.methods.get("_iterate_subgraphs")
    ctx.require(gen is not None and sub is not None, "RecursiveGraphIterator generators not found")
    # laziness: the sub-iterator is created inside the generator, after `yield node`, per node
    loop = [n for n in own_nodes(gen.node) if isinstance(n, ast.For)]
    ok = False
    if loop:
        body = loop[0].body
        ys = [i for i, s in enumerate(body) if isinstance(s, ast.Expr) and isinstance(s.value, ast.Yield) and norm(s.value.value) == norm(loop[0].target)]
        subs = [i for i, s in enumerate(body) if any(isinstance(x, ast.Call) and is_self_call(x, "_iterate_subgraphs") for x in ast.walk(s))]
        ok = bool(ys) and bool(subs) and ys[0] < subs[0]
        # no eager materialisation of the node sequence or of the subgraph iterators
        eager = [n for n in own_nodes(gen.node) if isinstance(n, ast.Call) and dotted_of(n.func) in ("list", "tuple", "sorted")]
        ok = ok and not eager
    ctx.check("R4", "_recursive_node_iter yields the node before descending, lazily", ok, gen, gen.node,
              "sub-iterators are created before the owning node is yielded, or the node sequence is materialised eagerly",
              how="statement order inside the per-node loop; no list()/tuple() of the graph")
    # the per-node loop walks the live container in both directions: its iterable is the graph parameter itself or
    # reversed()/iter() of it - not a slice, copy or sorted/filtered sequence (a snapshot would keep yielding removed
    # nodes and miss inserted ones)
    gp = gen.params[1] if len(gen.params) > 1 else None

    def live(e, depth=0):
        if isinstance(e, ast.Name):
            if e.id == gp:
                return True
            defs = [n.value for n in own_nodes(gen.node) if isinstance(n, (ast.Assign, ast.AnnAssign)) and getattr(n, "value", None) is not None
                    and any(isinstance(t, ast.Name) and t.id == e.id for t in (n.targets if isinstance(n, ast.Assign) else [n.target]))]
            return bool(defs) and depth < 3 and all(live(d, depth + 1) for d in defs)
        if isinstance(e, ast.IfExp):
            return live(e.body, depth) and live(e.orelse, depth)
        if isinstance(e, ast.Call) and dotted_of(e.func) in ("reversed", "iter") and len(e.args) == 1:
            return live(e.args[0], depth)
        return False

    for lp in loop[:1]:
        ctx.check("R4", "_recursive_node_iter walks the live node container (forward and reversed)", gp is not None and live(lp.iter), gen, lp,
                  f"the per-node loop iterates `{norm(lp.iter)}`, which is (on some path) a snapshot of the graph's nodes (slice, copy, sorted …) "
                  "rather than the graph or reversed(graph): nodes removed during the traversal are still yielded and nodes inserted ahead are skipped",
                  how="provenance of the loop's iterable through locals and conditional expressions",
                  construct="iterable is not the live container")
    is_gen = any(isinstance(n, (ast.Yield, ast.YieldFrom)) for n in own_nodes(sub.node))
    eager = [n for n in own_nodes(sub.node) if isinstance(n, ast.Call) and dotted_of(n.func) in ("list", "tuple", "sorted")]
    ctx.check("R4", "_iterate_subgraphs is a generator creating iterators on demand", is_gen and not eager, sub, sub.node,
              "subgraph iterators are built eagerly", how="generator function; no materialisation")
    n = 0
    for f, node, ok, detail, label in s1_sites(repo, {"onnx_ir.traversal"}):
        n += 1
        ctx.check("R4", f"S1 {f.local}: {label}"[:150], ok, f, node, detail, how="GRAPH/GRAPHS sibling agreement", construct=f"S1 {label}")
    ctx.require(n >= 1, "no GRAPH/GRAPHS dispatch found in traversal")


def rule_r5(ctx):
    n = 0
    for f in ctx.repo.all_funcs():
        if not f.key.startswith("onnx_ir") or isinstance(f.node, ast.Lambda):
            continue
        for w in field_writes(f):
            if w.field != "_nodes" or w.kind != "store":
                continue
            graphish = ("Graph", "GraphView", "Function")
            if norm(w.recv) == "self":
                if f.owner_class is None or f.owner_class.name not in graphish:
                    continue  # another class with a field of the same name (e.g. Tape)
            else:
                rc = {k.name for k in ctx.typer.recv_classes(f, w.recv)}
                if rc and not (rc & set(graphish)):
                    continue
                if not rc and f.module.name != "onnx_ir._core":
                    continue
            n += 1
            ok = f.name == "__init__" and norm(w.recv) == "self"
            ctx.check("R5", f"{f.local}: {norm(w.stmt)[:60]} binds the node container in the constructor", ok, f, w.stmt,
                      f"`{norm(w.stmt)[:90]}` replaces a graph's node container outside the constructor: iterators that are in progress keep walking the "
                      "old container, so nodes removed afterwards are still yielded and nodes inserted afterwards are never seen",
                      how="who-may-write: stores to <graph>._nodes", construct=f"_nodes rebound in {f.local}")
    ctx.require(n >= 1, "no store to _nodes found (Graph.__init__ expected)")


OBSERVERS = ("__getitem__", "__len__", "__contains__", "__iter__", "__reversed__")


def rule_r6(ctx):
    dls = ctx.repo.cls(f"{LL}:DoublyLinkedSet")
    ctx.require(dls is not None, "DoublyLinkedSet not found")
    box = ctx.repo.cls(f"{LL}:_LinkBox")
    link_writers = {name for name, m in (box.methods if box else {}).items() if any(w.field in ("prev", "next") for w in field_writes(m))}
    # structural primitives: methods that write a link field of a box or call a link-writing box method
    prims = []
    for name, m in dls.methods.items():
        if name == "__init__":
            continue
        links = any(w.field in ("prev", "next") for w in field_writes(m))
        viabox = any(isinstance(c.func, ast.Attribute) and c.func.attr in link_writers and norm(c.func.value) != "self" for c in calls_in(m))
        if links or viabox:
            prims.append(m)
    ctx.require(len(prims) >= 2, "linking and unlinking primitives of DoublyLinkedSet not found")
    written_by = {m.name: {w.field for w in field_writes(m) if norm(w.recv) == "self"} for m in prims}
    written_outside_ctor = set()
    for name, m in dls.methods.items():
        if name != "__init__":
            written_outside_ctor |= {w.field for w in field_writes(m) if norm(w.recv) == "self"}

    def reads(m, seen):
        out = []
        if m.name in seen:
            return out
        seen.add(m.name)
        for n in own_nodes(m.node):
            if isinstance(n, ast.Attribute) and isinstance(n.value, ast.Name) and n.value.id == "self":
                if n.attr in dls.methods:
                    out += reads(dls.methods[n.attr], seen)
                elif isinstance(n.ctx, ast.Load):
                    out.append((n.attr, n, m))
        return out

    for oname in OBSERVERS:
        o = dls.methods.get(oname)
        if o is None:
            continue  # inherited from Sequence: defined through __getitem__/__len__/__iter__
        fields: dict[str, tuple] = {}
        for a, n, m in reads(o, set()):
            fields.setdefault(a, (n, m))
        for a, (n, m) in sorted(fields.items()):
            missing = [p_.name for p_ in prims if a not in written_by[p_.name]]
            ok = a not in written_outside_ctor or not missing
            ctx.check("R6", f"{oname} reads `{a}`: maintained by every structural primitive or constructor-bound", ok, m, n,
                      f"`{oname}` answers from `self.{a}` (read in {m.name}), which {', '.join(missing)} do(es) not update: after an insertion, removal or "
                      "move the answer describes an earlier sequence (indexing/length/membership must describe the current one)",
                      how="fields read by the observers (through self-calls) × fields written by the primitives that write box links",
                      construct=f"{oname} reads {a}")


_MATERIALISERS = {"list", "tuple", "sorted", "set", "frozenset", "dict", "collections.deque", "deque"}


def rule_r7(ctx):
    n = 0
    for ck in ("onnx_ir._core:Graph", "onnx_ir._core:Function", "onnx_ir._core:GraphView"):
        k = ctx.repo.cls(ck)
        for f in k.methods.values():
            if isinstance(f.node, ast.Lambda) or f.node.returns is None or "Iterator" not in norm(f.node.returns):
                continue
            if any(isinstance(x, (ast.Yield, ast.YieldFrom)) for x in own_nodes(f.node)):
                continue  # generators run their body lazily, step by step (R2 / R4)
            n += 1
            me = f.params[0] if f.params else "self"

            def reads_self(e):
                return any(isinstance(x, ast.Name) and x.id == me for x in ast.walk(e))

            bad = None
            why = ""
            for x in own_nodes(f.node):
                test = None
                if isinstance(x, (ast.If, ast.While, ast.IfExp, ast.Assert)):
                    test = x.test
                elif isinstance(x, ast.BoolOp):
                    test = x
                elif isinstance(x, ast.comprehension):
                    test = x.iter
                elif isinstance(x, (ast.For,)):
                    test = x.iter
                elif isinstance(x, ast.Try):
                    test = None
                if test is not None and reads_self(test):
                    bad, why = x if not isinstance(x, ast.comprehension) else test, "decides by (or loops over) the contents at call time"
                    break
                if isinstance(x, ast.Call) and (dotted_of(x.func) or "") in _MATERIALISERS and any(reads_self(a) for a in x.args):
                    bad, why = x, "materialises the contents at call time"
                    break
                if isinstance(x, (ast.ListComp, ast.SetComp, ast.DictComp)) and reads_self(x):
                    bad, why = x, "materialises the contents at call time"
                    break
            ctx.check("R7", f"{f.local}: the iterator is built without looking at the contents", bad is None, f, bad if bad is not None else f.node,
                      f"{f.local} {why} (`{norm(bad)[:70] if bad is not None else ''}`): what is decided or copied before the iteration starts is "
                      "stale once the graph is edited during the iteration - nodes (or subgraphs) inserted after the current position are not yielded, "
                      "and two iterators taken before and after the edit disagree",
                      how="no condition / loop / materialising call in the method reads through self")
    ctx.require(n >= 6, "iterator-returning methods of Graph / Function / GraphView not found")


def rule_r8(ctx):
    dl = ctx.repo.cls(f"{LL}:DoublyLinkedSet")
    n = 0
    for f in dl.methods.values():
        if f.name == "__init__" or isinstance(f.node, ast.Lambda):
            continue
        single, bulk = [], []
        for w in field_writes(f):
            if norm(w.recv) != "self":
                continue
            if w.field == "_value_ids_to_boxes":
                if w.kind in ("subdel",) or (w.kind == "mutcall" and w.method in ("pop",)):
                    single.append(w)
                elif (w.kind == "mutcall" and w.method in ("clear", "popitem")) or w.kind == "store":
                    bulk.append(w)
            if w.field == "_length":
                st = w.stmt
                if isinstance(st, ast.AugAssign) and isinstance(st.op, ast.Sub):
                    single.append(w)
                elif isinstance(st, ast.Assign):
                    bulk.append(w)
        # the root pointed at itself: <root>.next = <root> / <root>.prev = <root>
        for w in field_writes(f):
            if w.field in ("next", "prev") and w.kind == "store" and isinstance(w.stmt, ast.Assign) and norm(w.stmt.value) == norm(w.recv):
                bulk.append(w)
        if not single and not bulk:
            continue
        n += 1
        erases = [c for c in calls_in(f) if isinstance(c.func, ast.Attribute) and c.func.attr == "erase" and not c.args]
        in_loop = [c for c in erases if any(isinstance(a, (ast.For, ast.While)) for a in _ancestors(c, f.node))]
        ok = bool(erases) and (not bulk or bool(in_loop))
        first = (bulk or single)[0]
        ctx.check("R8", f"{f.local}: boxes taken out of the set are erased", ok, f, first.stmt,
                  f"`{norm(first.stmt)[:70]}` takes {'every box' if bulk else 'a box'} out of the set without {'erasing each of them' if bulk else 'erasing it'}: the boxes keep their values "
                  "and their prev/next chain, so an iterator parked on or before them goes on yielding nodes that are no longer in the graph (len() is 0 and the "
                  "nodes have graph None)",
                  how="methods that shrink the id→box map / the length / reset the root call <box>.erase() (in a loop for bulk forms)",
                  construct=f"boxes leave the set without erase() in {f.local}")
    ctx.require(n >= 1, "no method of DoublyLinkedSet takes boxes out of the set (remove expected)")


def _ancestors(n, stop):
    p = getattr(n, "_parent", None)
    while p is not None and p is not stop:
        yield p
        p = getattr(p, "_parent", None)


def rule_r9(ctx):
    dl = ctx.repo.cls(f"{LL}:DoublyLinkedSet")
    prim = dl.methods.get("_insert_one_after")
    ctx.require(prim is not None, "DoublyLinkedSet._insert_one_after not found")
    n = 0
    for f in ctx.repo.live(dl.methods.values()):
        if f is prim or isinstance(f.node, ast.Lambda):
            continue
        for lp in (x for x in own_nodes(f.node) if isinstance(x, (ast.For, ast.While))):
            calls = [c for st in lp.body for c in ast.walk(st) if isinstance(c, ast.Call) and isinstance(c.func, ast.Attribute) and c.func.attr == prim.name
                     and norm(c.func.value) == f.params[0] and c.args]
            for c in calls:
                pt = c.args[0]
                if not isinstance(pt, ast.Name):
                    continue
                n += 1
                # every rebinding of the insertion point inside the loop is the primitive's result
                rebinds = [a for st in lp.body for a in ast.walk(st) if isinstance(a, (ast.Assign, ast.AugAssign, ast.AnnAssign, ast.NamedExpr))
                           and any(isinstance(t, ast.Name) and t.id == pt.id for t in ([a.target] if not isinstance(a, ast.Assign) else a.targets))]
                bad = [a for a in rebinds if not (isinstance(getattr(a, "value", None), ast.Call) and isinstance(a.value.func, ast.Attribute) and a.value.func.attr == prim.name)]
                ok = bool(rebinds) and not bad
                ctx.check("R9", f"{f.local}: the next insertion point is the box {prim.name} returned", ok, f, bad[0] if bad else c,
                          f"`{norm(bad[0])[:60] if bad else norm(c)[:60]}`: inside the loop the insertion point `{pt.id}` is "
                          + ("advanced by walking the links instead of taking the box the primitive returned" if bad else "never advanced")
                          + " - when the value already sits at the insertion point the primitive returns that box and links nothing, so the walk skips one element and "
                          "the rest of the batch is inserted one place too late (after a node the iterator has already reached)",
                          how="rebindings, inside the loop, of the variable passed as insertion point: each is `<point> = self._insert_one_after(…)`",
                          construct=f"insertion point of {f.local} not taken from the primitive")
    ctx.require(n >= 1, "no loop over the single-insert primitive found in the linked set")


def rule_r10(ctx):
    m = ctx.repo.module("onnx_ir.traversal")
    n = 0
    for f in ctx.repo.live(m.all_funcs):
        if isinstance(f.node, ast.Lambda):
            continue
        for lp in (x for x in own_nodes(f.node) if isinstance(x, ast.For) and isinstance(x.target, ast.Name)):
            v = lp.target.id
            ys = [i for i, s_ in enumerate(lp.body) if isinstance(s_, ast.Expr) and isinstance(s_.value, ast.Yield) and norm(s_.value.value) == v]
            if not ys:
                continue
            after = lp.body[ys[0] + 1:]
            # the descent: a later `yield from <call taking the node>` (possibly under conditions)
            desc = [x for st in after for x in ast.walk(st) if isinstance(x, ast.YieldFrom) and any(isinstance(y, ast.Name) and y.id == v for y in ast.walk(x.value))]
            if not desc:
                continue
            n += 1
            # locals of the loop body bound to an expression that reads the link
            def reads_link(e, depth=0):
                for x in ast.walk(e):
                    if isinstance(x, ast.Attribute) and isinstance(x.value, ast.Name) and x.value.id == v and x.attr in ("graph", "_graph"):
                        return x
                    if isinstance(x, ast.Compare) and any(isinstance(o, (ast.In, ast.NotIn)) for o in x.ops) and isinstance(x.left, ast.Name) and x.left.id == v:
                        return x
                    if isinstance(x, ast.Name) and x.id != v and depth < 2:
                        for a in (y for st in after for y in ast.walk(st)):
                            if isinstance(a, ast.Assign) and any(isinstance(t, ast.Name) and t.id == x.id for t in a.targets):
                                r = reads_link(a.value, depth + 1)
                                if r is not None:
                                    return r
                return None

            tests = []
            d = desc[0]
            # enclosing conditions of the descent inside the loop body
            p_ = getattr(d, "_parent", None)
            top = None
            while p_ is not None and p_ is not lp:
                if isinstance(p_, (ast.If, ast.While)):
                    tests.append(p_.test)
                top, p_ = p_, getattr(p_, "_parent", None)
            # guard clauses between the yield and the descent
            for st in after:
                if st is top:
                    break
                for g in ast.walk(st):
                    if isinstance(g, ast.If) and any(isinstance(y, (ast.Continue, ast.Break, ast.Return)) for b in (g.body, g.orelse) for z in b for y in ast.walk(z)):
                        tests.append(g.test)
            bad = None
            for t in tests:
                bad = bad or reads_link(t)
            ctx.check("R10", f"{f.local}: the descent after `yield {v}` does not ask whether `{v}` is still in the graph", bad is None, f, bad if bad is not None else d,
                      f"between `yield {v}` and the descent into its subgraphs a test reads `{norm(bad) if bad is not None else ''}`: when the consumer removes the node it has "
                      "just been handed, the traversal skips the nodes of that node's subgraphs - nodes that were present at the start and never touched are not yielded",
                      how="tests governing the `yield from` that follows `yield <node>` in the per-node loop (guard clauses, enclosing ifs, through locals): no read of <node>.graph / membership",
                      construct=f"descent conditional on {norm(bad) if bad is not None else ''}")
    ctx.require(n >= 1, "no yield-then-descend loop found in the traversal module")


def rule_r11(ctx):
    n = 0
    classes = list(ctx.repo.module("onnx_ir.traversal").classes.values()) + [ctx.repo.cls(f"{LL}:DoublyLinkedSet")]
    for k in classes:
        # collection fields of the instance
        coll = {}
        for f in k.methods.values():
            if isinstance(f.node, ast.Lambda) or not f.params:
                continue
            me = f.params[0]
            for a in own_nodes(f.node):
                if isinstance(a, (ast.Assign, ast.AnnAssign)) and getattr(a, "value", None) is not None:
                    v = a.value
                    fresh = isinstance(v, (ast.Set, ast.Dict, ast.List)) or (isinstance(v, ast.Call) and dotted_of(v.func) in ("set", "dict", "list", "frozenset") and not v.args)
                    for t in (a.targets if isinstance(a, ast.Assign) else [a.target]):
                        if fresh and isinstance(t, ast.Attribute) and norm(t.value) == me:
                            coll[t.attr] = f
        for f in k.methods.values():
            if isinstance(f.node, ast.Lambda) or not f.params:
                continue
            is_iter = f.name in ("__next__", "__iter__", "__reversed__") or any(isinstance(y, (ast.Yield, ast.YieldFrom)) for y in own_nodes(f.node))
            if not is_iter:
                continue
            n += 1
            me = f.params[0]
            bad = None
            for x in own_nodes(f.node):
                if isinstance(x, ast.Compare) and any(isinstance(o, (ast.In, ast.NotIn)) for o in x.ops) and any(
                        isinstance(y, ast.Attribute) and norm(y.value) == me and y.attr in coll for c_ in x.comparators for y in ast.walk(c_)):
                    # the id→box map of the linked set answers membership of the *current* contents: it is maintained by every primitive (R3 / R6)
                    if k.name == "DoublyLinkedSet":
                        continue
                    bad = bad or x
            ctx.check("R11", f"{f.local}: the iteration consults no record of earlier yields", bad is None, f, bad if bad is not None else f.node,
                      f"`{norm(bad)[:60] if bad is not None else ''}` tests a collection the iterator fills as it goes: a node that was yielded, removed and appended again (or moved "
                      "behind the current position) while the iterator was suspended is part of the graph there and must be yielded there - the filter drops it, and the recursive "
                      "iterator no longer agrees with iter(graph) for the same edits",
                      how="collection fields bound in the constructor / __iter__ of the iterator classes × membership tests in __next__ and the generators", construct="iterator filters on its own history")
    ctx.require(n >= 2, f"only {n} iterating methods found in the traversal module / linked set")


def run(ctx):
    rule_r11(ctx)
    rule_r10(ctx)
    rule_r9(ctx)
    rule_r5(ctx)
    rule_r8(ctx)
    rule_r7(ctx)
    rule_r6(ctx)
    rule_r1(ctx)
    rule_r2(ctx)
    rule_r3(ctx)
    rule_r4(ctx)
