"""C05 — every built-in pass, alone or composed, preserves what the model computes."""

from __future__ import annotations

import ast
import re

from ..cfg import CFG
from ..facts import calls_in
from ..index import FuncInfo, dotted_of, norm, own_nodes, short
from ..shared import s1_sites

PROPERTY = "C05"
RULES = {
    "R1": "safe removal only: every node removal under passes/ and in replace_nodes_and_values passes safe=True, so a "
    "rewrite that forgot to re-route a use or removes a producer of a graph output is rejected instead of leaving a "
    "dangling value",
    "R2": "interface preservation: no pass changes the number of graph outputs (element replacement only), and only the "
    "two initializer/input conversion passes and the restoring C-API helper change the number of graph inputs",
    "R3": "key completeness: the CSE key data-depends on every semantic facet of a node (operator identifier, number of "
    "outputs, inputs, attributes) and CSE skips subgraph-carrying and non-deterministic nodes; the initializer "
    "deduplication keys depend on dtype, shape and content"
    " ; comprehensions over node.inputs that feed the CSE key keep one entry per slot (no filter)",
    "R4": "an Identity from a graph input/initializer to a graph output is kept: the early exit dominates the rewrite; "
    "GRAPH/GRAPHS attributes are treated alike in every pass (S1)",
    "R5": "history-free pass objects: a field of a pass object that is written while the pass runs (per-run state) is "
    "re-initialised unconditionally in call()/requires() before its first use in that run, so the result for a model "
    "does not depend on the models the same pass object (or Sequential/PassManager holding it) processed before",
    "R6": "attribute substitution while inlining is wholesale: where the cloner replaces a reference attribute by the "
    "attribute looked up in its substitution map, every field of the attribute it builds (referenced parameter name, type, "
    "value, doc string) is taken from the looked-up attribute - mixing in a field of the attribute being replaced makes the "
    "inlined node refer to a parameter of the callee that the enclosing function does not declare",
    "R7": "a pass gives an attribute to an existing node only when the node has no attribute of that name: every store "
    "`<node>.attributes[K] = …` in the pass modules comes after a skip (`continue`/`return`) whose condition holds whenever "
    "`K in <node>.attributes` (also spelled `.get(K) is not None`) - presence is decided by the key, never by the stored "
    "attribute's value: a reference attribute (`alpha = @alpha` inside a function) has value None and must not be overwritten "
    "by the schema default",
    "R8": "a pass never deletes an attribute of a node that stays in the graph (`<node>.attributes.pop(…)`, `del …attributes[…]`, "
    "`.clear()`): an attribute is part of what the node computes - BatchNormalization without training_mode normalises with the "
    "running statistics instead of the batch statistics",
    "R9": "equivalence keys compare floats exactly: a FLOAT/FLOATS attribute enters the common-subexpression key through its "
    "bit pattern (struct.pack, float.hex, tobytes), never as a Python float - 0.0 == -0.0 and hash alike, but x/0.0 and x/-0.0 differ",
    "R10": "a registry of used value names knows every value of the graph it is collected for: a pass function that registers "
    "the names of a graph's node outputs in a set (to keep the names it makes up, or the names of inlined values, apart from "
    "them) registers in the same function - its nested callbacks included - the names of that graph's inputs and of its "
    "initializers too; collected one nesting level up (main graph and functions only), the interface names of control-flow "
    "subgraphs are unknown and an inlined or renamed value can take the name of a subgraph's input or initializer: two "
    "values under one name in one scope, a model the checker rejects or that binds consumers to the wrong value",
    "R11": "the empty name is an absence: where a pass or rewriting helper carries the name of one value over to another only if the "
    "source has one (`new.name = old.name if <old has a name> else new.name`, or the store under an `if`), the test is the "
    "truthiness of the name - `is not None` lets the empty name of an omitted optional output through, and the value it "
    "overwrites may have consumers inside the rewritten region (an inlined call `'', y = F(x)` blanks the producer that y reads)",
    "R12": "a truncation point is a position, not a count: where a pass shortens a node's inputs or outputs (`resize_inputs`, "
    "`resize_outputs`), the new size is the position after the last element that is kept - found by a scan from the end that "
    "stops (`break`) at the first kept element, or an index - and never the number of elements satisfying a predicate "
    "(`sum(1 for v in inputs if …)`, `len([… if …])`, a counter incremented in a loop that runs to the end): with an omitted "
    "optional input in the middle the count is smaller than the position and real inputs are cut off",
    "R13": "names are made unique among the names of the graph that is edited: where a pass asks a uniqueness function (one that loops "
    "`while <candidate> in <names in use>` over the values of the graph it is given) for a new name, the graph it hands over is the "
    "graph-like that the same loop iteration edits (`<g>.append(node)`, `<g>.outputs[i] = …`, `<g>.insert_*`) - with the enclosing "
    "graph or function instead, a value of a subgraph can be renamed to a name the subgraph already uses (a body input named like "
    "a body initializer: the checker rejects the model and consumers of the constant read the loop-carried input)",
    "R14": "a value the caller can override is never the survivor of a merge: where a pass walks the initializers of a graph, records one "
    "of them in a table (`table[key] = initializer`) and later redirects the uses of an equal one to the recorded value "
    "(`replace_all_uses_with`), the recorded initializer has passed a test that rejects graph inputs (`is_graph_input()`, directly or in "
    "the skip predicate called with arguments that leave that test switched on) - an initializer that is also a graph input is only a "
    "default; a constant folded into it changes value as soon as the caller feeds the input",
    "R15": "a value that is part of an interface keeps its name: where a pass lets a surviving value take over the name of a value it "
    "replaces (`<a>.name = <b>.name`), the survivor is a value the pass has just created, or the statement is reached only when "
    "`<a>.is_graph_output()` is known to be false (an exit or branch on that test governs it) - otherwise an Identity between two graph "
    "outputs is folded by renaming the first output to the second: the graph then lists one value twice and the name of the first "
    "output is gone (the common-subexpression pass, which tests this and keeps an Identity, is the reference)",
    "R16": "a falsy value is a value (shared rule S12): in the pass modules, whether an attribute has a value, a node has a graph, a value "
    "has a shape is asked with `is None` - never by truthiness of an `Attr.value` (Any) or of a sized IR object: `if attr.value` takes the "
    "declared default 0 / 0.0 / '' / [] of a function's attribute parameter for no default, so the inliner drops the `@attr` reference "
    "and the inlined operator computes with its own schema default (Softmax over axis -1 instead of 0)",
    "R17": "an alias is the domain it stands for: a pass function that deletes entries of `<graph>.opset_imports` decides which ones by "
    "comparing their keys with the domains of nodes and functions - the IR spells the default domain '' there, while an import may "
    "be keyed `ai.onnx` - so the function handles the alias (it names the constant 'ai.onnx' or passes the key through a domain "
    "normaliser) before the comparison; a plain `set(opset_imports) - used_domains` deletes the import every ONNX operator of the model needs",
    "R18": "an input leaves a graph only as that graph's own initializer (rule shared with C14-R11): where a pass rebuilds `<g>.inputs` from "
    "a filtered copy, the filter asks the initializers of `<g>` itself - by value, or by a set built from `<g>.initializers` alone; a "
    "set of names gathered over all graphs of the model also drops a loop-carried input that happens to share its name with an "
    "initializer of a sibling body, and the model no longer computes (the checker rejects it)",
    "R19": "a reference attribute holds no graph (shared rule S18): where a pass dispatches on `attr.type == GRAPH / GRAPHS` to descend into "
    "the subgraphs of a node, an is_ref() test that skips the attribute comes first - a valid model may contain a function whose "
    "control-flow node takes its branches from attribute parameters, and a pass that walks function bodies (unused-node removal, inlining) "
    "must transform such a model, not raise TypeError on it",
    "R20": "a value found for one graph is not handed to another: in a pass loop that walks the nodes of *all* graphs of a model (recursive "
    "traversal), a table created before the loop that remembers Values (`table[key] = value`) and is consulted to decide what a node's "
    "uses are redirected to (`replace_all_uses_with`) or what is registered as an initializer has the owning graph in its key - a memo "
    "keyed by the tensor object, a name or a hash alone hands the initializer registered in one If branch to a Constant of the sibling "
    "branch (or of the enclosing graph), which cannot see it: the model refers to a value that is not defined in scope and no longer "
    "computes (the checker rejects it)",
    "R21": "inferred types are carried back graph by graph: where the shape-inference pass copies what ONNX inferred onto the IR values, each "
    "name-to-value table it looks a name up in (`create_value_mapping(<g>)`) is built from a loop variable of the loop that walks the "
    "graphs of the original and of the inferred model in step (`zip(model.graphs(), inferred_model.graphs())`) - one table for the "
    "whole inferred model matches values by bare name across scopes, so a value in one If branch receives the type of the value of the "
    "same name in the sibling branch and the model is rejected by the full checker",
}
FLOORS = {"R1": 5, "R2": 6, "R3": 8, "R4": 6, "R5": 8, "R6": 2, "R7": 1, "R8": 10, "R9": 1, "R10": 3, "R11": 1, "R12": 2, "R13": 2, "R14": 2, "R15": 2, "R16": 100, "R17": 1, "R18": 1, "R19": 2, "R20": 1, "R21": 1}
EXPLANATION = (
    "Four structural necessary conditions of semantic preservation that the pass mechanisms rely on: guarded removal, "
    "interface-size preservation (call-site scan with receiver typing), data-dependence of the equivalence keys on all "
    "semantic facets, and dominance of the keep-Identity exit."
)
NOT_DECIDED = "semantic equivalence for all models × inputs (needs execution or a semantics of ONNX operators); checker acceptance"
ASSUMPTIONS = ["Graph.remove(safe=True) rejects removal of nodes with remaining uses or graph outputs (C06/C01 cover its bookkeeping)"]

CSE = "onnx_ir.passes.common.common_subexpression_elimination"
SIZE_CHANGING = {"append", "extend", "insert", "pop", "remove", "clear", "__delitem__", "__iadd__", "__imul__"}
INPUT_CONVERSION = {
    "onnx_ir.passes.common.constant_manipulation:RemoveInitializersFromInputsPass.call": "drops inputs that are initializers (guarded by membership in initializers)",
    "onnx_ir.passes.common.constant_manipulation:AddInitializersToInputsPass.call": "adds initializers as inputs (guarded by membership)",
    "onnx_ir.passes.common._c_api_utils:call_onnx_api": "temporary; restored by the protocol (C14-R4)",
}


def _pass_funcs(ctx):
    out = []
    for m in ctx.repo.pkg_modules():
        if m.name.startswith("onnx_ir.passes.common"):
            out += m.all_funcs
    out.append(ctx.repo.func("onnx_ir._convenience:replace_nodes_and_values"))
    return out


def rule_r1(ctx):
    ty = ctx.typer
    n = 0
    for f in _pass_funcs(ctx):
        for c in calls_in(f):
            if not (isinstance(c.func, ast.Attribute) and c.func.attr == "remove"):
                continue
            recv = c.func.value
            classes = {k.name for k in ty.recv_classes(f, recv)}
            graphish = bool(classes & {"Graph", "Function", "GraphProtocol", "FunctionProtocol"}) or (
                not classes and any(w in norm(recv).lower() for w in ("graph", "function")))
            if not graphish:
                continue
            n += 1
            safe = next((k.value for k in c.keywords if k.arg == "safe"), None)
            ok = isinstance(safe, ast.Constant) and safe.value is True
            ctx.check("R1", f"{f.local}: {norm(c)[:70]}", ok, f, c,
                      "nodes are removed without safe=True: a value that still has consumers or is a graph output is "
                      "silently left dangling instead of the rewrite being rejected",
                      how="keyword safe=True on every Graph/Function.remove call (receiver typed by the resolver)")
    ctx.require(n >= 5, f"only {n} node-removal sites found")


def rule_r2(ctx):
    n = 0
    from . import c14

    # the temporary-mutation protocol may live in call_onnx_api or in the context-manager helper it enters (C14-R4
    # checks whichever it is)
    pf, ptry = c14.protocol_functions(ctx)
    allowed = dict(INPUT_CONVERSION)
    allowed.pop("onnx_ir.passes.common._c_api_utils:call_onnx_api", None)
    if ptry is not None:
        # the exemption holds only while the undo code sits in a finally (the full protocol is C14-R4)
        allowed[pf.key] = "temporary; restored in the finally of the protocol (C14-R4)"
    for f in _pass_funcs(ctx):
        for c in calls_in(f):
            fn = c.func
            if not (isinstance(fn, ast.Attribute) and fn.attr in SIZE_CHANGING and isinstance(fn.value, ast.Attribute)):
                continue
            coll = fn.value.attr
            if coll not in ("inputs", "outputs"):
                continue
            owner = {k.name for k in ctx.typer.recv_classes(f, fn.value.value)}
            if owner and not (owner & {"Graph", "Function", "GraphProtocol", "FunctionProtocol", "GraphView", "Model"}):
                continue  # node.inputs etc. are tuples / not a graph interface
            n += 1
            if coll == "outputs":
                ok, why = False, "changes the number/order of graph outputs"
            else:
                ok = f.key in allowed
                if not ok:
                    # a private helper that exists only as a part of its callers (all its calls are expanded by the normal
                    # form) acts on their behalf; the same statement is examined inside each of them
                    tc = ctx.repo.transparent_callers(f)
                    ok = tc is not None and all(k in allowed or ctx.repo.transparent_callers(ctx.repo.find_func(k)) is not None
                                                for k in tc if ctx.repo.find_func(k) is not None and ctx.repo.find_func(k).parent is None)
                why = "changes the number of graph inputs outside the initializer/input conversion passes"
            ctx.check("R2", f"{f.local}: {norm(c)[:60]}", ok, f, c,
                      f"a pass {why}: positional correspondence of the model's interface is lost",
                      how=("allowed: " + allowed.get(f.key, "")) if ok else "size-changing call on a graph's inputs/outputs")
        for s in own_nodes(f.node):
            if isinstance(s, ast.Delete):
                for t in s.targets:
                    if isinstance(t, ast.Subscript) and isinstance(t.value, ast.Attribute) and t.value.attr in ("inputs", "outputs"):
                        n += 1
                        ctx.check("R2", f"{f.local}: {norm(s)[:60]}", False, f, s,
                                  "a pass deletes an element of a graph's inputs/outputs", how="del on the interface list")
    # the conversion passes only touch inputs that are initializers
    for key, why in INPUT_CONVERSION.items():
        if "constant_manipulation" not in key:
            continue
        f = ctx.repo.func(key)
        # a membership test (`in` / `not in`) on something derived from <graph>.initializers / <graph>.inputs guards
        # the change, inside a loop over the initializers or the inputs
        def derived(e):
            names = {x.id for x in ast.walk(e) if isinstance(x, ast.Name)}
            if any(isinstance(x, ast.Attribute) and x.attr in ("initializers", "inputs") for x in ast.walk(e)):
                return True
            for a in own_nodes(f.node):
                if isinstance(a, (ast.Assign, ast.AnnAssign)) and getattr(a, "value", None) is not None:
                    tg = a.targets if isinstance(a, ast.Assign) else [a.target]
                    if any(isinstance(t, ast.Name) and t.id in names for t in tg) and any(
                            isinstance(x, ast.Attribute) and x.attr in ("initializers", "inputs") for x in ast.walk(a.value)):
                        return True
            return False

        guards = [x for x in own_nodes(f.node) if isinstance(x, (ast.If, ast.comprehension, ast.IfExp)) and any(
            isinstance(c_, ast.Compare) and isinstance(c_.ops[0], (ast.In, ast.NotIn)) and derived(c_.comparators[0])
            for t_ in ([x.test] if not isinstance(x, ast.comprehension) else x.ifs) for c_ in ast.walk(t_))]
        loops = [x for x in own_nodes(f.node) if isinstance(x, (ast.For, ast.comprehension)) and derived(x.iter)]
        ctx.check("R2", f"{f.local}: input changes are limited to initializers", bool(guards) and bool(loops), f, f.node,
                  "the conversion pass can add/drop inputs that are not initializers", how="membership guard on initializers", nontrivial=True)
        n += 1
    ctx.require(n >= 6, f"only {n} interface-mutation sites found")


def _helper_of(f: FuncInfo, call: ast.Call):
    """The private helper a call resolves to by name: `self._m(…)` of the same class, or `_g(…)` of the module."""
    fn = call.func
    if isinstance(fn, ast.Attribute) and isinstance(fn.value, ast.Name) and f.params and fn.value.id == f.params[0] and f.cls is not None:
        g = f.cls.methods.get(fn.attr)
        return g if g is not None and not isinstance(g.node, ast.Lambda) else None
    if isinstance(fn, ast.Name):
        g = f.module.functions.get(fn.id)
        return g if g is not None and not isinstance(g.node, ast.Lambda) else None
    return None


def _helper_returns(g: FuncInfo, pos: int):
    """Expressions the helper can return at tuple position pos (-1: the whole value), each with its return statement."""
    for r in own_nodes(g.node):
        if isinstance(r, ast.Return) and r.value is not None:
            if pos == -1:
                yield r.value, r
            elif isinstance(r.value, ast.Tuple) and pos < len(r.value.elts):
                yield r.value.elts[pos], r


def _helper_depends(g: FuncInfo, pos: int, cn, depth: int) -> set[str]:
    from ..canon import Canon

    typer = cn.__self__.typer
    cng = Canon(typer, g).cn
    raw: set[str] = set()
    for e, _r in _helper_returns(g, pos):
        raw |= _depends(g, e, cng, 0 if depth < 4 else depth)  # the helper is read with a depth budget of its own (one level of helpers only)
    # the helper's parameters printed like typed locals of the caller
    env = typer.env(g)
    ren = {}
    for p_ in g.params:
        cls = sorted({a[1].name for a in env.get(p_, ()) if a[0] == "cls"})
        if len(cls) == 1:
            ren[p_] = f"<{cls[0]}>"
    out = set()
    for d in raw:
        for p_, c in ren.items():
            if d == p_ or d.startswith(p_ + ".") or d.startswith(p_ + "("):
                d = c + d[len(p_):]
        out.add(d)
    return out


def _depends(f: FuncInfo, expr: ast.AST, cn, depth=0) -> set[str]:
    """Attribute/call texts (alpha-stable, see sa/canon.py) the expression data-depends on, through locals of f."""
    out = set()
    for x in ast.walk(expr):
        if isinstance(x, ast.Attribute):
            out.add(cn(x))
        elif isinstance(x, ast.Call):
            out.add(cn(x.func) + "()")
        elif isinstance(x, ast.Name) and depth < 4:
            for n in own_nodes(f.node):
                tg = []
                if isinstance(n, ast.Assign):
                    tg = n.targets
                    val = n.value
                elif isinstance(n, ast.AnnAssign) and n.value is not None:
                    tg, val = [n.target], n.value
                elif isinstance(n, (ast.For, ast.comprehension)):
                    tg, val = [n.target], n.iter
                for t in tg:
                    if any(isinstance(y, ast.Name) and y.id == x.id for y in ast.walk(t)) and val is not expr:
                        if isinstance(t, ast.Subscript) and isinstance(t.value, ast.Name) and t.value.id == x.id:
                            out |= _depends(f, n.value, cn, depth + 1)
                        elif not isinstance(t, ast.Subscript):
                            out |= _depends(f, val, cn, depth + 1)
            # a local bound from the result of a helper (method of the same class / function of the module): what the helper
            # returns at that position depends on, in the helper's own terms (its parameters printed by their class)
            for n in own_nodes(f.node):
                if not (isinstance(n, ast.Assign) and isinstance(n.value, ast.Call) and depth < 3):
                    continue
                pos = None
                for t in n.targets:
                    if isinstance(t, ast.Name) and t.id == x.id:
                        pos = -1
                    elif isinstance(t, ast.Tuple):
                        for i_, y in enumerate(t.elts):
                            if isinstance(y, ast.Name) and y.id == x.id:
                                pos = i_
                if pos is None:
                    continue
                g = _helper_of(f, n.value)
                if g is None or getattr(cn.__self__, "_in_helper", False):
                    continue
                cn.__self__._in_helper = True
                try:
                    out |= _helper_depends(g, pos, cn, depth + 1)
                finally:
                    cn.__self__._in_helper = False
            # values fed into the object through its methods: h.update(data)
            for n in own_nodes(f.node):
                if isinstance(n, ast.Call) and isinstance(n.func, ast.Attribute) and isinstance(n.func.value, ast.Name) \
                        and n.func.value.id == x.id and n.func.attr in ("update", "append", "add", "extend") and depth < 3:
                    for a in n.args:
                        out |= _depends(f, a, cn, depth + 1)
            # stores into the name: d[k] = v
            for n in own_nodes(f.node):
                if isinstance(n, ast.Assign) and isinstance(n.targets[0], ast.Subscript) and isinstance(n.targets[0].value, ast.Name) \
                        and n.targets[0].value.id == x.id and depth < 3:
                    out |= _depends(f, n.value, cn, depth + 1)
    return out


def _table_lookups(f: FuncInfo):
    """Membership tests `K in D` / `K not in D` on a local table D that is also stored through `D[K'] = …`
    (the equivalence-class table of a deduplicating pass)."""
    stored = {}
    for n in own_nodes(f.node):
        if isinstance(n, ast.Assign) and isinstance(n.targets[0], ast.Subscript) and isinstance(n.targets[0].value, ast.Name):
            stored.setdefault(n.targets[0].value.id, []).append(n)
    out = []
    for n in own_nodes(f.node):
        if isinstance(n, ast.Compare) and len(n.ops) == 1 and isinstance(n.ops[0], (ast.In, ast.NotIn)) and isinstance(n.comparators[0], ast.Name) \
                and n.comparators[0].id in stored:
            out.append(n)
        # the same lookup spelled `TABLE.get(K)` (then tested against None)
        if isinstance(n, ast.Call) and isinstance(n.func, ast.Attribute) and n.func.attr in ("get", "setdefault") and isinstance(n.func.value, ast.Name) \
                and n.func.value.id in stored and n.args:
            n.left = n.args[0]  # the key expression, where the membership form has its left operand
            out.append(n)
    return out


def _flag_set_under(f: FuncInfo, flag: str, pred) -> bool:
    """`flag = True` occurs under an if-test satisfying pred."""
    for n in own_nodes(f.node):
        if isinstance(n, (ast.Assign, ast.AnnAssign)) and getattr(n, "value", None) is not None and isinstance(n.value, ast.Constant) and n.value.value is True:
            tg = n.targets if isinstance(n, ast.Assign) else [n.target]
            if any(isinstance(t, ast.Name) and t.id == flag for t in tg):
                p = getattr(n, "_parent", None)
                while p is not None and p is not f.node:
                    if isinstance(p, ast.If) and pred(p.test):
                        return True
                    p = getattr(p, "_parent", None)
    return False


def rule_r3(ctx):
    from ..canon import Canon

    repo = ctx.repo
    f = repo.func(f"{CSE}:CommonSubexpressionEliminationPass._eliminate_common_subexpression")
    cn = Canon(ctx.typer, f).cn
    keys = _table_lookups(f)
    ctx.require(len(keys) == 1, f"CSE: key membership test not found ({len(keys)} candidates)")
    deps = _depends(f, keys[0].left, cn)
    ctx.tables["cse_key_depends_on"] = sorted(deps)
    facets = {
        "operator identifier (domain, op_type, overload)": ("<Node>.op_identifier()",),
        "number of outputs": ("<Node>.outputs",),
        "inputs": ("<Node>.inputs",),
        "attributes": ("<Node>.attributes.items()", "<Node>.attributes"),
    }
    for name, texts in facets.items():
        ok = any(t in deps for t in texts)
        ctx.check("R3", f"CSE key depends on {name}", ok, f, keys[0],
                  f"two nodes that differ in their {name} get the same key and are merged", how="data dependence through the key's locals",
                  construct=f"CSE key lacks {name}")
    # positional facets are position-preserving: a comprehension over node.inputs that feeds the key contributes one
    # element per slot (no filter), so an omitted optional input (None) keeps its place
    filt = []

    def key_exprs(e, depth=0, seen=None):
        seen = seen if seen is not None else set()
        yield e
        for x in ast.walk(e):
            if isinstance(x, ast.Name) and x.id not in seen and depth < 3:
                seen.add(x.id)
                for n in own_nodes(f.node):
                    if isinstance(n, (ast.Assign, ast.AnnAssign)) and getattr(n, "value", None) is not None and any(
                            isinstance(t, ast.Name) and t.id == x.id for t in (n.targets if isinstance(n, ast.Assign) else [n.target])):
                        yield from key_exprs(n.value, depth + 1, seen)

    for e in key_exprs(keys[0].left):
        for c in ast.walk(e):
            if isinstance(c, (ast.GeneratorExp, ast.ListComp, ast.SetComp)):
                for g_ in c.generators:
                    if isinstance(g_.iter, ast.Attribute) and g_.iter.attr in ("inputs", "outputs") and g_.ifs:
                        filt.append(c)
    ctx.check("R3", "CSE key keeps one entry per input slot", not filt, f, filt[0] if filt else keys[0],
              f"`{norm(filt[0]) if filt else ''}` filters the node's inputs before they enter the key: the position of an input is lost, "
              "so Op(x, <none>, c) and Op(x, c) get the same key and are merged although they compute different things",
              how="comprehensions over node.inputs in the key's definition have no filter clause", construct="filtered inputs in the CSE key")
    # attribute values enter the key (not only the names)
    ok = any(d.endswith(".value") and (d.startswith("<Attr>") or d.startswith("$")) for d in deps) and "sorted()" in deps
    ctx.check("R3", "CSE key includes attribute values, order-normalised", ok, f, keys[0],
              "attribute values (or a deterministic order of them) are missing from the key", how="<attr>.value flows into sorted(attributes.items())")
    # skips: `if <flag>: continue` with the flag raised under a test naming AttributeType.GRAPH and GRAPHS, and
    # `if _is_non_deterministic_op(node): continue`, both before the key lookup
    def names_graph_kinds(t):
        ds = {(dotted_of(x) or "") for x in ast.walk(t) if isinstance(x, ast.Attribute)}
        return any(d.endswith("AttributeType.GRAPH") for d in ds) and any(d.endswith("AttributeType.GRAPHS") for d in ds)

    conts = [n for n in own_nodes(f.node) if isinstance(n, ast.If) and any(isinstance(s_, ast.Continue) for s_ in n.body)]

    def skip_from_helper(t) -> bool:
        """`if <x> is not None: continue` / `if <x>: continue` where x is what a helper returns at some position, and the helper
        returns something other than None / False there under a test naming both graph kinds."""
        names = [y.id for y in ast.walk(t) if isinstance(y, ast.Name)]
        for nm in names:
            for n in own_nodes(f.node):
                if not (isinstance(n, ast.Assign) and isinstance(n.value, ast.Call)):
                    continue
                pos = None
                for tg in n.targets:
                    if isinstance(tg, ast.Name) and tg.id == nm:
                        pos = -1
                    elif isinstance(tg, ast.Tuple):
                        for i_, y in enumerate(tg.elts):
                            if isinstance(y, ast.Name) and y.id == nm:
                                pos = i_
                g_ = _helper_of(f, n.value) if pos is not None else None
                if g_ is None:
                    continue
                for e, r in _helper_returns(g_, pos):
                    if isinstance(e, ast.Constant) and e.value in (None, False):
                        continue
                    p_ = getattr(r, "_parent", None)
                    while p_ is not None and p_ is not g_.node:
                        if isinstance(p_, ast.If) and names_graph_kinds(p_.test):
                            return True
                        p_ = getattr(p_, "_parent", None)
        return False

    cont = [n for n in conts if (isinstance(n.test, ast.Name) and _flag_set_under(f, n.test.id, names_graph_kinds)) or skip_from_helper(n.test)]
    nd = [n for n in conts if any(isinstance(x, ast.Call) and (dotted_of(x.func) or "") == "_is_non_deterministic_op" for x in ast.walk(n.test))]
    cfg = CFG(f.node)
    kn = cfg.nodes_containing(keys[0])[0]
    ok = len(cont) == 1 and len(nd) == 1 and all(
        cfg.dominates([x for x in cfg.node_of(g) if x.kind == "test"][0], kn) for g in cont + nd)
    ctx.check("R3", "CSE skips nodes with subgraphs and non-deterministic ops before computing the key", ok, f, f.node,
              "control-flow or random nodes can be merged", how="both `continue` guards dominate the key lookup")
    g = repo.func(f"{CSE}:_is_non_deterministic_op")
    names = {x.value for x in ast.walk(g.node) if isinstance(x, ast.Constant) and isinstance(x.value, str)}
    # … or in the module-level table the function looks the operator up in
    for x in ast.walk(g.node):
        if isinstance(x, ast.Name) and x.id in g.module.assigns:
            names |= {y.value for y in ast.walk(g.module.assigns[x.id]) if isinstance(y, ast.Constant) and isinstance(y.value, str)}
    want = {"RandomUniform", "RandomNormal", "RandomUniformLike", "RandomNormalLike", "Multinomial"}
    ctx.check("R3", "non-deterministic op table covers the ONNX random operators", want <= names, g, g.node,
              f"missing {sorted(want - names)}", how="5-entry operator table", construct=f"nondeterministic ops missing {sorted(want - names)}")
    # initializer deduplication keys
    for cls in ("DeduplicateInitializersPass", "DeduplicateHashedInitializersPass"):
        c = repo.func(f"onnx_ir.passes.common.initializer_deduplication:{cls}.call")
        cn = Canon(ctx.typer, c).cn
        ks = _table_lookups(c)
        ctx.require(len(ks) >= 1, f"{cls}: key membership test not found")
        d = set()
        for k in ks:
            d |= _depends(c, k.left, cn)
        has = lambda suffix: any(x.endswith(suffix) for x in d)  # noqa: E731
        content = has("_tobytes()") or has(".tobytes()") or (has(".hexdigest()") and has(".numpy()"))
        ok = has(".dtype") and has(".shape") and content
        ctx.check("R3", f"{cls}: key depends on dtype, shape and content", ok, c, ks[0],
                  "initializers that differ in dtype, shape or content can be merged", how="data dependence of the key tuple",
                  construct=f"{cls} key deps {sorted(x for x in d if any(w in x for w in ('dtype', 'shape', 'tobytes', 'hexdigest', 'numpy')))}")
        if "Hashed" in cls:
            confirm = any(isinstance(n, ast.If) and any(isinstance(x, ast.Compare) and isinstance(x.ops[0], ast.NotEq) and "tobytes" in norm(x) for x in ast.walk(n.test))
                          and any(isinstance(s_, ast.Continue) for s_ in n.body) for n in own_nodes(c.node))
            ctx.check("R3", f"{cls}: a hash match is confirmed by comparing the bytes", confirm, c, c.node,
                      "a hash collision merges different initializers", how="`if bytes differ: continue` before the rewrite")
        skip = [x for x in calls_in(c) if dotted_of(x.func) == "_should_skip_initializer"]
        ctx.check("R3", f"{cls}: graph inputs/outputs are not deduplicated", bool(skip), c, c.node,
                  "an initializer that is a graph input/output can be replaced", how="_should_skip_initializer guard", nontrivial=False)


def rule_r4(ctx):
    repo = ctx.repo
    f = repo.func("onnx_ir.passes.common.identity_elimination:IdentityEliminationPass._try_eliminate_identity_node")
    cfg = CFG(f.node)
    guard = [n for n in own_nodes(f.node) if isinstance(n, ast.If) and any(isinstance(s, ast.Return) and norm(s.value) == "False" for s in n.body)
             and "is_graph_input()" in norm(n.test) and "is_initializer()" in norm(n.test)]
    ok = len(guard) == 1
    if ok:
        t = norm(guard[0].test)
        # the output-side condition may be a local bound to output_value.is_graph_output()
        outs = [n for n in own_nodes(f.node) if isinstance(n, ast.Assign) and norm(n.value).endswith(".is_graph_output()")]
        out_ok = ".is_graph_output()" in t or (outs and norm(outs[0].targets[0]) in t)
        if not out_ok:
            # the output-side condition may be the test of an if that encloses the guard
            par = getattr(guard[0], "_parent", None)
            while par is not None and par is not f.node:
                if isinstance(par, ast.If) and guard[0] in ast.walk(ast.Module(body=par.body, type_ignores=[])):
                    tt = norm(par.test)
                    out_ok = out_ok or ".is_graph_output()" in tt or bool(outs and norm(outs[0].targets[0]) in tt)
                par = getattr(par, "_parent", None)
        out_var = norm(outs[0].value).split(".")[0] if outs else ""
        in_var = t.split(".is_graph_input()")[0].split("(")[-1].split(" ")[-1]
        defs = {norm(n.targets[0]): norm(n.value) for n in own_nodes(f.node) if isinstance(n, ast.Assign) and isinstance(n.targets[0], ast.Name)}
        ok = bool(out_ok) and defs.get(in_var) == "node.inputs[0]" and defs.get(out_var, "") == "node.outputs[0]"
        top = guard[0]
        par = getattr(top, "_parent", None)
        while isinstance(par, ast.If):
            top, par = par, getattr(par, "_parent", None)
        gn = [x for x in cfg.node_of(top) if x.kind == "test"][0]
        rewrites = [c for c in calls_in(f) if (dotted_of(c.func) or "").endswith("replace_all_uses_with") or (isinstance(c.func, ast.Attribute) and c.func.attr == "remove")]
        ok = ok and len(rewrites) >= 2 and all(cfg.dominates(gn, cfg.nodes_containing(c)[0]) for c in rewrites)
    # … and one whose input is defined in another graph than the one that lists its output: a graph output has to be defined in its
    # own graph, and folding the Identity renames a value of the enclosing graph
    in_name = None
    for a_ in own_nodes(f.node):
        if isinstance(a_, ast.Assign) and isinstance(a_.targets[0], ast.Name) and norm(a_.value) == "node.inputs[0]":
            in_name = a_.targets[0].id
    exits = [g_ for g_ in own_nodes(f.node) if isinstance(g_, ast.If) and any(isinstance(s_, ast.Return) and norm(s_.value) == "False" for s_ in g_.body)]
    scoped = in_name is not None and any(
        isinstance(c_, ast.Compare) and len(c_.ops) == 1 and isinstance(c_.ops[0], (ast.IsNot, ast.Is, ast.NotEq, ast.Eq)) and f"{in_name}.graph" in (norm(c_.left), norm(c_.comparators[0]))
        for g_ in exits for c_ in ast.walk(g_.test))
    ctx.check("R4", "identity elimination keeps an Identity from a value of an enclosing graph to a graph output", scoped, f, f.node,
              "no exit of the elimination compares the graph of the Identity's input with the node's own graph: inside an If branch, `y = Identity(a)` with `a` produced in "
              "the enclosing graph and `y` the branch output is folded - the branch then lists a value it does not define as its output (the checker rejects the model) "
              "and the enclosing graph's value is renamed",
              how="a `return False` exit of _try_eliminate_identity_node tests `<input>.graph` against the node's graph",
              construct="Identity from an outer-scope value to a graph output is eliminated")
    ctx.check("R4", "identity elimination keeps an Identity from a graph input/initializer to a graph output", bool(ok), f, f.node,
              "an Identity whose input is a graph input (or initializer) and whose output is a graph output can be removed: "
              "the graph output would alias an input, changing the model's interface",
              how="the early `return False` on (output is graph output and input is graph input/initializer) dominates the rewrite")
    n = 0
    for g, node, ok, detail, label in s1_sites(repo, None):
        if not g.module.name.startswith("onnx_ir.passes"):
            continue
        n += 1
        ctx.check("R4", f"S1 {g.local}: {label}"[:150], ok, g, node, detail, how="GRAPH/GRAPHS sibling agreement", construct=f"S1 {label}")
    ctx.require(n >= 4, "GRAPH/GRAPHS dispatch sites in passes not found")


_MUT = {"add", "update", "append", "extend", "insert", "pop", "remove", "clear", "discard", "setdefault", "popitem", "sort", "reverse"}


def _self_field(e, selfname):
    return e.attr if isinstance(e, ast.Attribute) and isinstance(e.value, ast.Name) and e.value.id == selfname else None


def _field_writes_of(f: FuncInfo) -> set[str]:
    """self.<F> fields stored or mutated in place in f."""
    me = f.params[0] if f.params else "self"
    out = set()
    for n in own_nodes(f.node):
        if isinstance(n, (ast.Assign, ast.AugAssign, ast.AnnAssign, ast.Delete)):
            tg = n.targets if isinstance(n, (ast.Assign, ast.Delete)) else [n.target]
            for t in tg:
                b = t
                while isinstance(b, ast.Subscript):
                    b = b.value
                if _self_field(b, me) and (isinstance(n, ast.Delete) or not isinstance(n, ast.AnnAssign) or n.value is not None):
                    out.add(b.attr)
        elif isinstance(n, ast.Call) and isinstance(n.func, ast.Attribute) and n.func.attr in _MUT and _self_field(n.func.value, me):
            out.add(n.func.value.attr)
    return out


class _RunState:
    """Syntax-directed summary per method: fields reset at top level, and run-state fields used before being reset."""

    def __init__(self, ctx, cls, fields):
        self.ctx, self.cls, self.fields = ctx, cls, fields
        self.memo: dict[str, tuple] = {}

    def method(self, name):
        m = self.ctx.repo.lookup(self.cls, name)
        return m if isinstance(m, FuncInfo) and m.cls is not None and not m.cls.external else None

    def summary(self, m: FuncInfo, stack=()):
        if m.key in self.memo:
            return self.memo[m.key]
        if m.key in stack:
            return (set(), [])
        me = m.params[0] if m.params else "self"
        reset: set[str] = set()
        exposed: list[tuple] = []  # (field, node, via)

        def uses_in(node, skip_target=None):
            for x in ast.walk(node):
                if x is skip_target:
                    continue
                fld = _self_field(x, me)
                if fld in self.fields and fld not in reset:
                    exposed.append((fld, x, m.local))
                if isinstance(x, ast.Call) and isinstance(x.func, ast.Attribute) and isinstance(x.func.value, ast.Name) and x.func.value.id == me:
                    g = self.method(x.func.attr)
                    if g is not None:
                        _, ex = self.summary(g, stack + (m.key,))
                        for fld2, n2, via in ex:
                            if fld2 not in reset:
                                exposed.append((fld2, x, f"{m.local} → {via}"))

        for st in m.node.body:
            # a top-level `self.F = <expr without self.F>` (or a top-level call of a resetting helper) resets F for the run
            if isinstance(st, (ast.Assign, ast.AnnAssign)) and getattr(st, "value", None) is not None:
                tg = st.targets if isinstance(st, ast.Assign) else [st.target]
                flds = [_self_field(t, me) for t in tg]
                if all(flds) and len(flds) == 1:
                    uses_in(st.value)
                    if not any(_self_field(x, me) == flds[0] for x in ast.walk(st.value)):
                        reset.add(flds[0])
                    continue
            if isinstance(st, ast.Expr) and isinstance(st.value, ast.Call) and isinstance(st.value.func, ast.Attribute) \
                    and isinstance(st.value.func.value, ast.Name) and st.value.func.value.id == me:
                g = self.method(st.value.func.attr)
                if g is not None:
                    uses_in(st)
                    r, _ = self.summary(g, stack + (m.key,))
                    reset |= r
                    continue
            uses_in(st)
        self.memo[m.key] = (reset, exposed)
        return self.memo[m.key]


def rule_r5(ctx, rule="R5"):
    repo = ctx.repo
    base = repo.cls("onnx_ir.passes._pass_infra:PassBase")
    n_cls = n_fields = 0
    table = {}
    for m in repo.modules.values():
        if not m.name.startswith("onnx_ir.passes"):
            continue
        for c in m.classes.values():
            if c is base or not repo.is_subclass(c, base):
                continue
            n_cls += 1
            run_state = set()
            for k in repo.mro(c):
                if getattr(k, "external", True) or k is base:
                    continue
                for name, f in k.methods.items():
                    if name not in ("__init__", "__new__"):
                        run_state |= _field_writes_of(f)
            table[c.key] = sorted(run_state)
            rs = _RunState(ctx, c, run_state)
            for entry in ("requires", "call"):
                e = rs.method(entry)
                if e is None or e.cls is base:
                    continue
                _, exposed = rs.summary(e)
                seen = set()
                for fld in sorted(run_state):
                    n_fields += 1
                    ex = [x for x in exposed if x[0] == fld]
                    ctx.check(rule, f"{c.name}.{entry}: per-run field {fld} is reset before use", not ex, e, ex[0][1] if ex else e.node,
                              (f"`self.{fld}` is written while the pass runs but {c.name}.{entry} uses it ({ex[0][2]}: `{norm(ex[0][1])}`) before "
                               "re-initialising it unconditionally: what an earlier run of the same pass object left there decides what "
                               "this run does to the model") if ex else "",
                              how="fields written outside __init__ = per-run state; syntax-directed walk: top-level stores/resetting helpers vs first uses (through self-helpers)",
                              construct=f"{c.name}.{entry} uses {fld} before reset")
                if not run_state:
                    ctx.ob(rule, f"{c.name}.{entry}: no per-run state on the pass object", True, nontrivial=False, how="no self field written outside __init__")
    ctx.tables["per-run state fields of pass classes"] = {k: v for k, v in sorted(table.items()) if v}
    ctx.require(n_cls >= 15, f"only {n_cls} pass classes found")
    ctx.require(n_fields >= 8, f"only {n_fields} per-run fields examined (RemoveUnusedFunctionsPass._used / InlinePass state expected)")


def rule_r6(ctx):
    f = ctx.repo.func("onnx_ir._cloner:Cloner.clone_attr")
    key_param = f.params[1]
    subs = [a for a in own_nodes(f.node) if isinstance(a, ast.Assign) and isinstance(a.targets[0], ast.Name) and isinstance(a.value, ast.Subscript)
            and isinstance(a.value.value, ast.Attribute) and a.value.value.attr == "_attr_map"]
    ctx.require(len(subs) == 1, "clone_attr: lookup in the substitution map not found")
    r = subs[0].targets[0].id
    blk = getattr(subs[0], "_parent", None)
    # the substitution branch: what follows the lookup in its block (the lookup may sit under `if name in map:` or after the
    # guard clause `if name not in map: return None`)
    stmts = next((b for b in (getattr(blk, fld, None) for fld in ("body", "orelse", "finalbody")) if isinstance(b, list) and subs[0] in b), [])
    after = stmts[stmts.index(subs[0]) + 1 :] if subs[0] in stmts else []
    ctors = [c for st in after for c in ast.walk(st) if isinstance(c, ast.Call)
             and (dotted_of(c.func) or "").split(".")[-1] in ("Attr", "RefAttr")]
    ctx.require(len(ctors) >= 2, "clone_attr: attribute constructions in the substitution branch not found")
    for c in ctors:
        bad = None
        for a in list(c.args) + [k.value for k in c.keywords]:
            if isinstance(a, ast.Constant) or (isinstance(a, ast.Name) and a.id == key_param):
                continue
            if not any(isinstance(x, ast.Name) and x.id == r for x in ast.walk(a)):
                bad = a
        ctx.check("R6", f"clone_attr: {norm(c)[:70]} is built from the substituted attribute only", bad is None, f, c,
                  f"`{norm(bad) if bad is not None else ''}` does not come from the looked-up attribute `{r}`: the new attribute mixes the callee's own "
                  "reference with the caller's type/doc, so after inlining into a kept function the node refers to an attribute parameter that "
                  "function does not have",
                  how="arguments of the Attr/RefAttr constructions in the substitution branch mention the looked-up attribute (or are the key / constants)",
                  construct=f"substitution mixes in {norm(bad) if bad is not None else ''}")


def _is_membership(t, key: str, recv: str, f) -> bool:
    """`key in recv.attributes`, `recv.attributes.get(key) is not None`, or a local bound to that .get() `is not None`."""
    if isinstance(t, ast.Compare) and len(t.ops) == 1:
        if isinstance(t.ops[0], ast.In) and norm(t.left) == key and norm(t.comparators[0]) == f"{recv}.attributes":
            return True
        if isinstance(t.ops[0], ast.IsNot) and isinstance(t.comparators[0], ast.Constant) and t.comparators[0].value is None:
            e = t.left
            if isinstance(e, ast.Name):
                defs = [a.value for a in own_nodes(f.node) if isinstance(a, ast.Assign) and any(isinstance(x, ast.Name) and x.id == e.id for x in a.targets)]
                e = defs[0] if len(defs) == 1 else e
            return norm(e) == f"{recv}.attributes.get({key})"
    return False


def rule_r7(ctx):
    n = 0
    for m in ctx.repo.modules.values():
        if not m.name.startswith("onnx_ir.passes") or m.name.endswith("_test"):
            continue
        for f in m.all_funcs:
            if isinstance(f.node, ast.Lambda):
                continue
            for st in own_nodes(f.node):
                if not isinstance(st, ast.Assign):
                    continue
                for t in st.targets:
                    if not (isinstance(t, ast.Subscript) and isinstance(t.value, ast.Attribute) and t.value.attr == "attributes"):
                        continue
                    recv, key = norm(t.value.value), norm(t.slice)
                    if isinstance(t.value.value, ast.Name) and t.value.value.id in _fresh_nodes(f):
                        continue  # a node the pass has just built
                    n += 1
                    # skips earlier in the same block (and in enclosing blocks)
                    ok = False
                    blk, cur = getattr(st, "_parent", None), st
                    while blk is not None and not ok:
                        for fld in ("body", "orelse"):
                            body = getattr(blk, fld, None)
                            if isinstance(body, list) and cur in body:
                                for prev in body[: body.index(cur)]:
                                    if isinstance(prev, ast.If) and prev.body and isinstance(prev.body[-1], (ast.Continue, ast.Return)):
                                        ops = prev.test.values if isinstance(prev.test, ast.BoolOp) and isinstance(prev.test.op, ast.Or) else [prev.test]
                                        ok = ok or any(_is_membership(o, key, recv, f) for o in ops)
                        if isinstance(blk, ast.If) and cur in blk.body:
                            ops = blk.test.values if isinstance(blk.test, ast.BoolOp) and isinstance(blk.test.op, ast.And) else [blk.test]
                            ok = ok or any(isinstance(o, ast.Compare) and len(o.ops) == 1 and isinstance(o.ops[0], ast.NotIn) and norm(o.left) == key
                                           and norm(o.comparators[0]) == f"{recv}.attributes" for o in ops)
                        if blk is f.node:
                            break
                        cur, blk = blk, getattr(blk, "_parent", None)
                    ctx.check("R7", f"{f.local}: `{norm(t)} = …` only when {recv} has no attribute {key}", ok, f, st,
                              f"`{norm(st)[:80]}` is not preceded by a skip that fires whenever `{key} in {recv}.attributes`: an attribute the node already has - "
                              "for instance a reference attribute, whose value is None - is overwritten, so a function body stops forwarding its attribute "
                              "parameter and computes with the schema default instead",
                              how="skips (`if …: continue/return`) before the store in the enclosing blocks: an operand that is a pure key-membership test",
                              construct=f"attribute store without key-absence guard in {f.local}")
    ctx.require(n >= 1, "no attribute store into an existing node found in the pass modules")


def _fresh_nodes(f) -> set:
    out = set()
    for a in own_nodes(f.node):
        if isinstance(a, ast.Assign) and isinstance(a.value, ast.Call) and (dotted_of(a.value.func) or "").split(".")[-1] in ("Node", "node"):
            out |= {x.id for x in a.targets if isinstance(x, ast.Name)}
    return out


def rule_r8(ctx):
    n = 0
    for m in sorted(ctx.repo.modules.values(), key=lambda x: x.name):
        if not m.name.startswith("onnx_ir.passes.common.") or m.name.endswith("_test"):
            continue
        n += 1
        sites = []
        for f in m.all_funcs:
            if isinstance(f.node, ast.Lambda):
                continue
            fresh = _fresh_nodes(f)
            for x in own_nodes(f.node):
                tgt = None
                if isinstance(x, ast.Call) and isinstance(x.func, ast.Attribute) and x.func.attr in ("pop", "clear", "popitem") \
                        and isinstance(x.func.value, ast.Attribute) and x.func.value.attr == "attributes":
                    tgt = x.func.value.value
                elif isinstance(x, ast.Delete):
                    for t in x.targets:
                        if isinstance(t, ast.Subscript) and isinstance(t.value, ast.Attribute) and t.value.attr == "attributes":
                            tgt = t.value.value
                if tgt is not None and not (isinstance(tgt, ast.Name) and tgt.id in fresh):
                    sites.append((f, x))
        if not sites:
            ctx.ob("R8", f"{m.name.rsplit('.', 1)[1]}: no attribute of an existing node is deleted", True, how="pop/del/clear on <node>.attributes")
        for f, x in sites:
            ctx.check("R8", f"{f.local}: `{short(norm(x))}` keeps the node's attributes", False, f, x,
                      f"`{norm(x)[:80]}` deletes an attribute of a node that stays in the graph: the node then computes with the operator's default for it "
                      "(BatchNormalization without training_mode=1 normalises Y with the running mean/variance inputs instead of the batch statistics)",
                      how="attribute deletions in the pass modules", construct=f"attribute deleted: {short(norm(x))}")
    ctx.require(n >= 10, f"only {n} pass modules scanned")


_EXACT_FLOAT = re.compile(r"struct\.pack|\.hex\(|\.tobytes\(|float\.hex|\.view\(")


def rule_r9(ctx):
    f = next((g for g in ctx.repo.modules[CSE].all_funcs if not isinstance(g.node, ast.Lambda) and any(
        isinstance(x, ast.Attribute) and x.attr in ("FLOATS", "FLOAT") for x in ast.walk(g.node))), None)
    ctx.require(f is not None, "the attribute loop of the CSE pass (AttributeType.FLOAT/FLOATS) not found")
    # statements executed for FLOAT / FLOATS attributes: bodies of the ifs whose test names those members
    exact = {"FLOAT": False, "FLOATS": False}
    for i in (x for x in own_nodes(f.node) if isinstance(x, ast.If)):
        names = {a.attr for a in ast.walk(i.test) if isinstance(a, ast.Attribute)}
        for mem in exact:
            if mem in names and any(_EXACT_FLOAT.search(norm(st)) for st in i.body):
                # the conversion must apply to this member alone or to float kinds only
                if names & {"INTS", "STRINGS", "INT", "STRING"} and not all(_EXACT_FLOAT.search(norm(st)) for st in i.body if isinstance(st, ast.Assign)):
                    continue
                exact[mem] = True
    for mem, ok in exact.items():
        ctx.check("R9", f"CSE key: {mem} attributes enter the key through their bit pattern", ok, f, f.node,
                  f"a {mem} attribute value enters the common-subexpression key as a Python float{' tuple' if mem == 'FLOATS' else ''}: 0.0 and -0.0 compare "
                  "and hash equal, so `Constant<value_float=0.0>` and `Constant<value_float=-0.0>` are merged although x/0.0 = inf and x/-0.0 = -inf",
                  how="branch of the attribute loop that handles the member converts with struct.pack / float.hex / tobytes",
                  construct=f"CSE key compares {mem} by ==")


def rule_r10(ctx):
    n = 0
    for f in _pass_funcs(ctx):
        if isinstance(f.node, ast.Lambda) or f.parent is not None:
            continue
        scope = [f.node] + [g.node for g in _all_nested(f)]
        # feeding expressions of every name set: arguments of S.add / S.update and what S is bound to
        feeds: dict[str, list] = {}
        for fn in scope:
            for x in own_nodes(fn):
                if isinstance(x, ast.Call) and isinstance(x.func, ast.Attribute) and x.func.attr in ("add", "update") and x.args:
                    feeds.setdefault(norm(x.func.value), []).append((x.args[0], x))
                elif isinstance(x, (ast.Assign, ast.AnnAssign)) and getattr(x, "value", None) is not None and (
                        isinstance(x.value, (ast.Set, ast.SetComp, ast.Dict, ast.DictComp)) or (
                            isinstance(x.value, ast.Call) and dotted_of(x.value.func) in ("set", "frozenset", "dict"))):
                    for t in (x.targets if isinstance(x, ast.Assign) else [x.target]):
                        if isinstance(t, (ast.Name, ast.Attribute)):
                            feeds.setdefault(norm(t), []).append((x.value, x))
        # collections consulted together by one uniqueness test (`while n in A or n in B or n in g.initializers`) form one
        # registry: what one of them lacks another may hold
        for fn in scope:
            for x in own_nodes(fn):
                if isinstance(x, (ast.While, ast.If)) and isinstance(x.test, ast.BoolOp) and isinstance(x.test.op, ast.Or):
                    members = [c.comparators[0] for c in x.test.values if isinstance(c, ast.Compare) and len(c.ops) == 1 and isinstance(c.ops[0], ast.In)]
                    names_ = [norm(m_) for m_ in members]
                    if len(members) >= 2 and any(k in feeds for k in names_):
                        merged = []
                        for k, m_ in zip(names_, members):
                            merged += feeds.pop(k, [])
                            merged.append((m_, x))  # the collection itself, e.g. `model.graph.initializers`
                        feeds[" | ".join(names_)] = merged
        for sname, lst in sorted(feeds.items()):
            def mentions(e, site, attr, name_needed=True):
                # `<x>.name` of an element of `<…>.<attr>` - in a comprehension over it, or in a loop over it around the site
                txt = norm(e)
                if f".{attr}" in txt and (".name" in txt or not name_needed):
                    return True
                # values taken from a helper of the module that enumerates them (`for v in _iter_boundary_values(graph)`)
                for c in ast.walk(e):
                    if isinstance(c, ast.Call) and isinstance(c.func, ast.Name) and c.func.id in f.module.functions:
                        g = f.module.functions[c.func.id]
                        if any(isinstance(x, ast.Attribute) and x.attr == attr for x in ast.walk(g.node)) and (".name" in txt or not name_needed):
                            return True
                if name_needed and ".name" not in txt:
                    return False
                p = getattr(site, "_parent", None)
                while p is not None:
                    if isinstance(p, (ast.For, ast.AsyncFor)) and f".{attr}" in norm(p.iter):
                        return True
                    p = getattr(p, "_parent", None)
                return False

            out_sites = [site for e, site in lst if mentions(e, site, "outputs") and _over_nodes(e, site)]
            if not out_sites:
                continue
            n += 1
            has_in = any(mentions(e, site, "inputs") for e, site in lst)
            has_init = any(mentions(e, site, "initializers", name_needed=False) for e, site in lst)
            missing = [w for w, ok in (("inputs", has_in), ("initializers", has_init)) if not ok]
            ctx.check("R10", f"{f.local}: `{sname}` collects node outputs, graph inputs and initializers together", not missing, f, out_sites[0],
                      f"{f.local} registers the names of the node outputs of the graph it works on in `{sname}` but not the names of that graph's "
                      f"{' and '.join(missing)}: where this function is applied to a nested subgraph (If/Loop body), a name it generates or keeps "
                      "for an inlined/renamed value can equal the name of the subgraph's own input or initializer - two values under one "
                      "name in the same scope",
                      how="feeding expressions of the name set in the function and its nested callbacks mention .outputs, .inputs and .initializers",
                      construct=f"{sname} lacks {'/'.join(missing)}")
    ctx.require(n >= 3, f"only {n} used-name registries fed with node output names found in the passes")


def _all_nested(f):
    for g in f.nested.values():
        yield g
        yield from _all_nested(g)


def _over_nodes(e, site) -> bool:
    """The `.outputs` whose names are registered are those of nodes (a loop / comprehension variable), not the graph's outputs."""
    for x in ast.walk(e):
        if isinstance(x, ast.Attribute) and x.attr == "outputs" and isinstance(x.value, ast.Name):
            nm = x.value.id
            for c in ast.walk(e):
                if isinstance(c, ast.comprehension) and any(isinstance(t, ast.Name) and t.id == nm for t in ast.walk(c.target)):
                    return True
            p = getattr(site, "_parent", None)
            while p is not None:
                if isinstance(p, (ast.For, ast.AsyncFor)) and any(isinstance(t, ast.Name) and t.id == nm for t in ast.walk(p.target)):
                    return True
                p = getattr(p, "_parent", None)
    p = getattr(site, "_parent", None)
    while p is not None:
        if isinstance(p, (ast.For, ast.AsyncFor)) and ".outputs" in norm(p.iter) and isinstance(p.iter, ast.Attribute) and isinstance(p.iter.value, ast.Name):
            nm = p.iter.value.id
            q = getattr(p, "_parent", None)
            while q is not None:
                if isinstance(q, (ast.For, ast.AsyncFor)) and any(isinstance(t, ast.Name) and t.id == nm for t in ast.walk(q.target)):
                    return True
                q = getattr(q, "_parent", None)
        p = getattr(p, "_parent", None)
    return False


def rule_r11(ctx):
    n = 0
    for f in _pass_funcs(ctx) + [g for g in ctx.repo.module("onnx_ir._convenience").all_funcs]:
        if isinstance(f.node, ast.Lambda):
            continue
        for a in (x for x in own_nodes(f.node) if isinstance(x, ast.Assign) and len(x.targets) == 1 and isinstance(x.targets[0], ast.Attribute) and x.targets[0].attr == "name"):
            v = a.value
            src, test = None, None
            if isinstance(v, ast.IfExp) and isinstance(v.body, ast.Attribute) and v.body.attr == "name":
                src, test = v.body, v.test
            elif isinstance(v, ast.Attribute) and v.attr == "name":
                par = getattr(a, "_parent", None)
                if isinstance(par, ast.If) and a in par.body and norm(v) in norm(par.test):
                    src, test = v, par.test
            if src is None or norm(src) not in norm(test):
                continue
            n += 1
            by_none = any(isinstance(c, ast.Compare) and norm(c.left) == norm(src) and any(isinstance(o, (ast.Is, ast.IsNot)) for o in c.ops)
                          and isinstance(c.comparators[0], ast.Constant) and c.comparators[0].value is None for c in ast.walk(test))
            ctx.check("R11", f"{f.local}: `{norm(a)[:70]}` carries a name over only if it is non-empty", not by_none, f, a,
                      f"`{norm(a)}` takes `{norm(src)}` whenever it is not None: the empty name - an omitted optional output - is carried over too and "
                      "blanks a value that consumers inside the rewritten region still read (the checker rejects the model, the result changes)",
                      how="presence test of the source name in a conditional name transfer is its truthiness",
                      construct=f"empty name carried over by {f.local}")
    ctx.require(n >= 1, "no conditional name transfer found in the passes / rewriting helpers")


def rule_r12(ctx):
    n = 0
    for f in _pass_funcs(ctx):
        if isinstance(f.node, ast.Lambda):
            continue
        for c in calls_in(f):
            if not (isinstance(c.func, ast.Attribute) and c.func.attr in ("resize_inputs", "resize_outputs") and c.args):
                continue
            n += 1
            # defining expressions of the new size, through locals
            exprs, names, seen = [c.args[0]], set(), set()
            for _ in range(4):
                for e in list(exprs):
                    for x in ast.walk(e):
                        if isinstance(x, ast.Name) and x.id not in seen:
                            seen.add(x.id)
                            names.add(x.id)
                            for a in own_nodes(f.node):
                                if isinstance(a, (ast.Assign, ast.AugAssign)) and any(
                                        isinstance(t, ast.Name) and t.id == x.id for t in (a.targets if isinstance(a, ast.Assign) else [a.target])):
                                    exprs.append(a.value)
            bad = None
            for e in exprs:
                for x in ast.walk(e):
                    if isinstance(x, ast.Call) and dotted_of(x.func) in ("sum", "len") and x.args and isinstance(x.args[0], (ast.GeneratorExp, ast.ListComp, ast.SetComp)) \
                            and any(g.ifs for g in x.args[0].generators):
                        bad = x
                    if isinstance(x, ast.Call) and isinstance(x.func, ast.Attribute) and x.func.attr == "count":
                        bad = x
            # a counter stepped inside a loop that never stops early counts matching elements, wherever they are
            for a in own_nodes(f.node):
                if isinstance(a, ast.AugAssign) and isinstance(a.target, ast.Name) and a.target.id in names:
                    lp = next((p_ for p_ in _anc_nodes(a, f.node) if isinstance(p_, (ast.For, ast.While))), None)
                    if lp is not None and any(isinstance(p_, ast.If) for p_ in _anc_nodes(a, lp)) and not any(isinstance(y, (ast.Break, ast.Return)) for y in ast.walk(lp)):
                        bad = bad or a
            ctx.check("R12", f"{f.local}: the size given to {norm(c)[:50]} is a position", bad is None, f, bad if bad is not None else c,
                      f"`{norm(bad) if bad is not None else ''}` counts the elements that satisfy a condition; as the new size of the node's inputs/outputs it equals the "
                      "position after the last kept element only if all dropped elements are trailing - with an omitted optional input in the middle "
                      "(`LSTM(X, W, R, '', '', h0, c0, '')`) real inputs are cut off and the node computes something else",
                      how="defining expressions of the resize argument: filtered counts and exhaustive counter loops",
                      construct=f"filtered count as new size in {f.local}")
    ctx.require(n >= 2, f"only {n} resize calls found in the passes")


def _anc_nodes(node, stop):
    p_ = getattr(node, "_parent", None)
    while p_ is not None and p_ is not stop:
        yield p_
        p_ = getattr(p_, "_parent", None)


_STRUCTURAL_EDITS = {"append", "extend", "insert_after", "insert_before", "remove", "register_initializer"}


# helpers this rule has to see as calls (E1b leaves functions whose names are mentioned in the rule modules unexpanded): the
# uniqueness functions of the pass modules take the graph whose names they consult as their first argument
_UNIQUENESS_FUNCTIONS_KEPT_AS_CALLS = ("_unique_value_name", "_unique_node_name")


def rule_r13(ctx):
    from .c14 import _has_uniqueness_loop

    n = 0
    for m in ctx.repo.modules.values():
        if not m.name.startswith("onnx_ir.passes.common.") or m.name.endswith("_test"):
            continue
        for f in m.all_funcs:
            if isinstance(f.node, ast.Lambda):
                continue
            for c in calls_in(f):
                d = dotted_of(c.func) or ""
                g = m.functions.get(d)
                if g is None or not _has_uniqueness_loop(g) or not c.args or not isinstance(c.args[0], ast.Name):
                    continue
                # the innermost enclosing loop body (or the function body): the graph-likes edited there
                blk = getattr(c, "_parent", None)
                while blk is not None and blk is not f.node and not isinstance(blk, (ast.For, ast.While)):
                    blk = getattr(blk, "_parent", None)
                scope = blk if blk is not None else f.node
                edited = set()
                for x in ast.walk(scope):
                    if isinstance(x, ast.Call) and isinstance(x.func, ast.Attribute) and x.func.attr in _STRUCTURAL_EDITS and isinstance(x.func.value, ast.Name):
                        edited.add(x.func.value.id)
                    if isinstance(x, ast.Assign):
                        for t in x.targets:
                            if isinstance(t, ast.Subscript) and isinstance(t.value, ast.Attribute) and t.value.attr in ("outputs", "inputs", "initializers") \
                                    and isinstance(t.value.value, ast.Name):
                                edited.add(t.value.value.id)
                if not edited:
                    continue
                n += 1
                ok = c.args[0].id in edited
                ctx.check("R13", f"{f.local}: `{norm(c)[:60]}` looks at the names of the graph that is edited ({'/'.join(sorted(edited))})", ok, f, c,
                          f"`{norm(c)[:70]}` makes the name unique among the values of `{c.args[0].id}`, while the surrounding iteration edits `{'/'.join(sorted(edited))}`: "
                          "for a subgraph the new name is compared with the names of another graph and can equal the name of a value the subgraph already has "
                          "(two values under one name: the checker rejects the model, consumers bind to the wrong value)",
                          how="first argument of a uniqueness function ∈ receivers of the structural edits of the same loop iteration",
                          construct=f"names of {c.args[0].id} consulted while {'/'.join(sorted(edited))} is edited")
    ctx.require(n >= 2, f"only {n} calls of a uniqueness function next to structural edits found in the pass modules")


def _live_input_test(test, me: str, consts: dict) -> bool:
    """The test holds whenever `<me>.is_graph_input()` does: the call sits in a disjunct, and every conjunct next to it is not
    switched off by the constant arguments of this call (`not allow and …` with allow=True is dead)."""
    def const_false(e) -> bool:
        if isinstance(e, ast.Constant):
            return not e.value
        if isinstance(e, ast.Name) and e.id in consts:
            return not consts[e.id]
        if isinstance(e, ast.UnaryOp) and isinstance(e.op, ast.Not):
            o = e.operand
            if isinstance(o, ast.Constant):
                return bool(o.value)
            if isinstance(o, ast.Name) and o.id in consts:
                return bool(consts[o.id])
        return False

    def holds(e) -> bool:
        if isinstance(e, ast.Call) and isinstance(e.func, ast.Attribute) and e.func.attr == "is_graph_input" and norm(e.func.value) == me:
            return True
        if isinstance(e, ast.BoolOp) and isinstance(e.op, ast.Or):
            return any(holds(v) for v in e.values)
        if isinstance(e, ast.BoolOp) and isinstance(e.op, ast.And):
            return any(holds(v) for v in e.values) and not any(const_false(v) for v in e.values) and all(holds(v) or _param_switch_on(v, consts) for v in e.values)
        return False

    return holds(test)


def _param_switch_on(e, consts) -> bool:
    """A conjunct that only reads constants of the call and is true for them."""
    if isinstance(e, ast.Name) and e.id in consts:
        return bool(consts[e.id])
    if isinstance(e, ast.UnaryOp) and isinstance(e.op, ast.Not) and isinstance(e.operand, ast.Name) and e.operand.id in consts:
        return not consts[e.operand.id]
    return False


def rule_r14(ctx):
    n = 0
    for m in ctx.repo.modules.values():
        if not m.name.startswith("onnx_ir.passes.common.") or m.name.endswith("_test"):
            continue
        for f in m.all_funcs:
            if isinstance(f.node, ast.Lambda):
                continue
            for lp in (x for x in own_nodes(f.node) if isinstance(x, ast.For) and isinstance(x.target, ast.Name)
                       and any(isinstance(y, ast.Attribute) and y.attr == "initializers" for y in ast.walk(x.iter))):
                v = lp.target.id
                stores = [a for a in ast.walk(lp) if isinstance(a, ast.Assign) and isinstance(a.targets[0], ast.Subscript) and isinstance(a.value, ast.Name) and a.value.id == v]
                merges = [c for c in ast.walk(lp) if isinstance(c, ast.Call) and isinstance(c.func, ast.Attribute) and c.func.attr == "replace_all_uses_with"]
                if not stores or not merges:
                    continue
                for st in stores:
                    n += 1
                    # tests of `if …: continue` statements that precede the store in its block or an enclosing block of the loop
                    tests = []
                    child, p_ = st, getattr(st, "_parent", None)
                    while p_ is not None:
                        for fld in ("body", "orelse"):
                            b = getattr(p_, fld, None)
                            if isinstance(b, list) and any(child is x for x in b):
                                for x in b[: next(i for i, y in enumerate(b) if y is child)]:
                                    if isinstance(x, ast.If) and any(isinstance(y, (ast.Continue, ast.Raise)) for y in x.body):
                                        tests.append(x.test)
                        if p_ is lp:
                            break
                        child, p_ = p_, getattr(p_, "_parent", None)
                    ok = False
                    for t in tests:
                        if _live_input_test(t, v, {}):
                            ok = True
                        for c in (x for x in ast.walk(t) if isinstance(x, ast.Call)):
                            g = m.functions.get(dotted_of(c.func) or "")
                            if g is None or not c.args or norm(c.args[0]) != v:
                                continue
                            # constants this call hands to the predicate
                            consts = {}
                            for i, a in enumerate(c.args):
                                if isinstance(a, ast.Constant) and i < len(g.params):
                                    consts[g.params[i]] = a.value
                            for k in c.keywords:
                                if isinstance(k.value, ast.Constant) and k.arg:
                                    consts[k.arg] = k.value.value
                            ga = g.node.args
                            for prm, d in list(zip(reversed([x.arg for x in ga.posonlyargs + ga.args]), reversed(ga.defaults))) + \
                                    [(x.arg, d) for x, d in zip(ga.kwonlyargs, ga.kw_defaults) if d is not None]:
                                if prm not in consts and isinstance(d, ast.Constant) and not any(k.arg == prm for k in c.keywords) \
                                        and not (prm in g.params and g.params.index(prm) < len(c.args)):
                                    consts[prm] = d.value
                            for iff in (x for x in own_nodes(g.node) if isinstance(x, ast.If)):
                                if any(isinstance(r, ast.Return) and isinstance(r.value, ast.Constant) and r.value.value is True for r in iff.body) \
                                        and _live_input_test(iff.test, g.params[0], consts):
                                    ok = True
                    ctx.check("R14", f"{f.local}: the initializer recorded by `{norm(st)[:50]}` is not a graph input", ok, f, st,
                              f"`{norm(st)[:60]}` records an initializer as the one that equal initializers are merged into without a (live) test that it is not a graph "
                              "input: an initializer that is also a graph input is a default the caller may override - once a constant is folded into it, feeding the "
                              "input changes what used to be a constant",
                              how="`if …: continue` tests before the table store in the loop over <g>.initializers: `is_graph_input()` directly, or in the skip predicate "
                                  "with the constant arguments of the call substituted",
                              construct=f"graph-input initializer can become the merge survivor in {f.local}")
    ctx.require(n >= 2, f"only {n} merge tables over initializers found in the pass modules")


def _excludes_call(test, recv: str, meth: str, want_positive: bool, neg=False) -> bool:
    """The test mentions `<recv>.<meth>()` with the given polarity (`want_positive`: un-negated), Not flipping the polarity."""
    if isinstance(test, ast.UnaryOp) and isinstance(test.op, ast.Not):
        return _excludes_call(test.operand, recv, meth, want_positive, not neg)
    if isinstance(test, ast.BoolOp):
        return any(_excludes_call(v, recv, meth, want_positive, neg) for v in test.values)
    if isinstance(test, ast.Call) and isinstance(test.func, ast.Attribute) and test.func.attr == meth and norm(test.func.value) == recv and not test.args:
        return (not neg) == want_positive
    return False


def rule_r15(ctx):
    n = 0
    for m in ctx.repo.pkg_modules():
        if not m.name.startswith("onnx_ir.passes.common.") or m.name.endswith("_test"):
            continue
        for f in ctx.repo.live(m.all_funcs):
            if isinstance(f.node, ast.Lambda):
                continue
            for st in own_nodes(f.node):
                if not (isinstance(st, ast.Assign) and len(st.targets) == 1 and isinstance(st.targets[0], ast.Attribute) and st.targets[0].attr == "name"
                        and isinstance(st.value, ast.Attribute) and st.value.attr == "name" and isinstance(st.targets[0].value, ast.Name)):
                    continue
                a = st.targets[0].value.id

                def _defs_of(nm, depth=0):
                    # definitions of a local, through plain aliases (`x = y` left behind by an expanded helper that returns several values)
                    ds = [d.value for d in own_nodes(f.node) if isinstance(d, ast.Assign) and any(isinstance(t, ast.Name) and t.id == nm for t in d.targets)]
                    if len(ds) == 1 and isinstance(ds[0], ast.Name) and depth < 4:
                        return _defs_of(ds[0].id, depth + 1)
                    return ds

                # the survivor was made by the pass itself (an output of a node it has just built, a new Value)
                defs = _defs_of(a)
                made = bool(defs) and all(
                    (isinstance(v, ast.Call) and (dotted_of(v.func) or "").split(".")[-1] in ("Value", "node", "Node"))
                    or (isinstance(v, ast.Subscript) and isinstance(v.value, ast.Attribute) and v.value.attr == "outputs" and isinstance(v.value.value, ast.Name) and any(
                        isinstance(v2, ast.Call) and (dotted_of(v2.func) or "").split(".")[-1] in ("node", "Node") for v2 in _defs_of(v.value.value.id)))
                    for v in defs)
                n += 1
                if made:
                    ctx.ob("R15", f"{f.local}: `{norm(st)[:60]}` names a value the pass has just created", True, how="definition of the renamed value is a constructor / output of a new node")
                    continue
                governed = False
                child, par = st, getattr(st, "_parent", None)
                while par is not None:
                    for fld in ("body", "orelse"):
                        blk = getattr(par, fld, None)
                        if isinstance(blk, list) and child in blk:
                            for prev in blk[: blk.index(child)]:
                                # an exit before the statement (possibly nested under further conditions of an earlier if)
                                for g_ in ast.walk(prev):
                                    if isinstance(g_, ast.If) and not g_.orelse and g_.body and isinstance(g_.body[-1], (ast.Return, ast.Raise, ast.Continue, ast.Break)) \
                                            and _excludes_call(g_.test, a, "is_graph_output", True):
                                        governed = True
                            if isinstance(par, ast.If) and _excludes_call(par.test, a, "is_graph_output", fld == "orelse"):
                                governed = True
                    if par is f.node:
                        break
                    child, par = par, getattr(par, "_parent", None)
                ctx.check("R15", f"{f.local}: `{norm(st)[:60]}` renames a value that is not itself a graph output", governed, f, st,
                          f"`{norm(st)[:70]}` gives `{a}` the name of the value it replaces although nothing on the way excludes that `{a}` is a graph output itself: folding "
                          f"`z = Identity(y)` with graph outputs [y, z] renames y to z - the graph lists one value twice and the output name `y` is gone",
                          how="governing tests of the statement (enclosing branches, exits before it) mention `<survivor>.is_graph_output()` with the excluding polarity",
                          construct=f"{a} renamed without asking whether it is a graph output")
    ctx.require(n >= 2, f"only {n} take-over renames found in the pass modules")


def rule_r16(ctx):
    from ..shared import sized_payload_truth_tests

    n = 0
    for m in ctx.repo.pkg_modules():
        if not m.name.startswith("onnx_ir.passes") or m.name.endswith("_test"):
            continue
        for f in m.all_funcs:
            if isinstance(f.node, ast.Lambda):
                continue
            f._s12_examined = 0
            hits = sized_payload_truth_tests(ctx.repo, ctx.typer, f)
            n += f._s12_examined
            for node, t, src, cls in hits:
                ctx.check("R16", f"{f.local}: presence of {norm(t)} ({src}) is tested with `is None`", False, f, node,
                          f"`{norm(t)}` is tested by truthiness but it is declared `{src}`: {cls.replace('the value of a GRAPH attribute is a Graph', 'an attribute value can be 0, 0.0, an empty string or list')} - "
                          "a falsy value is taken for an absent one, so what the test guards is skipped: the pass then rewrites the model as if the attribute had no value "
                          "(a declared default of 0 is dropped and the operator falls back to its own default) and the results differ",
                          how="declared type of the tested expression (S10 source tracing) vs `Any`-typed attribute values and sized IR classes",
                          construct=f"truthiness of {src} in {f.local}")
    for _ in range(n):
        ctx.counts["R16"] = ctx.counts.get("R16", 0) + 1
    ctx.ob("R16", f"{n} truthiness tests with a declared type examined in the pass modules", True, nontrivial=False, how="S12")
    ctx.require(n >= 100, f"only {n} typed truthiness tests found in the pass modules")


def rule_r17(ctx):
    n = 0
    for m in ctx.repo.pkg_modules():
        if not m.name.startswith("onnx_ir.passes") or m.name.endswith("_test"):
            continue
        for f in ctx.repo.live(m.all_funcs):
            if isinstance(f.node, ast.Lambda):
                continue
            dels = [d for d in own_nodes(f.node) if (isinstance(d, ast.Delete) and any(isinstance(t, ast.Subscript) and norm(t.value).endswith(".opset_imports") for t in d.targets))
                    or (isinstance(d, ast.Call) and isinstance(d.func, ast.Attribute) and d.func.attr == "pop" and norm(d.func.value).endswith(".opset_imports"))]
            for d in dels:
                n += 1
                handles = any(isinstance(x, ast.Constant) and x.value == "ai.onnx" for x in ast.walk(f.node)) or any(
                    isinstance(x, ast.Call) and "normalize_domain" in (dotted_of(x.func) or "") for x in ast.walk(f.node))
                ctx.check("R17", f"{f.local}: opset imports are deleted only after the alias of the default domain was accounted for", handles, f, d,
                          f"`{norm(d)[:60]}` removes opset imports that were selected by comparing their keys with node / function domains as they are: the import of the default "
                          "domain can be keyed `ai.onnx` while every node spells it '', so it is taken for unused and deleted - the model keeps no opset import for its ONNX operators",
                          how="functions of the pass modules that delete from <x>.opset_imports mention the alias constant or a domain normaliser",
                          construct=f"opset imports compared with node domains without the alias in {f.local}")
    ctx.require(n >= 1, "no pass deletes opset imports (RemoveUnusedOpsetsPass expected)")


def rule_r20(ctx):
    n = 0
    for m in ctx.repo.pkg_modules():
        if not m.name.startswith("onnx_ir.passes") or m.name.endswith("_test"):
            continue
        for f in ctx.repo.live(m.all_funcs):
            if isinstance(f.node, ast.Lambda):
                continue
            for lp in (x for x in own_nodes(f.node) if isinstance(x, ast.For)):
                it = norm(lp.iter)
                if not ("RecursiveGraphIterator" in it or ".all_nodes()" in it):
                    continue
                n += 1
                inside = {id(x) for x in ast.walk(lp)}
                tables = set()
                for a in own_nodes(f.node):
                    if id(a) in inside:
                        continue
                    if isinstance(a, (ast.Assign, ast.AnnAssign)) and getattr(a, "value", None) is not None and (
                            isinstance(a.value, ast.Dict) or (isinstance(a.value, ast.Call) and (dotted_of(a.value.func) or "").split(".")[-1] in ("dict", "defaultdict", "OrderedDict"))):
                        for t in (a.targets if isinstance(a, ast.Assign) else [a.target]):
                            if isinstance(t, ast.Name):
                                tables.add(t.id)
                if not tables:
                    continue
                # values that decide a rewiring inside the loop
                rewired = set()
                for c in (x for x in ast.walk(lp) if isinstance(x, ast.Call) and isinstance(x.func, ast.Attribute)
                          and x.func.attr in ("replace_all_uses_with", "register_initializer", "replace_input_with")):
                    rewired |= {y.id for a_ in c.args for y in ast.walk(a_) if isinstance(y, ast.Name)}
                for st in (x for x in ast.walk(lp) if isinstance(x, ast.Assign)):
                    t = st.targets[0]
                    if not (isinstance(t, ast.Subscript) and isinstance(t.value, ast.Name) and t.value.id in tables and isinstance(st.value, ast.Name) and st.value.id in rewired):
                        continue
                    key = t.slice
                    scoped = any((isinstance(y, ast.Attribute) and y.attr in ("graph", "_graph")) or (isinstance(y, ast.Name) and "graph" in y.id.lower()) for y in ast.walk(key))
                    ctx.check("R20", f"{f.local}: the memo `{t.value.id}` of rewiring targets is keyed per graph", scoped, f, st,
                              f"`{norm(st)[:70]}` remembers a value under `{norm(key)[:40]}` in a table that lives across all graphs of the traversal `{it[:50]}`, and the remembered value is "
                              "what later nodes are rewired to: a node in a sibling subgraph (or in the enclosing graph) is redirected to a value registered in a graph it cannot see - "
                              "the transformed model refers to an undefined value and is rejected by the checker",
                              how="tables created before a loop over a recursive traversal, filled inside it with a value that also feeds replace_all_uses_with / register_initializer; the key names the owning graph",
                              construct=f"cross-graph memo {t.value.id}[{norm(key)[:30]}]")
    ctx.ob("R20", f"{n} pass loops over a recursive traversal examined for cross-graph memos", True, how="S: memo key names the graph")
    ctx.require(n >= 3, f"only {n} pass loops over a recursive traversal found")


def rule_r21(ctx):
    m = ctx.repo.module("onnx_ir.passes.common.shape_inference")
    n = 0
    for f in ctx.repo.live(m.all_funcs):
        if isinstance(f.node, ast.Lambda):
            continue
        maps = [c for c in calls_in(f) if (dotted_of(c.func) or "").endswith("create_value_mapping") and c.args]
        if not maps:
            continue
        # loop variables of loops that pair the graphs of two models
        paired = set()
        for lp in (x for x in own_nodes(f.node) if isinstance(x, ast.For)):
            it = lp.iter
            if isinstance(it, ast.Call) and dotted_of(it.func) == "zip" and sum(1 for a_ in it.args if isinstance(a_, ast.Call) and isinstance(a_.func, ast.Attribute) and a_.func.attr == "graphs") >= 2:
                paired |= {y.id for y in ast.walk(lp.target) if isinstance(y, ast.Name)}
        for c in maps:
            n += 1
            arg = c.args[0]
            ok = isinstance(arg, ast.Name) and arg.id in paired
            ctx.check("R21", f"{f.local}: `{norm(c)[:60]}` is the table of one graph of the pair being merged", ok, f, c,
                      f"`{norm(c)[:70]}` builds the table of names from `{norm(arg)[:40]}`, which is not the graph paired with the one being updated: a name is then matched across "
                      "scopes, and a value of a subgraph gets the type and shape inferred for the first value of that name elsewhere in the model (an If whose branches both call a "
                      "local value `t` with different element types: the full checker and onnxruntime reject the model after the pass)",
                      how="arguments of create_value_mapping in the shape-inference merge × targets of `for a, b in zip(<model>.graphs(), <inferred>.graphs())`",
                      construct="value table not built per paired graph")
    ctx.require(n >= 1, "no create_value_mapping call found in the shape-inference merge")


def run(ctx):
    from . import c14

    rule_r21(ctx)
    rule_r20(ctx)

    c14.rule_r11(ctx, rule="R18")
    from ..shared import rule_s18

    rule_s18(ctx, "R19", lambda name: name.startswith("onnx_ir.passes"),
             "the pass raises on a valid model with such a function instead of transforming it", floor=2)
    rule_r17(ctx)
    rule_r16(ctx)
    rule_r15(ctx)
    rule_r14(ctx)
    rule_r13(ctx)
    rule_r12(ctx)
    rule_r11(ctx)
    rule_r10(ctx)
    rule_r8(ctx)
    rule_r9(ctx)
    rule_r7(ctx)
    rule_r6(ctx)
    rule_r5(ctx)
    rule_r1(ctx)
    rule_r2(ctx)
    rule_r3(ctx)
    rule_r4(ctx)
