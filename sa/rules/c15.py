"""C15 — generated names never collide; name fixing yields unique names only."""

from __future__ import annotations

import ast

from ..cfg import CFG
from ..effects import Effects
from ..facts import calls_in, field_writes, is_self_call
from ..index import FuncInfo, dotted_of, norm, own_nodes
from . import c06

PROPERTY = "C15"
RULES = {
    "R1": "monotone registries: the name authority's name sets and counters are only grown (add / +=), and only by the "
    "name authority itself",
    "R2": "guarded generation: each generator returns a name only after a non-membership test against its registry and "
    "advances its counter on every iteration; each register_or_name_* assigns a name only when it is None and adds the "
    "final name on every path"
    "  (an early return is accepted only under `not name.startswith(K)` with K a constant prefix of the generated format)",
    "R3": "every Graph method that links nodes goes through _set_node_graph_to_self_and_assign_names, which registers the "
    "node and each of its outputs before adopting the node",
    "R4": "bulk rename is atomic: rename_values has no write before its last feasible rejection (C06 analysis)",
    "R5": "NameFixPass: scope stacks are pushed and popped together; every rename takes its name from "
    "_find_and_record_next_unique_name, whose loop exits only on non-membership and which records the result"
    " ; the call that fixes a graph-like is never a short-circuited operand (every function is visited)",
    "R6": "a rename re-keys (shared with C01-R3): NameFixPass renames through the Value.name setter; in that setter every path "
    "from the store of the new name to the exit passes the test that re-keys the graph's initializer table, so initializers are "
    "keyed by their current names after name fixing - with or without a backing tensor",
}
FLOORS = {"R1": 6, "R2": 6, "R3": 5, "R4": 1, "R5": 8, "R6": 1}
EXPLANATION = (
    "Who-may-write and growth-only checks on the name registries, CFG shape of the name generators, reachability of "
    "the registration routine from every node-linking method, reuse of the C06 write-before-reject analysis for bulk "
    "renaming, and the scope/rename discipline of the name-fixing pass."
)
NOT_DECIDED = "uniqueness of the final names of a concrete model (depends on the names present at run time)"
ASSUMPTIONS = ["names are compared as Python strings; the registries are per graph"]

NA = "onnx_ir._name_authority"
REG = ("_value_names", "_node_names")
CNT = ("_value_counter", "_node_counter")


def rule_r1(ctx):
    repo = ctx.repo
    na = repo.cls(f"{NA}:NameAuthority")
    n = 0
    for f in repo.all_funcs():
        for w in field_writes(f):
            if w.field not in REG + CNT:
                continue
            n += 1
            inside = f.owner_class is na
            if f.name == "__init__" and inside:
                ctx.ob("R1", f"{f.local}: {norm(w.stmt)[:50]} (initialisation)", True, nontrivial=False)
                continue
            if w.field in REG:
                ok = inside and w.kind == "mutcall" and w.method in ("add", "update")
            else:
                ok = inside and w.kind == "aug" and isinstance(w.stmt.op, ast.Add) and isinstance(w.stmt.value, ast.Constant) and w.stmt.value.value > 0
            ctx.check("R1", f"{f.key}: {norm(w.stmt)[:60]}", ok, f, w.stmt,
                      f"the registry field `{w.field}` is written other than by growing it inside NameAuthority: a name "
                      "that was handed out can be generated again later",
                      how="write kind (add / += positive constant) and owner class")
    ctx.require(n >= 6, "name registry writes not recognised")


def rule_r2(ctx):
    na = ctx.repo.cls(f"{NA}:NameAuthority")
    for gen, reg, cnt in (("_unique_value_name", "_value_names", "_value_counter"), ("_unique_node_name", "_node_names", "_node_counter")):
        f = na.methods.get(gen)
        ctx.require(f is not None, f"NameAuthority.{gen} not found")
        rets = [n for n in own_nodes(f.node) if isinstance(n, ast.Return)]
        loops = [n for n in own_nodes(f.node) if isinstance(n, ast.While)]
        ok = len(rets) >= 1 and len(loops) == 1
        for r in rets:
            iff = getattr(r, "_parent", None)
            ok = ok and isinstance(iff, ast.If) and norm(iff.test) == f"{norm(r.value)} not in self.{reg}"
        # the counter advances on every iteration, before the membership test can loop again
        incs = [n for n in own_nodes(f.node) if isinstance(n, ast.AugAssign) and norm(n.target) == f"self.{cnt}"]
        ok = ok and len(incs) == 1 and loops and incs[0] in loops[0].body
        # the candidate is built from the counter
        cands = [n for n in own_nodes(f.node) if isinstance(n, ast.Assign) and any(norm(r.value) == norm(n.targets[0]) for r in rets)]
        ok = ok and len(cands) == 1 and f"self.{cnt}" in norm(cands[0].value)
        ctx.check("R2", f"{gen}: returns only names absent from {reg}; counter advances every iteration", bool(ok), f, f.node,
                  "the generator can return a name that is already registered, or can loop without advancing",
                  how="every return is guarded by `name not in registry`; single unconditional counter increment in the loop")
    for reg_fn, attr, gen, reg in (("register_or_name_value", "value", "_unique_value_name", "_value_names"),
                                   ("register_or_name_node", "node", "_unique_node_name", "_node_names")):  # fmt: skip
        f = na.methods.get(reg_fn)
        ctx.require(f is not None, f"NameAuthority.{reg_fn} not found")
        cfg = CFG(f.node)
        p = f.params[1]
        assigns = [n for n in own_nodes(f.node) if isinstance(n, ast.Assign) and norm(n.targets[0]) == f"{p}.name"]
        ok = len(assigns) == 1
        if ok:
            iff = getattr(assigns[0], "_parent", None)
            ok = isinstance(iff, ast.If) and norm(iff.test) == f"{p}.name is None" and is_self_call(assigns[0].value, gen) if isinstance(assigns[0].value, ast.Call) else False
        ctx.check("R2", f"{reg_fn}: assigns a generated name only when {p}.name is None", bool(ok), f, f.node,
                  "an explicitly given name can be overwritten (or a name not produced by the guarded generator is assigned)",
                  how="single assignment under `name is None` from the generator")
        adds = [c for c in calls_in(f) if norm(c.func) == f"self.{reg}.add" and c.args and norm(c.args[0]) == f"{p}.name"]
        ok = len(adds) == 1
        bad_node = f.node
        if ok:
            addn = cfg.nodes_containing(adds[0])[0]
            # a path may skip the registration only for a name the generator can never produce: an early return under
            # `not <obj>.name.startswith(K)` with K a constant prefix of the constant head of the generator's f-string
            head = ""
            g = na.methods.get(gen)
            for n in own_nodes(g.node):
                if isinstance(n, ast.Assign) and isinstance(n.value, ast.JoinedStr) and n.value.values and isinstance(n.value.values[0], ast.Constant):
                    head = str(n.value.values[0].value)
            justified = set()
            for r in (n for n in own_nodes(f.node) if isinstance(n, ast.Return)):
                iff = getattr(r, "_parent", None)
                t = iff.test if isinstance(iff, ast.If) and r in iff.body else None
                if isinstance(t, ast.UnaryOp) and isinstance(t.op, ast.Not) and isinstance(t.operand, ast.Call) and isinstance(t.operand.func, ast.Attribute) \
                        and t.operand.func.attr == "startswith" and norm(t.operand.func.value) == f"{p}.name" and len(t.operand.args) == 1 \
                        and isinstance(t.operand.args[0], ast.Constant) and isinstance(t.operand.args[0].value, str) and t.operand.args[0].value \
                        and head.startswith(t.operand.args[0].value):
                    justified |= {x.id for x in cfg.node_of(r)}
                else:
                    bad_node = r
            ok = not cfg.path_exists_avoiding(cfg.entry, {cfg.exit.id}, {addn.id} | justified)
        ctx.check("R2", f"{reg_fn}: the final name is registered on every path", bool(ok), f, bad_node,
                  "the name in use is not recorded, so the generator may hand it out again",
                  how="registry.add(<obj>.name) is on every path to the exit, except early returns for names that cannot start "
                      "with the constant head of the generated format")


def rule_r3(ctx):
    repo = ctx.repo
    g = repo.cls("onnx_ir._core:Graph")
    hook = g.methods.get("_set_node_graph_to_self_and_assign_names")
    ctx.require(hook is not None, "Graph._set_node_graph_to_self_and_assign_names not found")
    cfg = CFG(hook.node)
    rn = [c for c in calls_in(hook) if norm(c.func) == "self._name_authority.register_or_name_node"]
    rv = [c for c in calls_in(hook) if norm(c.func) == "self._name_authority.register_or_name_value"]
    adopt = [w for w in field_writes(hook) if w.field == "graph" and w.kind == "store"]
    ok = len(rn) == 1 and len(rv) == 1 and len(adopt) == 1
    if ok:
        loop = getattr(getattr(rv[0], "_parent", None), "_parent", None)
        ok = isinstance(loop, ast.For) and norm(loop.iter) in (f"{hook.params[1]}._outputs", f"{hook.params[1]}.outputs") and norm(rv[0].args[0]) == norm(loop.target)
        an = cfg.node_of(adopt[0].stmt)[0]
        ok = ok and cfg.dominates(cfg.nodes_containing(rn[0])[0], an) and cfg.dominates([n for n in cfg.node_of(loop) if n.kind == "iter"][0], an)
    ctx.check("R3", "the adoption hook registers the node and every output", bool(ok), hook, hook.node,
              "a node can join the graph without its name / its outputs' names being registered or generated",
              how="register_or_name_node and a loop of register_or_name_value over the node's outputs dominate `node.graph = self`")
    for name in ("append", "extend", "insert_after", "insert_before"):
        f = g.methods.get(name)
        ctx.require(f is not None, f"Graph.{name} not found")
        links = [c for c in calls_in(f) if isinstance(c.func, ast.Attribute) and norm(c.func.value) == "self._nodes"]
        hooks = [c for c in calls_in(f) if is_self_call(c, hook.name)]
        ok = bool(links) and bool(hooks)
        ctx.check("R3", f"Graph.{name} links nodes only after the adoption hook", ok, f, f.node,
                  "nodes are linked into the graph without name registration", how="call of the hook present with every link (ordering: C01-R3b)")


def rule_r4(ctx):
    ef = ctx._shared.get("effects")
    if ef is None:
        ef = ctx._shared["effects"] = Effects(ctx.repo, ctx.typer, tier4=(ctx.tier == "thorough"))
    ef.compute()
    f = ctx.repo.func("onnx_ir._convenience:rename_values")
    used: dict = {}
    sites = c06.analyse_mutator(ef, f, used)
    bad = [(m, c, u) for m, c, u, _ in sites if u]
    ctx.check("R4", "rename_values: no write precedes a feasible rejection", not bad, f, bad[0][1].node if bad else f.node,
              f"bulk renaming can fail after some values were already renamed: {[r.key for r in bad[0][2]][:3] if bad else ''}",
              how="C06 forward may-analysis over the function's CFG with the C06 infeasibility table")
    # three phases in order: detach initializers, rename, re-register
    cfg = CFG(f.node)
    pop = [c for c in calls_in(f) if norm(c.func).endswith("initializers.pop")]
    ren = [n for n in own_nodes(f.node) if isinstance(n, ast.Assign) and norm(n.targets[0]).endswith(".name") and isinstance(n.targets[0], ast.Attribute)]
    add = [c for c in calls_in(f) if norm(c.func).endswith("initializers.add")]
    ok = len(pop) == 1 and len(ren) == 1 and len(add) == 1
    if ok:
        def loop_of(x):
            p = getattr(x, "_parent", None)
            top = None
            while p is not None and p is not f.node:
                if isinstance(p, ast.For):
                    top = p
                p = getattr(p, "_parent", None)
            return top
        a, b, c = loop_of(pop[0]), loop_of(ren[0]), loop_of(add[0])
        body = f.node.body
        ok = a in body and b in body and c in body and body.index(a) < body.index(b) < body.index(c)
    ctx.check("R4", "rename_values: detach all, rename all, re-register all (three separate loops)", bool(ok), f, f.node,
              "initializers are not all detached before the first rename: a swap of two initializer names trips the collision guard",
              how="order of the three top-level loops")


def rule_r5(ctx):
    repo = ctx.repo
    p = repo.cls("onnx_ir.passes.common.naming:NameFixPass")
    fix = p.methods.get("_fix_graph_names")
    ctx.require(fix is not None, "NameFixPass._fix_graph_names not found")
    enter, exit_ = fix.nested.get("enter_graph"), fix.nested.get("exit_graph")
    ctx.require(enter is not None and exit_ is not None, "enter_graph / exit_graph callbacks not found")
    stacks = sorted({norm(c.func.value) for c in calls_in(enter) if isinstance(c.func, ast.Attribute) and c.func.attr == "append"})
    pops = sorted({norm(c.func.value) for c in calls_in(exit_) if isinstance(c.func, ast.Attribute) and c.func.attr == "pop"})
    ok = len(stacks) == 2 and stacks == pops and not any(isinstance(n, (ast.If, ast.Return)) for n in own_nodes(exit_.node))
    ctx.check("R5", f"enter_graph pushes {stacks}; exit_graph pops {pops}", ok, exit_, exit_.node,
              "the scope stacks are not pushed/popped together: names of a finished subgraph leak into (or vanish from) the enclosing scope",
              how="same two stacks appended in enter_graph and popped unconditionally in exit_graph")
    it = [c for c in calls_in(fix) if (dotted_of(c.func) or "").endswith("RecursiveGraphIterator")]
    ok = bool(it) and {k.arg for k in it[0].keywords} >= {"enter_graph", "exit_graph"}
    ctx.check("R5", "the traversal is given both callbacks", ok, fix, fix.node, "enter_graph/exit_graph are not both installed", nontrivial=False)
    # every rename uses the unique-name finder
    n = 0
    for f in p.methods.values():
        for s in own_nodes(f.node):
            if isinstance(s, ast.Assign) and isinstance(s.targets[0], ast.Attribute) and s.targets[0].attr == "name":
                n += 1
                ok = isinstance(s.value, ast.Call) and dotted_of(s.value.func) == "_find_and_record_next_unique_name" and len(s.value.args) >= 2
                # the used-names set passed is the function's own parameter
                ok = ok and isinstance(s.value.args[1], ast.Name) and s.value.args[1].id in f.params
                ctx.check("R5", f"{f.local}: {norm(s)[:70]}", bool(ok), f, s,
                          "a name is assigned that does not come from _find_and_record_next_unique_name: it may collide",
                          how="right-hand side is the unique-name finder applied to the scope's used-name set")
    ctx.require(n >= 4, "rename sites of NameFixPass not recognised")
    fn = repo.func("onnx_ir.passes.common.naming:_find_and_record_next_unique_name")
    loops = [x for x in own_nodes(fn.node) if isinstance(x, ast.While)]
    rets = [x for x in own_nodes(fn.node) if isinstance(x, ast.Return)]
    ok = len(loops) == 1 and len(rets) == 1
    if ok:
        var = norm(rets[0].value)
        ok = norm(loops[0].test) == f"{var} in {fn.params[1]}" and not any(isinstance(x, ast.Break) for x in ast.walk(loops[0]))
        adds = [c for c in calls_in(fn) if norm(c.func) == f"{fn.params[1]}.add" and norm(c.args[0]) == var]
        cfg = CFG(fn.node)
        ok = ok and len(adds) == 1 and cfg.dominates(cfg.nodes_containing(adds[0])[0], cfg.node_of(rets[0])[0])
        incs = [x for x in ast.walk(loops[0]) if isinstance(x, ast.AugAssign)]
        ok = ok and len(incs) == 1
    ctx.check("R5", "_find_and_record_next_unique_name: loop exits only on non-membership; result recorded", bool(ok), fn, fn.node,
              "the finder can return a used name or forgets to record the name it returns",
              how="while <name> in used; no break; used.add(name) dominates the return; counter advances")
    # fixing a duplicate keeps names that are already unique
    for m in ("_fix_duplicate_value_name", "_fix_duplicate_node_name"):
        f = p.methods.get(m)
        ctx.require(f is not None, f"NameFixPass.{m} not found")
        keep = [x for x in own_nodes(f.node) if isinstance(x, ast.If) and " not in " in norm(x.test) and any(isinstance(s, ast.Return) and norm(s.value) == "False" for s in x.body)]
        ok = len(keep) == 1 and any(isinstance(s, ast.Expr) and ".add(" in norm(s) for s in keep[0].body)
        ctx.check("R5", f"{m}: a name not yet used in scope is kept and recorded", ok, f, f.node,
                  "an already unique name is changed, or is kept without being recorded as used",
                  how="`if name not in used: used.add(name); return False`")


def rule_r5b(ctx):
    """The name-fixing pass visits the main graph and every function: the call that fixes a graph-like is never a
    short-circuited operand (shared with C14-R3)."""
    from . import c14

    ef = ctx._shared.get("effects")
    if ef is None:
        ef = ctx._shared["effects"] = Effects(ctx.repo, ctx.typer, tier4=(ctx.tier == "thorough"))
    ef.compute()
    p = ctx.repo.cls("onnx_ir.passes.common.naming:NameFixPass")
    call = p.methods.get("call")
    ctx.require(call is not None, "NameFixPass.call not found")
    skips = c14.shortcircuit_skips(ef, call)
    ctx.check("R5", "NameFixPass.call fixes the main graph and every function (no fixing call in a short-circuited operand)", not skips, call,
              skips[0][0] if skips else call.node,
              f"`{norm(skips[0][1])[:80] if skips else ''}` is a later operand of `or`/`and`: after the first graph-like that needed a fix the remaining "
              "functions are skipped, so unnamed / duplicate names survive the pass",
              how="effect summaries of calls in later operands of and/or", construct="name fixing skipped by short-circuit")


def run(ctx):
    from . import c01

    c01.rule_rekey(ctx, rule="R6", consequence="; after NameFixPass `graph.initializers[old]` holds a value whose name is the new one")
    rule_r5b(ctx)
    rule_r1(ctx)
    rule_r2(ctx)
    rule_r3(ctx)
    rule_r4(ctx)
    rule_r5(ctx)
