"""C04 — all tensor representations agree on values and bytes for every dtype/shape."""

from __future__ import annotations

import ast
import re

from ..facts import calls_in
from ..index import FuncInfo, dotted_of, norm, own_nodes, short

PROPERTY = "C04"
RULES = {
    "R1": "element-type tables are mutually consistent: bit width vs member name, short name and numpy/ml_dtypes "
    "name; numpy and short-name maps injective and total; float/integer/other partition; signedness; the "
    "non-numpy-native set and its view dispatch; torch adapter tables mutual inverses",
    "R2": "sub-byte class completeness: a DataType set literal guarding a byte-level operation that names one "
    "member of a sub-byte class ({INT4,UINT4,FLOAT4E2M1}, {INT2,UINT2}) names the whole class",
    "R3": "helper ↔ guard agreement: every call of a 4bitx2 (2bitx4) packing helper is control-dependent on a "
    "guard implying bit width 4 (2)",
    "R4": "packing-factor consistency: element-count arithmetic with a literal 2 or 4 is not applied under a "
    "guard admitting dtypes with a different number of elements per byte",
    "R5": "sibling decoders: TensorProtoTensor.numpy and .tobytes accept the same dtype set per storage field; "
    "tobytes/tofile of a class obtain bytes from the same builder",
    "R8": "source/destination offsets stay apart in ExternalTensor.tofile: positions given to the destination handle "
    "(seek, offset_dst=) derive from the destination's own tell() and never from the tensor's offset in its data file; "
    "positions given to the source handle (seek, offset_src=) derive from the tensor's offset and never from the "
    "destination's position - otherwise the bytes or the following writes land at a position that depends on where the "
    "tensor happens to live in its data file",
    "R9": "one coordinate system for the mapped data file: ExternalTensor maps the file from byte 0 and every position "
    "used with the mapping (np.frombuffer offset=, slices of self.raw) is the tensor's absolute file offset - or, if the "
    "mapping starts at a window base, every position in every method is taken relative to that same base",
    "R12": "lazy-load contract of the tensor classes: where a method reads a field behind `if self.F is None: self.<loader>()` "
    "and then relies on it (assert / use), every normal exit of the loader assigns `self.F` - or the method returns by itself, "
    "before calling the loader, under the very condition under which the loader leaves F unset (an empty external tensor maps "
    "nothing, so `raw` stays None and tobytes() must not slice it)",
    "R11": "byte counts round up exactly: on the tensor byte paths (tensor classes, packing helpers, adapters, tensor "
    "serialization) a byte or element count is rounded up with math.ceil of the exact product or with the integer idiom "
    "(n + d - 1) // d - an addend other than the divisor minus one (the 4-bit `+ 1` reused for 4 elements per byte) "
    "rounds down for some sizes, so nbytes, the packed-buffer check and the external read length lose a byte",
    "R10": "byte access to a framework tensor is view-aware: the adapters take the base address of the bytes from the "
    "tensor itself (tensor.data_ptr()) - a pointer taken from the underlying storage object ignores the view's storage "
    "offset, so a slice / chunk of a larger tensor would emit the first bytes of the storage instead of its own elements",
    "R7": "logical element order: every flattening / reshaping / byte-producing array call on the tensor byte paths "
    "(ravel, flatten, reshape, tobytes, resize) uses row-major order - no order= other than 'C' - so elements and bytes "
    "follow the declared shape, not the array's memory layout",
    "R6": "packing constants: masks are ((1<<K)-1) shifted by multiples of K, shifts are multiples of K below 8, "
    "strides and padding moduli are 8/K in each helper",
    "R13": "packed bytes never come from an unpacked cache: in a tensor class, a field that some method fills with the result of an "
    "unpacking helper (unpack_4bitx2 / unpack_2bitx4: one element per byte) holds *decoded* data; tobytes()/tofile() of that class "
    "do not produce their bytes from that field (`self.<field>.tobytes()` …) unless they pack again - for 2- and 4-bit types the "
    "decoded array has size, not ceil(size x bitwidth / 8), bytes, so the result depends on whether numpy() was called before",
    "R14": "numpy() keeps the declared rank: in numpy() / __array__ of every tensor class, the returned array does not pass through a "
    "numpy routine that changes the number of dimensions for some inputs (ascontiguousarray / asfortranarray / atleast_nd turn a "
    "0-d array into shape (1,); squeeze, ravel, flatten, expand_dims) unless a reshape to the declared shape is the last step - "
    "a scalar tensor would report shape () and hand out an array of shape (1,)",
    "R16": "typed storage is reinterpreted, never recomputed: in numpy() / __array__ / tobytes() / tofile() / _load() of every tensor class, and in the "
    "private helpers of the same module that are handed the array, no + - * / ** is applied to an array of element data or to a complex "
    "literal - `array[0::2] + 1j * array[1::2]` instead of `array.view(np.complex64)` gives NaN real parts for infinite or NaN imaginary "
    "components and loses the sign of -0.0, so the proto-backed tensor disagrees with its own bytes and the reference decoder (bit "
    "operations - shifts, masks - are packing and are covered by R3/R4/R6)",
    "R17": "tofile() writes through the object it was given: wherever a tensor class (or a helper it hands its file to) calls "
    "`<x>.tofile(<f>)`, `<f>` is the file parameter itself - never a layer below it (`file.raw`, `getattr(file, 'raw', file)`, "
    "`file.buffer`, a descriptor): numpy flushes, tells and seeks the object it gets, so below a BufferedWriter it skips the pending "
    "bytes and writes at the descriptor's offset instead of the file's position - a header written just before ends up after the tensor",
    "R18": "the unpacking kernels read their input in logical order whatever its shape: each `unpack_*` function of the type-casting "
    "module flattens the packed array it is given (`data = data.reshape(-1)` / ravel() / flatten()) before the first strided store into "
    "the result (`result[0::2] = data & 0x0F`) - a PackedTensor accepts a packed array of any shape, and a two-dimensional one does "
    "not broadcast into the one-dimensional result, so numpy() raises where tobytes() answers",
    "R15": "every array that a Tensor stores has been given its ml_dtypes view: in Tensor.__init__ the statement that turns a numpy "
    "scalar (or another array-like) into an array (`value = np.array(value)` / `np.asarray`) comes before the statement that applies "
    "`_maybe_view_np_array_with_ml_dtypes` - as an alternative arm of it (`elif isinstance(value, np.generic)`) or after it, the "
    "0-d array keeps its carrier type (uint16 / uint8 / int8) and numpy() returns bit patterns instead of bfloat16 / float8 / int4 values",
    "R19": "the byte order is part of a numpy dtype: where the element-type module maps a numpy dtype to a DataType, the key looked up in "
    "(or tested against) the numpy-to-DataType table is the dtype as given (or `np.dtype(<it>)`) - never rebuilt from an attribute "
    "that forgets the byte order (`.type`, `.kind`, `.char`, `.name`, `.itemsize`, `.newbyteorder()`, `.base`): the byte producers "
    "(tobytes / tofile / the serializer) swap bytes for the host's order only and rely on the refusal of foreign-order arrays, so a "
    "`>f4` array accepted as FLOAT is written big-endian and every reader decodes other values than numpy() shows",
    "R20": "a streamed copy reads exactly the tensor: in the copy loop of `ExternalTensor.tofile` (`while <remaining> > 0`), every read of the "
    "source is `read(min(<chunk constant>, <remaining>))` - bounded by the bytes of the tensor that are still to come, and by the "
    "module's chunk constant, which is also what the concurrent writer reserves for an external tensor (`_reservation_bytes`); a "
    "`readinto(<whole buffer>)` runs past the end of the tensor into the next tensor of the data file (tofile() then emits more than "
    "nbytes bytes and disagrees with tobytes() / numpy()), and a chunk scaled by the element size holds itemsize times the reservation",
}
FLOORS = {"R1": 120, "R2": 4, "R3": 8, "R4": 1, "R5": 6, "R6": 20, "R7": 30, "R8": 4, "R9": 2, "R10": 1, "R11": 1, "R12": 3, "R13": 1, "R14": 8, "R15": 1, "R16": 12, "R17": 4, "R18": 2, "R19": 2, "R20": 1}
EXPLANATION = (
    "Evaluates the enum and table literals of _enums/_core/tensor_adapters with ast only and compares them with "
    "each other; derives the sub-byte classes from _BITWIDTH_MAP and checks every storage guard, packing-helper "
    "call site, element-count expression and packing constant against them."
)
NOT_DECIDED = "numerical/byte equality of representations, file offsets, tofile positions (value properties)"
ASSUMPTIONS = ["numpy/ml_dtypes dtype names carry their bit width as their first integer (bool = 8 bits)"]

EN = "onnx_ir._enums"
NO_DIGIT = {"FLOAT": 32, "DOUBLE": 64, "BOOL": 8}
NP_NO_DIGIT = {"bool": 8}


def _dt(e) -> str | None:
    d = dotted_of(e)
    if d and ".DataType." in "." + d:
        return d.rsplit(".", 1)[1]
    return None


def _first_int(s: str) -> int | None:
    m = re.search(r"\d+", s)
    return int(m.group()) if m else None


def _dt_set(e) -> set[str] | None:
    """Members of a set/tuple/frozenset literal of DataType attributes."""
    if isinstance(e, ast.Call) and dotted_of(e.func) in ("frozenset", "set", "tuple") and e.args:
        e = e.args[0]
    if isinstance(e, (ast.Set, ast.Tuple, ast.List)):
        out = {_dt(x) for x in e.elts}
        return None if None in out or not out else out
    return None


def _members(ctx):
    c = ctx.repo.cls(f"{EN}:DataType")
    out = {}
    for s in c.node.body:
        if isinstance(s, ast.Assign) and isinstance(s.targets[0], ast.Name) and isinstance(s.value, ast.Constant):
            out[s.targets[0].id] = s.value.value
    ctx.require(len(out) >= 20, "DataType members not recognised")
    return out


def _dict_literal(ctx, modname, name):
    m = ctx.repo.module(modname)
    d = m.assigns.get(name)
    ctx.require(isinstance(d, ast.Dict), f"{modname}.{name} dict literal not found")
    return d


def _return_set(ctx, key):
    f = ctx.repo.func(key)
    for n in own_nodes(f.node):
        if isinstance(n, ast.Return) and isinstance(n.value, ast.Compare):
            s = _dt_set(n.value.comparators[0])
            if s:
                return s, f
    ctx.require(False, f"{key}: `return self in {{…}}` not recognised")


def rule_r1(ctx):
    repo = ctx.repo
    em = repo.module(EN)
    members = _members(ctx)
    bw_d = _dict_literal(ctx, EN, "_BITWIDTH_MAP")
    bw = {_dt(k): v.value for k, v in zip(bw_d.keys, bw_d.values) if _dt(k) and isinstance(v, ast.Constant)}
    ctx.tables["bitwidth"] = bw
    want = set(members) - {"UNDEFINED", "STRING"}
    ctx.check("R1", "_BITWIDTH_MAP keys = members − {UNDEFINED, STRING}", set(bw) == want, em, bw_d,
              f"missing {sorted(want - set(bw))}, extra {sorted(set(bw) - want)}", how="set equality",
              symbol=f"{EN}:_BITWIDTH_MAP", construct=f"keys missing={sorted(want - set(bw))} extra={sorted(set(bw) - want)}")
    for name, w in sorted(bw.items()):
        exp = NO_DIGIT.get(name, _first_int(name))
        ctx.check("R1", f"bitwidth[{name}] = {w} agrees with the member name", exp == w, em, bw_d,
                  f"_BITWIDTH_MAP[{name}] is {w} but the ONNX name implies {exp}",
                  how="first integer of the member name (FLOAT/DOUBLE/BOOL from a 3-entry table)",
                  symbol=f"{EN}:_BITWIDTH_MAP", construct=f"bitwidth {name}={w}")
    # numpy map
    np_d = _dict_literal(ctx, EN, "_NP_TYPE_TO_DATA_TYPE")
    np_map: dict[str, str] = {}
    seen_vals: dict[str, str] = {}
    for k, v in zip(np_d.keys, np_d.values):
        dtn = _dt(v)
        kn = None
        if isinstance(k, ast.Call) and k.args:
            a = k.args[0]
            kn = a.value if isinstance(a, ast.Constant) else dotted_of(a)
        ctx.require(dtn is not None and kn is not None, "_NP_TYPE_TO_DATA_TYPE entry not recognised")
        ctx.check("R1", f"numpy map injective at {dtn}", dtn not in seen_vals or dtn == "STRING", em, np_d,
                  f"{dtn} is the image of both {seen_vals.get(dtn)} and {kn}: the inverse map loses one",
                  how="value occurs once", symbol=f"{EN}:_NP_TYPE_TO_DATA_TYPE", construct=f"duplicate value {dtn}")
        seen_vals[dtn] = kn
        np_map[dtn] = kn
        if dtn in bw and kn != "object":
            base = kn.split(".")[-1]
            exp = NP_NO_DIGIT.get(base, _first_int(base))
            ctx.check("R1", f"numpy type {kn} ↔ {dtn}: width {exp}", exp == bw[dtn], em, np_d,
                      f"{dtn} ({bw[dtn]} bits) is mapped to numpy type {kn} ({exp} bits)",
                      how="first integer of the dtype name", symbol=f"{EN}:_NP_TYPE_TO_DATA_TYPE", construct=f"np {dtn}->{kn}")
            sign_ok = True
            if base.startswith("uint") != dtn.startswith("UINT") and (base.startswith(("int", "uint")) or dtn.startswith(("INT", "UINT"))):
                sign_ok = False
            if base.startswith(("float", "bfloat")) != ("FLOAT" in dtn or dtn == "DOUBLE"):
                sign_ok = False
            ctx.check("R1", f"numpy type {kn} ↔ {dtn}: kind", sign_ok, em, np_d,
                      f"{dtn} is mapped to a numpy type of another kind ({kn})", how="int/uint/float prefix agreement",
                      symbol=f"{EN}:_NP_TYPE_TO_DATA_TYPE", construct=f"np kind {dtn}->{kn}", nontrivial=False)
    missing = set(members) - {"UNDEFINED"} - set(np_map)
    ctx.check("R1", "numpy map covers every member but UNDEFINED", not missing, em, np_d,
              f"no numpy type for {sorted(missing)}", how="coverage", symbol=f"{EN}:_NP_TYPE_TO_DATA_TYPE",
              construct=f"missing {sorted(missing)}")
    # short names
    sn_d = _dict_literal(ctx, EN, "_DATA_TYPE_TO_SHORT_NAME")
    sn = {_dt(k): v.value for k, v in zip(sn_d.keys, sn_d.values) if _dt(k)}
    ctx.check("R1", "short names total", set(sn) == set(members), em, sn_d,
              f"missing {sorted(set(members) - set(sn))}", how="coverage", symbol=f"{EN}:_DATA_TYPE_TO_SHORT_NAME",
              construct=f"short names missing {sorted(set(members) - set(sn))}")
    ctx.check("R1", "short names injective", len(set(sn.values())) == len(sn), em, sn_d,
              "two members share a short name", how="distinct values", symbol=f"{EN}:_DATA_TYPE_TO_SHORT_NAME",
              construct="duplicate short name")
    for name, s in sorted(sn.items()):
        if name in bw:
            ctx.check("R1", f"short name {s!r} of {name}: width", _first_int(s) == bw[name], em, sn_d,
                      f"short name {s!r} implies {_first_int(s)} bits but {name} has {bw[name]}",
                      how="first integer of the short name", symbol=f"{EN}:_DATA_TYPE_TO_SHORT_NAME",
                      construct=f"short {name}={s}")
            pre = s[0] if not s.startswith("bf") else "f"
            kind = {"f": "FLOAT" in name or name == "DOUBLE", "i": name.startswith("INT"), "u": name.startswith("UINT"),
                    "c": name.startswith("COMPLEX"), "b": name == "BOOL"}.get(pre, False)
            ctx.check("R1", f"short name {s!r} of {name}: kind letter", kind, em, sn_d,
                      f"short name {s!r} has the wrong kind letter for {name}", how="kind prefix", nontrivial=False,
                      symbol=f"{EN}:_DATA_TYPE_TO_SHORT_NAME", construct=f"short kind {name}={s}")
    # partition / signedness
    fl, ffl = _return_set(ctx, f"{EN}:DataType.is_floating_point")
    it, fit = _return_set(ctx, f"{EN}:DataType.is_integer")
    sg, fsg = _return_set(ctx, f"{EN}:DataType.is_signed")
    ctx.check("R1", "is_floating_point ∩ is_integer = ∅", not (fl & it), ffl, ffl.node, f"both: {sorted(fl & it)}", how="disjoint")
    rest = set(members) - fl - it
    ctx.check("R1", "floats ∪ integers ∪ {BOOL,STRING,COMPLEX*,UNDEFINED} = members",
              rest == {"BOOL", "STRING", "COMPLEX64", "COMPLEX128", "UNDEFINED"}, fit, fit.node,
              f"unclassified or misclassified: {sorted(rest ^ {'BOOL', 'STRING', 'COMPLEX64', 'COMPLEX128', 'UNDEFINED'})}",
              how="partition", construct=f"partition rest={sorted(rest)}")
    for name in sorted(members):
        if name.startswith("FLOAT") or name in ("DOUBLE", "BFLOAT16"):
            ctx.check("R1", f"{name} ∈ is_floating_point", name in fl, ffl, ffl.node, f"{name} not classified as float",
                      how="name prefix", construct=f"float {name}", nontrivial=False)
        if re.fullmatch(r"U?INT\d+", name):
            ctx.check("R1", f"{name} ∈ is_integer", name in it, fit, fit.node, f"{name} not classified as integer",
                      how="name prefix", construct=f"int {name}", nontrivial=False)
            ctx.check("R1", f"signedness of {name}", (name in sg) == (not name.startswith("U")), fsg, fsg.node,
                      f"{name} has the wrong signedness", how="INTn signed, UINTn unsigned", construct=f"signed {name}")
    # non-numpy-native set and view dispatch
    core = repo.module("onnx_ir._core")
    nn = _dt_set(core.assigns.get("_NON_NUMPY_NATIVE_TYPES"))
    ctx.require(nn is not None, "_NON_NUMPY_NATIVE_TYPES not recognised")
    ml = {k for k, v in np_map.items() if v.startswith("ml_dtypes.")}
    ctx.check("R1", "_NON_NUMPY_NATIVE_TYPES = members with an ml_dtypes numpy type", nn == ml, core,
              core.assigns["_NON_NUMPY_NATIVE_TYPES"], f"differs by {sorted(nn ^ ml)}", how="set equality",
              symbol="onnx_ir._core:_NON_NUMPY_NATIVE_TYPES", construct=f"differs {sorted(nn ^ ml)}")
    vf = repo.func("onnx_ir._core:_maybe_view_np_array_with_ml_dtypes")
    branches = {}
    for n in own_nodes(vf.node):
        if isinstance(n, ast.If) and isinstance(n.test, ast.Compare) and _dt(n.test.comparators[0]):
            r = [s for s in n.body if isinstance(s, ast.Return)]
            if r and isinstance(r[0].value, ast.Call) and r[0].value.args:
                branches[_dt(n.test.comparators[0])] = dotted_of(r[0].value.args[0])
    # … or the same dispatch driven by a module-level table: `for dt, ty in _TABLE: if dtype == dt: return array.view(ty)`,
    # `array.view(_TABLE[dtype])`, `_TABLE.get(dtype)`
    for n in own_nodes(vf.node):
        tab = None
        if isinstance(n, ast.For) and isinstance(n.iter, (ast.Name, ast.Call)):
            it = n.iter
            if isinstance(it, ast.Call) and isinstance(it.func, ast.Attribute) and it.func.attr == "items":
                it = it.func.value
            if isinstance(it, ast.Name) and any(isinstance(x, ast.Call) and isinstance(x.func, ast.Attribute) and x.func.attr == "view" for st in n.body for x in ast.walk(st)):
                tab = core.assigns.get(it.id)
        elif isinstance(n, ast.Subscript) and isinstance(n.value, ast.Name) and n.value.id in core.assigns:
            tab = core.assigns.get(n.value.id)
        elif isinstance(n, ast.Call) and isinstance(n.func, ast.Attribute) and n.func.attr == "get" and isinstance(n.func.value, ast.Name) and n.func.value.id in core.assigns:
            tab = core.assigns.get(n.func.value.id)
        if isinstance(tab, (ast.Tuple, ast.List)):
            for e in tab.elts:
                if isinstance(e, (ast.Tuple, ast.List)) and len(e.elts) == 2 and _dt(e.elts[0]):
                    branches.setdefault(_dt(e.elts[0]), dotted_of(e.elts[1]))
        elif isinstance(tab, ast.Dict):
            for k, v in zip(tab.keys, tab.values):
                if k is not None and _dt(k):
                    branches.setdefault(_dt(k), dotted_of(v))
    for name in sorted(ml):
        ctx.check("R1", f"view dispatch for {name}", branches.get(name) == np_map[name], vf, vf.node,
                  f"_maybe_view_np_array_with_ml_dtypes views {name} as {branches.get(name)} but the table says {np_map[name]}",
                  how="branch target equals the table's ml_dtypes attribute", construct=f"view {name}->{branches.get(name)}")
    # torch adapter tables
    ta = repo.module("onnx_ir.tensor_adapters")
    fwd, bwd = {}, {}
    for fname, table, is_fwd in (("from_torch_dtype", fwd, True), ("to_torch_dtype", bwd, False)):
        f = repo.func(f"onnx_ir.tensor_adapters:{fname}")
        for n in own_nodes(f.node):
            if isinstance(n, ast.Assign) and isinstance(n.value, ast.Dict):
                for k, v in zip(n.value.keys, n.value.values):
                    t, d = (k, v) if is_fwd else (v, k)
                    table[dotted_of(t)] = _dt(d)
            elif isinstance(n, ast.Assign) and isinstance(n.targets[0], ast.Subscript):
                k, v = n.targets[0].slice, n.value
                t, d = (k, v) if is_fwd else (v, k)
                if dotted_of(t) and _dt(d):
                    table[dotted_of(t)] = _dt(d)
    ctx.require(len(fwd) >= 15 and len(bwd) >= 15, "torch adapter tables not recognised")
    for t in sorted(set(fwd) | set(bwd)):
        ctx.check("R1", f"torch tables agree on {t}", fwd.get(t) == bwd.get(t), ta, ta.tree,
                  f"from_torch_dtype maps {t}→{fwd.get(t)} but to_torch_dtype has {bwd.get(t)}←{t}",
                  how="mutual inverses", symbol="onnx_ir.tensor_adapters:tables", construct=f"torch {t}: {fwd.get(t)} vs {bwd.get(t)}")
        d = fwd.get(t) or bwd.get(t)
        if d in bw:
            base = t.split(".")[-1]
            exp = NP_NO_DIGIT.get(base, _first_int(base))
            ctx.check("R1", f"torch type {t} ↔ {d}: width", exp == bw[d], ta, ta.tree,
                      f"{t} ({exp} bits) paired with {d} ({bw[d]} bits)", how="first integer of the torch dtype name",
                      symbol="onnx_ir.tensor_adapters:tables", construct=f"torch width {t}/{d}", nontrivial=False)
    ctx._shared["bw"] = bw


def _classes(bw):
    by = {}
    for k, v in bw.items():
        if v < 8:
            by.setdefault(v, set()).add(k)
    return by


BYTE_OPS = ("pack_4bitx2", "unpack_4bitx2", "pack_2bitx4", "unpack_2bitx4", "frombuffer", "tobytes", "astype",
            "view", "ExternalTensor", "fromfile", "tofile")  # fmt: skip


def _is_byte_level(f: FuncInfo) -> bool:
    for n in own_nodes(f.node):
        if isinstance(n, ast.Call):
            d = dotted_of(n.func) or (n.func.attr if isinstance(n.func, ast.Attribute) else "")
            if d.split(".")[-1] in BYTE_OPS:
                return True
    return False


def rule_r2(ctx):
    bw = ctx._shared["bw"]
    classes = _classes(bw)
    ctx.tables["sub_byte_classes"] = {str(k): sorted(v) for k, v in classes.items()}
    n = 0
    for f in ctx.repo.all_funcs():
        if not _is_byte_level(f):
            continue
        for node in own_nodes(f.node):
            if not isinstance(node, ast.Compare) or len(node.ops) != 1 or not isinstance(node.ops[0], (ast.In, ast.NotIn)):
                continue
            s = _dt_set(node.comparators[0])
            if not s:
                continue
            # only guards (if / assert / while tests), not `return x in {…}` classifiers
            p = getattr(node, "_parent", None)
            while isinstance(p, (ast.BoolOp, ast.UnaryOp)):
                p = getattr(p, "_parent", None)
            if not isinstance(p, (ast.If, ast.Assert, ast.While, ast.IfExp)):
                continue
            for width, cls in classes.items():
                if s & cls:
                    n += 1
                    ctx.check("R2", f"{f.key}: guard {{{', '.join(sorted(s))[:60]}}} vs {width}-bit class", cls <= s, f, node,
                              f"storage guard names {sorted(s & cls)} but not {sorted(cls - s)} of the {width}-bit class: "
                              "the missing type takes the wrong byte-level path",
                              how="class derived from _BITWIDTH_MAP ⊆ guard set",
                              construct=f"guard missing {sorted(cls - s)} of {width}-bit class")
    ctx.require(n >= 4, "fewer than 4 sub-byte storage guards found")


def _polar_width_guard(test: ast.AST, bw):
    """(widths, positive): the guard is a width test W written positively (`x in S`, `bitwidth == k`) or negated (`x not in S`,
    `not (…)`, `!=`): in the positive form its true branch admits W and its false branch excludes W; negated, the other way round."""
    t, positive = test, True
    while isinstance(t, ast.UnaryOp) and isinstance(t.op, ast.Not):
        t, positive = t.operand, not positive
    if isinstance(t, ast.Compare) and len(t.ops) == 1 and isinstance(t.ops[0], (ast.NotIn, ast.NotEq)):
        flipped = ast.Compare(left=t.left, ops=[ast.In() if isinstance(t.ops[0], ast.NotIn) else ast.Eq()], comparators=t.comparators)
        ast.copy_location(flipped, t)
        t, positive = flipped, not positive
    return _width_of_guard(t, bw), positive


def _width_of_guard(test: ast.AST, bw, negated=False) -> set[int] | None:
    """Set of bit widths a (true) guard admits; None if it says nothing about width."""
    if isinstance(test, ast.BoolOp) and isinstance(test.op, ast.And):
        out = None
        for v in test.values:
            w = _width_of_guard(v, bw)
            if w is not None:
                out = w if out is None else out & w
        return out
    if isinstance(test, ast.Compare) and len(test.ops) == 1:
        l, r = test.left, test.comparators[0]
        if norm(l).endswith(".bitwidth") and isinstance(test.ops[0], ast.Eq) and isinstance(r, ast.Constant):
            return {r.value}
        if norm(l).endswith(".bitwidth") and isinstance(test.ops[0], ast.In) and isinstance(r, (ast.Tuple, ast.Set, ast.List)):
            return {e.value for e in r.elts if isinstance(e, ast.Constant)}
        if isinstance(test.ops[0], ast.In):
            s = _dt_set(r)
            if s and all(x in bw for x in s):
                return {bw[x] for x in s}
        if isinstance(test.ops[0], ast.Eq) and _dt(r) in bw:
            return {bw[_dt(r)]}
    return None


def _strip_not(t):
    while isinstance(t, ast.UnaryOp) and isinstance(t.op, ast.Not):
        t = t.operand
    return t


def _exact_width_guard(test: ast.AST) -> bool:
    """The guard is false exactly when the width is outside the admitted set (a single comparison, no conjunction
    with other conditions), so that its else branch excludes those widths."""
    return isinstance(test, ast.Compare)


def _class_universe(fn_node, bw) -> set[int] | None:
    """Widths a class admits at all: `if dtype.bitwidth not in (2, 4): raise` in its __init__."""
    cls = getattr(fn_node, "_parent", None)
    if not isinstance(cls, ast.ClassDef):
        return None
    for s in cls.body:
        if isinstance(s, ast.FunctionDef) and s.name == "__init__":
            for n in ast.walk(s):
                if isinstance(n, ast.If) and any(isinstance(x, ast.Raise) for x in n.body) and isinstance(n.test, ast.Compare) \
                        and len(n.test.ops) == 1 and isinstance(n.test.ops[0], ast.NotIn) and norm(n.test.left).endswith(".bitwidth") \
                        and isinstance(n.test.comparators[0], (ast.Tuple, ast.Set, ast.List)):
                    return {e.value for e in n.test.comparators[0].elts if isinstance(e, ast.Constant)}
    return None


def _controlling_widths(node: ast.AST, bw) -> set[int] | None:
    """Widths the dtype can have where `node` runs: intersection of the enclosing if-guards (true branches), minus the
    widths handled by earlier `if <width guard>: return/raise` statements of the same block when the class bounds
    the admissible widths in its constructor."""
    out = None
    asserted = None
    excluded: set[int] = set()
    child = node
    p = getattr(node, "_parent", None)
    fn = None
    while p is not None:
        if isinstance(p, (ast.FunctionDef, ast.AsyncFunctionDef)):
            fn = p
        body = None
        for fld in ("body", "orelse", "finalbody"):
            b = getattr(p, fld, None)
            if isinstance(b, list) and child in b:
                body = b
        if body is not None:
            for s in body[: body.index(child)]:
                if isinstance(s, ast.If) and not s.orelse and s.body and isinstance(s.body[-1], (ast.Return, ast.Raise)):
                    w = _width_of_guard(s.test, bw)
                    if w is not None and _exact_width_guard(s.test):
                        excluded |= w
                elif isinstance(s, ast.Assert):
                    # a stated belief about the width: it bounds the widths only where nothing else does (a free-standing
                    # helper); where guards or the class bound them, the belief has to agree with them, not replace them
                    w = _width_of_guard(s.test, bw)
                    if w is not None:
                        asserted = w if asserted is None else asserted & w
        if fn is not None:
            break
        if isinstance(p, ast.If) and (child in p.body or child in p.orelse):
            w, positive = _polar_width_guard(p.test, bw)
            in_true_arm = (child in p.body) == positive  # the arm in which the (positive) width test holds
            if w is not None and in_true_arm and (positive or _exact_width_guard(_strip_not(p.test))):
                out = w if out is None else out & w
            elif w is not None and not in_true_arm and _exact_width_guard(_strip_not(p.test)):
                # the arm where an exact width test fails: the widths it names are excluded
                excluded |= w
        child = p
        p = getattr(p, "_parent", None)
    if out is None and excluded and fn is not None:
        uni = _class_universe(fn, bw)
        if uni is not None:
            out = set(uni)
    if out is None and asserted is not None and (fn is None or _class_universe(fn, bw) is None):
        out = set(asserted)
    if out is not None:
        out = out - excluded
    return out


def rule_r3(ctx):
    bw = ctx._shared["bw"]
    want = {"pack_4bitx2": 4, "unpack_4bitx2": 4, "pack_2bitx4": 2, "unpack_2bitx4": 2}
    for f in ctx.repo.all_funcs():
        if f.module.name == "onnx_ir._type_casting":
            continue
        for c in calls_in(f):
            name = (dotted_of(c.func) or "").split(".")[-1]
            if name not in want:
                continue
            w = _controlling_widths(c, bw)
            ok = w == {want[name]}
            ctx.check("R3", f"{f.key}: {name}(…) under a width-{want[name]} guard", ok, f, c,
                      f"{name} is called where the dtype's bit width is {'unconstrained' if w is None else sorted(w)}, "
                      f"not exactly {want[name]}: other packed widths are decoded with the wrong helper",
                      how="widths admitted by the enclosing if-guards (bitwidth == k / membership in a DataType set)")


_R4_EXAMPLE = """
def _load(self):
    if self.dtype in {DataType.INT4, DataType.UINT4, DataType.FLOAT4E2M1, DataType.INT2, DataType.UINT2}:
        count = self.size // 2 + self.size % 2
    if self.dtype.bitwidth == 4:
        good = self.size // 2
"""


def _scan_r4(fn_node, bw):
    """[(node, admitted widths, literal factor, ok)] for element-count arithmetic under a sub-byte guard."""
    from ..index import own_nodes as _own

    out = []
    for node in _own(fn_node):
        if not (isinstance(node, ast.BinOp) and isinstance(node.op, (ast.FloorDiv, ast.Mod, ast.Mult))):
            continue
        if not (isinstance(node.right, ast.Constant) and node.right.value in (2, 4)):
            continue
        if "size" not in norm(node.left) and "numel" not in norm(node.left) and "count" not in norm(node.left):
            continue
        w = _controlling_widths(node, bw)
        if w is None or not any(x < 8 for x in w):
            continue
        per_byte = {8 // x for x in w if x < 8}
        out.append((node, w, node.right.value, per_byte == {node.right.value}))
    return out


def rule_r4(ctx):
    bw = ctx._shared["bw"]
    # the rule's expected number of instances on a correct tree is zero: keep a built-in positive example so the
    # detector is exercised on every run
    from ..index import set_parents

    ex = ast.parse(_R4_EXAMPLE)
    set_parents(ex)
    got = _scan_r4(ex.body[0], bw)
    ctx.require(len(got) == 3 and [ok for _, _, _, ok in got].count(False) == 2,
                "R4 detector does not recognise its built-in positive example")
    ctx.ob("R4", "built-in positive example: mixed 2/4-bit guard with `size // 2` is detected, homogeneous guard accepted", True,
           how="detector self-check on an in-memory snippet")
    for f in ctx.repo.all_funcs():
        if f.module.name == "onnx_ir._type_casting":
            continue
        for node, w, k, ok in _scan_r4(f.node, bw):
            per_byte = {8 // x for x in w if x < 8}
            ctx.check("R4", f"{f.key}: {norm(node)} under widths {sorted(w)}", ok, f, node,
                      f"element count is scaled by {k} under a guard admitting {sorted(w)}-bit types "
                      f"({sorted(per_byte)} elements per byte): wrong byte count for some of them",
                      how="elements-per-byte of every admitted width equals the literal factor")
    # sub-byte readers that size their buffer from nbytes are width-agnostic: record them.  The read size is whatever
    # flows into the `count=` argument of the buffer read (np.frombuffer / np.fromfile); its definitions under a guard
    # admitting sub-byte widths must mention .nbytes or be width-homogeneous arithmetic.
    et = ctx.repo.func("onnx_ir._core:ExternalTensor._load")
    reads = [c for c in ast.walk(et.node) if isinstance(c, ast.Call) and (dotted_of(c.func) or "").split(".")[-1] in ("frombuffer", "fromfile")]
    ctx.require(bool(reads), "ExternalTensor._load: buffer read (np.frombuffer) not found")
    ok, seen = True, 0
    for c in reads:
        cnt = next((k.value for k in c.keywords if k.arg == "count"), c.args[2] if len(c.args) > 2 else None)
        defs = [cnt] if cnt is not None and not isinstance(cnt, ast.Name) else []
        if isinstance(cnt, ast.Name):
            defs = _defs_of(et.node, cnt.id)
        for d in defs:
            w = _controlling_widths(d, bw)
            if w is None or not any(x < 8 for x in w):
                continue
            seen += 1
            uses_nbytes = any(isinstance(x, ast.Attribute) and x.attr == "nbytes" for x in ast.walk(d))
            homogeneous = [r for r in _scan_r4(et.node, bw) if any(r[0] is y for y in ast.walk(d))]
            ok = ok and (uses_nbytes or (bool(homogeneous) and all(r[3] for r in homogeneous)))
    ctx.check("R4", "ExternalTensor._load sizes the packed read from nbytes or a width-homogeneous expression",
              ok and seen >= 1, et, et.node,
              "the packed byte count of an external sub-byte tensor is not derived from its bit width",
              how="definitions of the buffer read's `count=` argument under the sub-byte guard", nontrivial=True)


def _defs_of(fn_node, name: str) -> list:
    """Expressions a local is bound to: plain assignments, and the matching element of `a, b = (x, y)`."""
    out = []
    for n in ast.walk(fn_node):
        if not isinstance(n, ast.Assign):
            continue
        for t in n.targets:
            if isinstance(t, ast.Name) and t.id == name:
                out.append(n.value)
            elif isinstance(t, (ast.Tuple, ast.List)):
                for i, el in enumerate(t.elts):
                    if isinstance(el, ast.Name) and el.id == name:
                        v = n.value
                        out.append(v.elts[i] if isinstance(v, (ast.Tuple, ast.List)) and len(v.elts) == len(t.elts) else v)
    return out


def _field_sets(f: FuncInfo):
    """storage field -> dtype names accepted, from the `if self._proto.<field>:` chain."""
    out: dict[str, set[str]] = {}
    for n in own_nodes(f.node):
        if not isinstance(n, ast.If):
            continue
        t = norm(n.test)
        m = re.fullmatch(r"self\._proto\.(\w+_data)", t)
        if not m:
            continue
        fld = m.group(1)
        acc: set[str] = set()
        for x in ast.walk(n):
            if isinstance(x, ast.Compare):
                s = _dt_set(x.comparators[0])
                if s:
                    acc |= s
                elif _dt(x.comparators[0]):
                    acc.add(_dt(x.comparators[0]))
                elif isinstance(x.comparators[0], ast.Name) and x.comparators[0].id in f.module.assigns:
                    acc |= _table_keys(f.module.assigns[x.comparators[0].id])
            elif isinstance(x, ast.Call) and isinstance(x.func, ast.Attribute) and x.func.attr == "get" and isinstance(x.func.value, ast.Name) and x.func.value.id in f.module.assigns:
                # a module-level table looked the dtype up in: its keys are the accepted dtypes
                acc |= _table_keys(f.module.assigns[x.func.value.id])
            elif isinstance(x, ast.Subscript) and isinstance(x.value, ast.Name) and x.value.id in f.module.assigns and isinstance(f.module.assigns[x.value.id], ast.Dict):
                acc |= _table_keys(f.module.assigns[x.value.id])
        out[fld] = acc
    return out


def _table_keys(e) -> set[str]:
    """DataType names that are the keys of a dict display / the members of a set, tuple or frozenset(...) display."""
    if isinstance(e, ast.Dict):
        return {_dt(k) for k in e.keys if k is not None and _dt(k)}
    s = _dt_set(e)
    return set(s) if s else set()


def rule_r5(ctx):
    repo = ctx.repo
    c = repo.cls("onnx_ir.serde:TensorProtoTensor")
    fn, ft = c.methods.get("numpy"), c.methods.get("tobytes")
    ctx.require(fn is not None and ft is not None, "TensorProtoTensor.numpy/tobytes not found")
    a, b = _field_sets(fn), _field_sets(ft)
    implied = {"float_data": {"FLOAT", "COMPLEX64"}, "double_data": {"DOUBLE", "COMPLEX128"}, "int64_data": {"INT64"}}
    ctx.require(len(a) >= 5 and len(b) >= 5, "storage-field chains not recognised")
    for fld in sorted(set(a) | set(b)):
        sa, sb = a.get(fld, set()), b.get(fld, set())
        # a decoder with no explicit set accepts the field's natural types
        sa2 = sa or implied.get(fld, set())
        sb2 = sb or implied.get(fld, set())
        if fld in implied:
            sb2 = sb2 | (implied[fld] if not sb else set())
        ok = (fld in a) == (fld in b) and (sa2 == sb2 or (not sb and sa2 == implied.get(fld)) or (fld in implied and sb2 <= sa2))
        ctx.check("R5", f"TensorProtoTensor {fld}: numpy ⟷ tobytes dtype sets", ok, ft, ft.node,
                  f"numpy() accepts {sorted(sa2)} from {fld} but tobytes() handles {sorted(sb2)}",
                  how="dtype sets named in the two decoders' branches for the same storage field",
                  construct=f"{fld}: numpy={sorted(sa2)} tobytes={sorted(sb2)}")
    # tobytes / tofile builders
    for ck in ("onnx_ir._core:Tensor", "onnx_ir._core:PackedTensor"):
        k = repo.cls(ck)
        tb, tf = k.methods.get("tobytes"), k.methods.get("tofile")
        ctx.require(tb is not None and tf is not None, f"{ck}.tobytes/tofile not found")

        def builders(f):
            out = set()
            for call in calls_in(f):
                d = dotted_of(call.func) or ""
                if d.startswith("_create_np_array") or d.endswith(("numpy_packed", "tobytes")) and d.startswith("self."):
                    out.add(d)
            return out

        bb, bf = builders(tb), builders(tf)
        core_b = {x for x in bb if x != "self.tobytes"}
        ok = bool(core_b) and core_b <= bf and ("self.tobytes" in bf)
        ctx.check("R5", f"{k.name}.tofile uses {sorted(core_b)} like tobytes (and falls back to tobytes)", ok, tf, tf.node,
                  f"tobytes builds bytes with {sorted(bb)} but tofile with {sorted(bf)}",
                  how="byte builders called by both siblings", construct=f"builders tobytes={sorted(bb)} tofile={sorted(bf)}")
        # endianness handling identical
        def le(f):
            """The byte-order conversions of f: `<x>.astype(<x>.dtype.newbyteorder('<'))` on the big-endian side of an
            `_IS_LITTLE_ENDIAN` test (either polarity, any local names)."""
            out = []
            for n in own_nodes(f.node):
                if not (isinstance(n, ast.If) and "_IS_LITTLE_ENDIAN" in norm(n.test)):
                    continue
                neg = isinstance(n.test, ast.UnaryOp) and isinstance(n.test.op, ast.Not)
                side = list(n.body if neg else n.orelse)
                if not neg and n.body and isinstance(n.body[-1], ast.Return):
                    # `if _IS_LITTLE_ENDIAN: return x` - what follows in the block is the big-endian side
                    blk = next((b for b in (getattr(getattr(n, "_parent", None), fld, None) for fld in ("body", "orelse", "finalbody"))
                                if isinstance(b, list) and n in b), [])
                    side += blk[blk.index(n) + 1 :] if n in blk else []
                for st in side:
                    for c in ast.walk(st):
                        if isinstance(c, ast.Call) and isinstance(c.func, ast.Attribute) and c.func.attr == "astype" and "newbyteorder('<')" in norm(c):
                            out.append("astype(dtype.newbyteorder('<')) when not _IS_LITTLE_ENDIAN")
            return sorted(set(out))
        helper = repo.func("onnx_ir._core:_create_np_array_for_byte_representation")
        if ck.endswith(":Tensor"):
            ctx.check("R5", "Tensor byte builder normalises endianness", bool(le(helper)), helper, helper.node,
                      "byte builder does not convert to little endian", nontrivial=False)
        else:
            ctx.check("R5", "PackedTensor.tobytes/tofile normalise endianness alike", le(tb) == le(tf) and bool(le(tb)), tf, tf.node,
                      "tobytes and tofile differ in endianness handling", nontrivial=False)


def rule_r6(ctx):
    repo = ctx.repo
    for name, K in (("pack_4bitx2", 4), ("unpack_4bitx2", 4), ("pack_2bitx4", 2), ("unpack_2bitx4", 2)):
        f = repo.func(f"onnx_ir._type_casting:{name}")
        per = 8 // K
        masks, shifts, strides, mods = [], [], [], []
        for n in ast.walk(_unrolled(f.node)):
            if isinstance(n, (ast.BinOp, ast.AugAssign)) and isinstance(n.op, ast.BitAnd):
                v = n.right if isinstance(n, ast.BinOp) else n.value
                c = _const(v)
                if c is not None:
                    masks.append((c, n))
            if isinstance(n, (ast.BinOp, ast.AugAssign)) and isinstance(n.op, (ast.LShift, ast.RShift)):
                v = n.right if isinstance(n, ast.BinOp) else n.value
                c = _const(v)
                if c is not None and c != 0:  # a shift by 0 is the identity (lane 0 of a loop over the lanes)
                    shifts.append((c, n))
            if isinstance(n, ast.Slice) and n.step is not None and _const(n.step) is not None:
                strides.append((_const(n.step), n, _const(n.lower) or 0))
            if isinstance(n, ast.BinOp) and isinstance(n.op, ast.Mod) and _const(n.right) is not None:
                mods.append((_const(n.right), n))
            if isinstance(n, ast.BinOp) and isinstance(n.op, ast.Mult) and _const(n.right) is not None and "size" in norm(n.left):
                mods.append((_const(n.right), n))
        ctx.require(masks and strides, f"{name}: literal masks/strides not found (helper no longer uses literals)")
        base = (1 << K) - 1
        for c, n in masks:
            ok = any(c == base << s for s in range(0, 8, K))
            ctx.check("R6", f"{name}: mask {c:#x}", ok, f, n, f"mask {c:#x} is not {base:#x} shifted by a multiple of {K}",
                      how="(1<<K)-1 << jK", construct=f"mask {c:#x}")
        for c, n in shifts:
            ok = c % K == 0 and 0 < c < 8
            ctx.check("R6", f"{name}: shift {c}", ok, f, n, f"shift by {c} is not a multiple of {K} below 8", how="jK, 0<j<8/K",
                      construct=f"shift {c}")
        for c, n, lo in strides:
            ok = c == per and 0 <= lo < per
            ctx.check("R6", f"{name}: stride [{lo}::{c}]", ok, f, n, f"slice stride {c} (offset {lo}) is not {per} elements per byte",
                      how="8/K", construct=f"stride {lo}::{c}")
        for c, n in mods:
            ctx.check("R6", f"{name}: factor {c} in {norm(n)[:30]}", c == per, f, n, f"padding/size factor {c} is not {per}",
                      how="8/K", construct=f"factor {c} in {norm(n)[:40]}")
        # each shift amount used with the matching slice offset / mask
        offs = sorted({lo for _, _, lo in strides})
        ctx.check("R6", f"{name}: all {per} lanes handled", offs == list(range(per)), f, f.node,
                  f"lanes handled: {offs}, expected {list(range(per))}", how="slice offsets 0..8/K-1", construct=f"lanes {offs}")
        used = sorted({c for c, _ in shifts})
        ctx.check("R6", f"{name}: shifts cover lanes 1..{per - 1}", used == [K * j for j in range(1, per)], f, f.node,
                  f"shift amounts {used}, expected {[K * j for j in range(1, per)]}", how="one shift per upper lane",
                  construct=f"shifts {used}")


class _Fold(ast.NodeTransformer):
    """Substitutes integer constants for names and folds integer arithmetic on constants."""

    def __init__(self, env):
        self.env = env

    def visit_Name(self, node):
        if isinstance(node.ctx, ast.Load) and node.id in self.env:
            return ast.copy_location(ast.Constant(value=self.env[node.id]), node)
        return node

    def visit_BinOp(self, node):
        self.generic_visit(node)
        l, r = node.left, node.right
        if isinstance(l, ast.Constant) and isinstance(r, ast.Constant) and isinstance(l.value, int) and isinstance(r.value, int) \
                and not isinstance(l.value, bool) and not isinstance(r.value, bool):
            try:
                v = {ast.Add: lambda a, b: a + b, ast.Sub: lambda a, b: a - b, ast.Mult: lambda a, b: a * b, ast.LShift: lambda a, b: a << b if 0 <= b < 64 else None,
                     ast.RShift: lambda a, b: a >> b if 0 <= b < 64 else None, ast.BitOr: lambda a, b: a | b, ast.BitAnd: lambda a, b: a & b,
                     ast.FloorDiv: lambda a, b: a // b if b else None}.get(type(node.op), lambda a, b: None)(l.value, r.value)
            except Exception:
                v = None
            if v is not None:
                return ast.copy_location(ast.Constant(value=v), node)
        return node


def _unrolled(fn_node):
    """A copy of the function in which every `for v in range(<constants>)` loop (at most 16 iterations) is replaced by its
    iterations with v written out and integer arithmetic folded: `for lane in range(1, 4): x[lane::4] <<= 2 * lane` reads as the
    three statements it performs."""
    import copy

    tree = copy.deepcopy(fn_node)

    class Unroll(ast.NodeTransformer):
        def visit_For(self, node):
            self.generic_visit(node)
            it = node.iter
            if isinstance(node.target, ast.Name) and isinstance(it, ast.Call) and isinstance(it.func, ast.Name) and it.func.id == "range" and not node.orelse \
                    and 1 <= len(it.args) <= 3 and all(isinstance(a, ast.Constant) and isinstance(a.value, int) for a in it.args):
                vals = list(range(*[a.value for a in it.args]))
                if len(vals) <= 16 and not any(isinstance(x, (ast.Break, ast.Continue)) for st in node.body for x in ast.walk(st)):
                    out = []
                    for v in vals:
                        env = {node.target.id: v}
                        for st in node.body:
                            st2 = _Fold(env).visit(copy.deepcopy(st))
                            out.append(st2)
                            # a local bound to a constant of this iteration (`shift = 2 * lane`) is written out below it
                            if isinstance(st2, ast.Assign) and len(st2.targets) == 1 and isinstance(st2.targets[0], ast.Name):
                                if isinstance(st2.value, ast.Constant) and isinstance(st2.value.value, int):
                                    env[st2.targets[0].id] = st2.value.value
                                else:
                                    env.pop(st2.targets[0].id, None)
                    return out or [ast.Pass()]
            return node

    tree = Unroll().visit(tree)
    return _Fold({}).visit(tree)


def _const(e):
    if e is None:
        return None
    if isinstance(e, ast.Constant) and isinstance(e.value, int):
        return e.value
    if isinstance(e, ast.Call) and e.args and isinstance(e.args[0], ast.Constant) and isinstance(e.args[0].value, int):
        if (dotted_of(e.func) or "").startswith("np."):
            return e.args[0].value
    return None


# calls whose *result content* depends on the order argument (astype/copy/np.array only choose a memory layout)
ORDER_SENSITIVE = {"ravel", "flatten", "reshape", "tobytes", "resize"}
R7_MODULES = ("onnx_ir._type_casting", "onnx_ir._core", "onnx_ir.serde", "onnx_ir.tensor_adapters", "onnx_ir.external_data",
              "onnx_ir._convenience._constructors", "onnx_ir._safetensors")


def rule_r7(ctx, rule="R7", consequence=""):
    n_sites = 0
    for mn in R7_MODULES:
        m = ctx.repo.modules.get(mn)
        ctx.require(m is not None, f"module {mn} not found")
        for f in m.all_funcs:
            for c in own_nodes(f.node):
                if not isinstance(c, ast.Call):
                    continue
                name = c.func.attr if isinstance(c.func, ast.Attribute) else (c.func.id if isinstance(c.func, ast.Name) else None)
                if name not in ORDER_SENSITIVE:
                    continue
                n_sites += 1
                kw = [k for k in c.keywords if k.arg == "order"]
                # positional order argument: ravel(order) / flatten(order) / tobytes(order)
                pos = c.args[0] if name in ("ravel", "flatten", "tobytes") and isinstance(c.func, ast.Attribute) and c.args else None
                val = kw[0].value if kw else pos
                ok = val is None or (isinstance(val, ast.Constant) and val.value in ("C", None))
                ctx.check(rule, f"{f.local}: {short(norm(c))} is row-major", ok, f, c,
                          f"`{short(norm(c))}` takes the elements in memory/column order (order={norm(val) if val is not None else ''}): for an "
                          "array whose axes are permuted in memory (a transpose, Fortran order) the flattened elements - and the "
                          "packed bytes built from them - are those of a different logical tensor than numpy()/shape report" + consequence,
                          how="order argument of the array call is absent or the constant 'C'", nontrivial=val is not None,
                          construct=short(norm(c)))
    ctx.require(n_sites >= 30, f"only {n_sites} order-sensitive array calls found on the tensor byte paths")


def _taints(f, e, dst_handle: str, depth=0, seen=None) -> set[str]:
    """{'SRC','DST'} taints of expression e through the locals of f."""
    seen = seen if seen is not None else set()
    out = set()
    for x in ast.walk(e):
        if isinstance(x, ast.Attribute) and x.attr in ("_offset", "offset") and norm(x.value) == f.params[0]:
            out.add("SRC")
        if isinstance(x, ast.Call) and isinstance(x.func, ast.Attribute) and x.func.attr == "tell" and norm(x.func.value) == dst_handle:
            out.add("DST")
        if isinstance(x, ast.Name) and x.id not in seen and depth < 4:
            seen.add(x.id)
            for n in own_nodes(f.node):
                if isinstance(n, (ast.Assign, ast.AnnAssign)) and getattr(n, "value", None) is not None:
                    tg = n.targets if isinstance(n, ast.Assign) else [n.target]
                    if any(isinstance(t, ast.Name) and t.id == x.id for t in tg):
                        out |= _taints(f, n.value, dst_handle, depth + 1, seen)
                    # `a, b = (x, y)` binds element-wise (what `a, b = helper()` leaves once a pair-returning helper is expanded)
                    for t in tg:
                        if isinstance(t, (ast.Tuple, ast.List)):
                            for i, el in enumerate(t.elts):
                                if isinstance(el, ast.Name) and el.id == x.id:
                                    v = n.value
                                    if isinstance(v, (ast.Tuple, ast.List)) and len(v.elts) == len(t.elts):
                                        v = v.elts[i]
                                    out |= _taints(f, v, dst_handle, depth + 1, seen)
    return out


def rule_r8(ctx):
    f = ctx.repo.func("onnx_ir._core:ExternalTensor.tofile")
    ctx.require(len(f.params) >= 2, "ExternalTensor.tofile: destination parameter not found")
    dst = f.params[1]
    srcs = {it.optional_vars.id for w in own_nodes(f.node) if isinstance(w, ast.With) for it in w.items
            if isinstance(it.optional_vars, ast.Name) and isinstance(it.context_expr, ast.Call) and dotted_of(it.context_expr.func) == "open"}
    ctx.require(bool(srcs), "ExternalTensor.tofile: source handle (with open(...) as …) not found")
    sites = []
    for c in (x for x in own_nodes(f.node) if isinstance(x, ast.Call)):
        if isinstance(c.func, ast.Attribute) and c.func.attr == "seek" and c.args:
            recv = norm(c.func.value)
            if recv == dst:
                sites.append((c, c.args[0], "DST", f"{dst}.seek"))
            elif recv in srcs:
                sites.append((c, c.args[0], "SRC", f"{recv}.seek"))
        for k in c.keywords:
            if k.arg == "offset_dst":
                sites.append((c, k.value, "DST", "offset_dst="))
            elif k.arg == "offset_src":
                sites.append((c, k.value, "SRC", "offset_src="))
    for c, e, want, label in sites:
        t = _taints(f, e, dst)
        other = "SRC" if want == "DST" else "DST"
        ok = want in t and other not in t
        ctx.check("R8", f"ExternalTensor.tofile: {label}({norm(e)}) is a {'destination' if want == 'DST' else 'source'} position", ok, f, c,
                  f"`{norm(e)}` is used as a position of the {'destination' if want == 'DST' else 'source'} but derives from "
                  f"{'the tensor offset in its data file' if want == 'DST' else 'the destination position'} "
                  f"(taints {sorted(t)}): after tofile() the {'destination file position' if want == 'DST' else 'source read position'} is wrong, so "
                  "whatever is written next lands at the wrong place",
                  how="data dependence of the position argument: self.offset (source) vs <destination>.tell() (destination)",
                  construct=f"{label} {norm(e)}")
    ctx.require(len(sites) >= 4, f"only {len(sites)} position arguments found in ExternalTensor.tofile")


def rule_r9(ctx, rule="R9", consequence=""):
    cls = ctx.repo.cls("onnx_ir._core:ExternalTensor")
    maps, positions = [], []
    for f in ctx.repo.live(cls.methods.values()):
        me = f.params[0] if f.params else "self"
        # the mapping itself or a local bound to it
        raw_names = {f"{me}.raw"} | {a.targets[0].id for a in own_nodes(f.node) if isinstance(a, ast.Assign) and isinstance(a.targets[0], ast.Name)
                                    and norm(a.value) == f"{me}.raw"}
        for n in own_nodes(f.node):
            if isinstance(n, ast.Call) and dotted_of(n.func) == "mmap.mmap":
                maps.append((f, n))
            if isinstance(n, ast.Call) and (dotted_of(n.func) or "").split(".")[-1] == "frombuffer" and n.args and norm(n.args[0]) in raw_names:
                off = next((k.value for k in n.keywords if k.arg == "offset"), None)
                if off is not None:
                    positions.append((f, n, off, "frombuffer offset="))
            if isinstance(n, ast.Subscript) and norm(n.value) in raw_names and isinstance(n.slice, ast.Slice):
                for part, label in ((n.slice.lower, "slice start"), (n.slice.upper, "slice end")):
                    if part is not None:
                        positions.append((f, n, part, label))
    ctx.require(len(maps) == 1, f"ExternalTensor: {len(maps)} mmap.mmap calls found (expected 1)")
    ctx.require(len(positions) >= 2, "ExternalTensor: positions into self.raw not found")
    mf, mc = maps[0]
    length = mc.args[1] if len(mc.args) > 1 else next((k.value for k in mc.keywords if k.arg == "length"), None)
    moff = next((k.value for k in mc.keywords if k.arg == "offset"), mc.args[5] if len(mc.args) > 5 else None)
    whole = (moff is None or (isinstance(moff, ast.Constant) and moff.value == 0)) and isinstance(length, ast.Constant) and length.value == 0
    # names that carry the window base (when the mapping is windowed)
    base_names = set()
    if not whole and moff is not None:
        base_names = {x.id for x in ast.walk(moff) if isinstance(x, ast.Name)} | {norm(x) for x in ast.walk(moff) if isinstance(x, ast.Attribute)}
        for n in own_nodes(mf.node):
            if isinstance(n, ast.Assign) and isinstance(n.targets[0], ast.Attribute) and norm(n.targets[0].value) == mf.params[0] \
                    and any(isinstance(x, ast.Name) and x.id in base_names for x in ast.walk(n.value)):
                base_names.add(norm(n.targets[0]))
    for f, node, e, label in positions:
        t = _taints(f, e, "<none>")
        if whole:
            ok = "SRC" in t and not any(isinstance(x, ast.BinOp) and isinstance(x.op, ast.Sub) for x in ast.walk(e))
            why = "the file is mapped from byte 0, so positions are absolute file offsets"
        else:
            mentions = {x.id for x in ast.walk(e) if isinstance(x, ast.Name)} | {norm(x) for x in ast.walk(e) if isinstance(x, ast.Attribute)}
            # through locals of the same function
            for n in own_nodes(f.node):
                if isinstance(n, ast.Assign) and isinstance(n.targets[0], ast.Name) and n.targets[0].id in mentions:
                    mentions |= {x.id for x in ast.walk(n.value) if isinstance(x, ast.Name)} | {norm(x) for x in ast.walk(n.value) if isinstance(x, ast.Attribute)}
            ok = bool(mentions & base_names) and (f is mf or any(b.startswith(f"{f.params[0]}.") for b in mentions & base_names))
            why = f"the mapping starts at the window base `{norm(moff)}`, so every position must be taken relative to it"
        ctx.check(rule, f"{f.local}: {label} `{norm(e)}` uses the mapping's coordinate system", ok, f, node,
                  f"`{norm(e)}` indexes self.raw in a different coordinate system than the mapping ({why}): the bytes read here "
                  "are not the tensor's bytes (numpy() and tobytes() disagree, or the slice is empty/truncated)" + consequence,
                  how="mmap base (0 / window offset) vs data dependence of every frombuffer offset and raw slice bound",
                  construct=f"{label} {norm(e)}")


def rule_r10(ctx):
    m = ctx.repo.module("onnx_ir.tensor_adapters")
    n = 0
    for f in m.all_funcs:
        if isinstance(f.node, ast.Lambda):
            continue
        # names bound to a storage object
        storages = {a.targets[0].id for a in own_nodes(f.node) if isinstance(a, ast.Assign) and isinstance(a.targets[0], ast.Name)
                    and isinstance(a.value, ast.Call) and isinstance(a.value.func, ast.Attribute) and a.value.func.attr in ("untyped_storage", "storage", "_typed_storage")}
        for c in (x for x in own_nodes(f.node) if isinstance(x, ast.Call) and isinstance(x.func, ast.Attribute) and x.func.attr == "data_ptr"):
            n += 1
            recv = c.func.value
            via_storage = (isinstance(recv, ast.Call) and isinstance(recv.func, ast.Attribute) and recv.func.attr in ("untyped_storage", "storage", "_typed_storage")) \
                or (isinstance(recv, ast.Name) and recv.id in storages)
            offset_added = any(isinstance(x, ast.Attribute) and x.attr == "storage_offset" for x in ast.walk(getattr(c, "_parent", c)))
            ctx.check("R10", f"{f.local}: {norm(c)} is the tensor's own address", not via_storage or offset_added, f, c,
                      f"`{norm(c)}` is the address of the storage, not of the tensor: for a contiguous view that starts part-way into its storage "
                      "(a row slice, a chunk of a fused weight) tobytes()/tofile() emit the wrong elements while numpy() stays right",
                      how="receiver of data_ptr() is the tensor, not untyped_storage()/storage() (unless storage_offset() is added)",
                      construct=f"storage-level pointer {norm(c)}")
    ctx.require(n >= 1, "no data_ptr() call found in tensor_adapters")


_FLIP_OPS = {ast.Eq: ast.NotEq, ast.NotEq: ast.Eq, ast.Is: ast.IsNot, ast.IsNot: ast.Is, ast.In: ast.NotIn, ast.NotIn: ast.In,
             ast.Lt: ast.GtE, ast.GtE: ast.Lt, ast.Gt: ast.LtE, ast.LtE: ast.Gt}


def _flipped(test: ast.AST) -> str:
    """Text of the negation of a test, in the form the code would write it."""
    if isinstance(test, ast.UnaryOp) and isinstance(test.op, ast.Not):
        return norm(test.operand)
    if isinstance(test, ast.Compare) and len(test.ops) == 1 and type(test.ops[0]) in _FLIP_OPS:
        return norm(ast.Compare(left=test.left, ops=[_FLIP_OPS[type(test.ops[0])]()], comparators=test.comparators))
    return f"not ({norm(test)})"


def rule_r12(ctx):
    from ..cfg import CFG

    core = ctx.repo.modules["onnx_ir._core"]
    n = 0
    for k in core.classes.values():
        for m in list(k.methods.values()) + [p["get"] for p in k.props.values() if "get" in p]:
            if isinstance(m.node, ast.Lambda):
                continue
            sn = m.params[0] if m.params else "self"
            for i in (x for x in own_nodes(m.node) if isinstance(x, ast.If)):
                t = i.test
                if not (isinstance(t, ast.Compare) and len(t.ops) == 1 and isinstance(t.ops[0], ast.Is) and isinstance(t.comparators[0], ast.Constant)
                        and t.comparators[0].value is None and isinstance(t.left, ast.Attribute) and norm(t.left.value) == sn):
                    continue
                fld = t.left.attr
                calls = [c for st in i.body for c in ast.walk(st) if isinstance(c, ast.Call) and isinstance(c.func, ast.Attribute)
                         and norm(c.func.value) == sn and c.func.attr in k.methods and not c.args]
                if len(i.body) != 1 or not calls:
                    continue
                loader = ctx.repo.lookup(k, calls[0].func.attr)
                if not isinstance(loader, FuncInfo) or not any(
                        isinstance(a, ast.Assign) and any(isinstance(tg, ast.Attribute) and tg.attr == fld and norm(tg.value) == loader.params[0] for tg in a.targets)
                        for a in own_nodes(loader.node)):
                    continue  # not the loader of this field
                n += 1
                # exits of the loader that no assignment to the field precedes, with the test they sit under
                cfg = CFG(loader.node)
                assigns = {cn.id for a in own_nodes(loader.node) if isinstance(a, ast.Assign) and any(
                    isinstance(tg, ast.Attribute) and tg.attr == fld for tg in a.targets) for cn in cfg.nodes_containing(a)}
                unset = []
                for r in (x for x in own_nodes(loader.node) if isinstance(x, ast.Return)):
                    rn = cfg.nodes_containing(r)
                    if rn and cfg.path_exists_avoiding(cfg.entry, {rn[0].id}, assigns, exc=False):
                        g = getattr(r, "_parent", None)
                        unset.append(norm(g.test) if isinstance(g, ast.If) else "<unconditional>")
                last = loader.node.body[-1]
                if not isinstance(last, (ast.Return, ast.Raise)) and cfg.path_exists_avoiding(cfg.entry, {cfg.exit.id}, assigns | {
                        cn.id for r in own_nodes(loader.node) if isinstance(r, ast.Return) for cn in cfg.nodes_containing(r)}, exc=False):
                    unset.append("<fall through>")
                # the reader's own early exits before the load
                own_exits = {norm(j.test) for j in own_nodes(m.node) if isinstance(j, ast.If) and j.lineno < i.lineno and j.body
                             and isinstance(j.body[-1], (ast.Return, ast.Raise))}
                # … and the conditions that the tests enclosing the load exclude (`if self.size != 0: <load>` excludes `self.size == 0`)
                child, par = i, getattr(i, "_parent", None)
                while par is not None and par is not m.node:
                    if isinstance(par, ast.If):
                        if child in par.body:
                            own_exits.add(_flipped(par.test))
                        elif child in par.orelse:
                            own_exits.add(norm(par.test))
                    child, par = par, getattr(par, "_parent", None)
                missing = [u for u in unset if u not in own_exits]
                ctx.check("R12", f"{k.name}.{m.name}: `{fld}` is set by {loader.name}() on every exit the method does not handle itself", not missing, m, i,
                          f"{k.name}.{m.name} relies on `self.{fld}` after `self.{loader.name}()`, but {loader.name} returns without assigning it when `{missing[0] if missing else ''}` "
                          "(an empty tensor maps nothing): the method then fails its own assertion instead of answering for that tensor",
                          how="exits of the loader not preceded by an assignment to the field (CFG) vs early exits of the reader under the same condition",
                          construct=f"{m.name} relies on {fld} that {loader.name} may leave unset")
    ctx.require(n >= 3, f"only {n} lazy-load sites found in the tensor classes")


def rule_r11(ctx):
    mods = ["onnx_ir._core", "onnx_ir._type_casting", "onnx_ir.tensor_adapters", "onnx_ir.serde", "onnx_ir._enums"]
    n = 0
    for mn in mods:
        m = ctx.repo.modules.get(mn)
        if m is None:
            continue
        for f in m.all_funcs:
            if isinstance(f.node, ast.Lambda):
                continue
            for x in own_nodes(f.node):
                if isinstance(x, ast.Call) and norm(x.func) in ("math.ceil", "np.ceil", "numpy.ceil"):
                    n += 1
                    ctx.ob("R11", f"{f.local}: {short(norm(x))} rounds up with ceil", True, how="math.ceil of the exact product")
                    continue
                if not (isinstance(x, ast.BinOp) and isinstance(x.op, ast.FloorDiv) and isinstance(x.left, ast.BinOp) and isinstance(x.left.op, ast.Add)):
                    continue
                add, d = x.left.right, x.right
                if isinstance(x.left.left, ast.Constant) and not isinstance(add, ast.Constant):
                    add = x.left.left
                # (n + c) // d with a positive constant addend, or (n + d - 1) // d spelled out: a round-up
                spelled = isinstance(x.left.left, ast.BinOp) and isinstance(x.left.left.op, ast.Add)  # (n + d) - 1 parsed as ((n + d) - 1)
                if not (isinstance(add, ast.Constant) and isinstance(add.value, int) and add.value > 0) and not spelled:
                    if not (isinstance(add, ast.BinOp) and isinstance(add.op, ast.Sub) and isinstance(add.right, ast.Constant) and add.right.value == 1):
                        continue
                n += 1
                if isinstance(add, ast.Constant):
                    ok = isinstance(d, ast.Constant) and add.value == d.value - 1
                else:
                    ok = isinstance(add, ast.BinOp) and norm(add.left) == norm(d)
                ctx.check("R11", f"{f.local}: `{norm(x)}` rounds up by the divisor minus one", ok, f, x,
                          f"`{norm(x)}` adds {norm(add)} before dividing by {norm(d)}: that is a round-up only when the addend is the divisor minus one; "
                          "for other divisors (4 two-bit elements per byte) sizes with a small remainder are rounded down and the count is one short",
                          how="shape of every floor division of a sum on the tensor byte paths", construct=f"round-up {norm(x)}")
    ctx.require(n >= 1, "no byte-count rounding found on the tensor byte paths")


def rule_r13(ctx):
    n = 0
    for m in ctx.repo.pkg_modules():
        for c in m.classes.values():
            funcs = list(c.methods.values())
            unpacked = set()
            for f in funcs:
                al = {}
                for a in own_nodes(f.node):
                    if isinstance(a, ast.Assign) and isinstance(a.value, (ast.Call, ast.Attribute, ast.Name)):
                        has_unpack = any(isinstance(x, ast.Call) and (dotted_of(x.func) or "").split(".")[-1].startswith("unpack_") for x in ast.walk(a.value)) or any(
                            isinstance(x, ast.Name) and x.id in al for x in ast.walk(a.value))
                        for t in a.targets:
                            if has_unpack and isinstance(t, ast.Name):
                                al[t.id] = True
                            if has_unpack and isinstance(t, ast.Attribute) and isinstance(t.value, ast.Name) and t.value.id == f.params[0]:
                                unpacked.add(t.attr)
            if not unpacked:
                continue
            for f in funcs:
                if f.name not in ("tobytes", "tofile"):
                    continue
                n += 1
                selfn = f.params[0]
                aliases = {a.targets[0].id for a in own_nodes(f.node) if isinstance(a, ast.Assign) and isinstance(a.targets[0], ast.Name)
                           and isinstance(a.value, ast.Attribute) and isinstance(a.value.value, ast.Name) and a.value.value.id == selfn and a.value.attr in unpacked}
                bad = None
                for call in calls_in(f):
                    if isinstance(call.func, ast.Attribute) and call.func.attr in ("tobytes", "tofile", "view", "data"):
                        recv = call.func.value
                        if (isinstance(recv, ast.Attribute) and isinstance(recv.value, ast.Name) and recv.value.id == selfn and recv.attr in unpacked) or (
                                isinstance(recv, ast.Name) and recv.id in aliases):
                            bad = call
                    if dotted_of(call.func) in ("bytes", "memoryview") and call.args and isinstance(call.args[0], ast.Attribute) \
                            and isinstance(call.args[0].value, ast.Name) and call.args[0].value.id == selfn and call.args[0].attr in unpacked:
                        bad = call
                repacks = any((dotted_of(x.func) or "").split(".")[-1].startswith(("pack_", "_create_np_array_for_byte")) for x in calls_in(f))
                ctx.check("R13", f"{c.name}.{f.name}: bytes are not taken from the unpacked field(s) {sorted(unpacked)}", bad is None or repacks, f, bad if bad is not None else f.node,
                          f"`{norm(bad) if bad is not None else ''}` serves the bytes of `self.{sorted(unpacked)[0]}`, which {c.name} fills with *unpacked* elements for 2- and 4-bit "
                          "types (one element per byte): the result has `size` bytes instead of ceil(size x bitwidth / 8) and differs from the packed bytes "
                          "in the file, from tofile() and from the array-backed tensor - but only once numpy() or an earlier tobytes() has filled the cache",
                          how="fields assigned from unpack_* results in the class vs receivers of byte-producing calls in tobytes/tofile",
                          construct=f"bytes from unpacked field in {c.name}.{f.name}")
    ctx.require(n >= 1, "no tensor class with an unpacked cache and a tobytes/tofile method found")


_RANK_CHANGERS = {"ascontiguousarray", "asfortranarray", "atleast_1d", "atleast_2d", "atleast_3d", "squeeze", "ravel", "flatten", "expand_dims",
                  "concatenate", "stack", "hstack", "vstack"}
_R14_EXAMPLE = """
def numpy(self):
    bits = self.raw.view(torch.uint8).numpy(force=True)
    return np.ascontiguousarray(bits).view(self.dtype.numpy())
"""


def _rank_changing_calls(fn_node, ret_value):
    """Calls of rank-changing numpy routines the returned expression passes through (locals read once through their assignments)."""
    exprs, seen = [ret_value], set()
    for _ in range(3):
        for e in list(exprs):
            for x in ast.walk(e):
                if isinstance(x, ast.Name) and x.id not in seen:
                    seen.add(x.id)
                    for a in ast.walk(fn_node):
                        if isinstance(a, ast.Assign) and any(isinstance(t, ast.Name) and t.id == x.id for t in a.targets):
                            exprs.append(a.value)
    out = []
    for e in exprs:
        for x in ast.walk(e):
            if isinstance(x, ast.Call):
                name = x.func.attr if isinstance(x.func, ast.Attribute) else (x.func.id if isinstance(x.func, ast.Name) else "")
                if name in _RANK_CHANGERS:
                    out.append(x)
    return out


def rule_r14(ctx):
    ex = ast.parse(_R14_EXAMPLE).body[0]
    ret = next(x for x in ast.walk(ex) if isinstance(x, ast.Return))
    ctx.require(bool(_rank_changing_calls(ex, ret.value)), "R14: the built-in positive example is not recognised")
    n = 0
    for m in ctx.repo.pkg_modules():
        for k in m.classes.values():
            for name in ("numpy", "__array__"):
                f = k.methods.get(name)
                if f is None or isinstance(f.node, ast.Lambda):
                    continue
                for r in (x for x in own_nodes(f.node) if isinstance(x, ast.Return) and x.value is not None):
                    n += 1
                    v = r.value
                    reshaped = isinstance(v, ast.Call) and isinstance(v.func, ast.Attribute) and v.func.attr == "reshape"
                    bad = [] if reshaped else _rank_changing_calls(f.node, v)
                    ctx.check("R14", f"{f.local}: `{norm(r)[:60]}` keeps the number of dimensions", not bad, f, bad[0] if bad else r,
                              f"`{norm(bad[0])[:70] if bad else ''}` can change the number of dimensions (a 0-d array becomes shape (1,), or axes are dropped / merged) and no "
                              "reshape to the declared shape follows: a scalar tensor of this class reports shape () and hands out an array of another shape",
                              how="returned expression (through its locals) is free of ascontiguousarray / atleast_nd / squeeze / ravel / flatten / expand_dims, or ends in .reshape(…)",
                              construct=f"rank-changing {norm(bad[0].func)[:40] if bad else ''} in {name}")
    ctx.require(n >= 8, f"only {n} return statements of numpy() / __array__ found in tensor classes")


def rule_r15(ctx):
    f = ctx.repo.func("onnx_ir._core:Tensor.__init__")
    body = f.node.body

    def top_index(n):
        while n is not None and getattr(n, "_parent", None) is not f.node:
            n = getattr(n, "_parent", None)
        return next((i for i, st in enumerate(body) if st is n), -1)

    views = [c for c in calls_in(f) if (dotted_of(c.func) or "").endswith("_maybe_view_np_array_with_ml_dtypes")]
    ctx.require(bool(views), "Tensor.__init__: the ml_dtypes view is not applied")
    convs = [n for n in own_nodes(f.node) if isinstance(n, ast.Assign) and isinstance(n.value, ast.Call)
             and (dotted_of(n.value.func) or "") in ("np.array", "np.asarray", "numpy.array", "numpy.asarray", "np.ascontiguousarray")]
    stores = [n for n in own_nodes(f.node) if isinstance(n, ast.Assign) and any(isinstance(t, ast.Attribute) and t.attr == "_raw" and norm(t.value) == f.params[0] for t in n.targets)]
    ctx.require(bool(stores), "Tensor.__init__: store of the payload (_raw) not found")
    iv = min(top_index(v) for v in views)
    n = 0
    for c in convs:
        n += 1
        ok = 0 <= top_index(c) < iv
        ctx.check("R15", f"Tensor.__init__: `{norm(c)[:50]}` precedes the ml_dtypes view", ok, f, c,
                  f"`{norm(c)[:60]}` makes an array of a numpy scalar in an arm of (or after) the statement that applies the ml_dtypes view, so that array is stored without the view: "
                  "for bfloat16 / float8 / 4-bit / 2-bit types numpy() returns the carrier's bit patterns (16320 instead of 1.5) although dtype, shape and bytes are right",
                  how="top-level statement order in Tensor.__init__: array conversions come before the statement containing _maybe_view_np_array_with_ml_dtypes",
                  construct="array conversion not followed by the ml_dtypes view")
    ctx.ob("R15", f"{n} array conversion(s) in Tensor.__init__ precede the ml_dtypes view; the payload store follows it", top_index(stores[0]) > iv, nontrivial=False,
           how="statement order")
    ctx.require(top_index(stores[0]) > iv, "Tensor.__init__: the payload is stored before the ml_dtypes view is applied")


_ARRAY_MAKERS = ("array", "asarray", "frombuffer", "fromfile", "memmap", "ascontiguousarray", "empty", "zeros", "fromiter")
_ARRAY_METHODS = ("view", "astype", "reshape", "ravel", "flatten", "copy", "numpy", "byteswap", "newbyteorder")
_R16_EXAMPLE = "def numpy(self):\n    array = np.array(self._proto.float_data, dtype=np.float32)\n    return (array[0::2] + 1j * array[1::2]).reshape(shape)\n"


def _arrayish(fn_node, e, depth=0) -> bool:
    """The expression is an array of element data: made by numpy, a view / conversion / slice of one, a parameter declared ndarray,
    or a local bound to such an expression."""
    if depth > 4:
        return False
    if isinstance(e, ast.Call):
        d = dotted_of(e.func) or ""
        if d.startswith(("np.", "numpy.")) and d.split(".")[-1] in _ARRAY_MAKERS:
            return True
        if isinstance(e.func, ast.Attribute) and e.func.attr in _ARRAY_METHODS:
            return _arrayish(fn_node, e.func.value, depth + 1) or e.func.attr in ("view", "astype", "numpy")
        return False
    if isinstance(e, ast.Subscript):
        return _arrayish(fn_node, e.value, depth + 1)
    if isinstance(e, ast.BinOp):
        return _arrayish(fn_node, e.left, depth + 1) or _arrayish(fn_node, e.right, depth + 1)
    if isinstance(e, ast.Name):
        a = getattr(fn_node, "args", None)
        if a is not None:
            for x in a.posonlyargs + a.args + a.kwonlyargs:
                if x.arg == e.id and x.annotation is not None and "ndarray" in norm(x.annotation):
                    return True
        return any(_arrayish(fn_node, v, depth + 1) for v in _defs_of(fn_node, e.id))
    return False


def _value_arithmetic(fn_node):
    """[BinOp] - arithmetic on element values (+ - * / **; bit operations are packing, not arithmetic) with an array operand or a
    complex literal."""
    out = []
    for n in own_nodes(fn_node):
        if isinstance(n, ast.BinOp) and isinstance(n.op, (ast.Add, ast.Sub, ast.Mult, ast.Div, ast.Pow, ast.MatMult)):
            cplx = any(isinstance(x, ast.Constant) and isinstance(x.value, complex) for x in (n.left, n.right))
            if cplx or _arrayish(fn_node, n.left) or _arrayish(fn_node, n.right):
                out.append(n)
    return out


def rule_r16(ctx):
    ex = ast.parse(_R16_EXAMPLE).body[0]
    from ..index import set_parents

    set_parents(ex)
    ctx.require(bool(_value_arithmetic(ex)), "R16: the built-in positive example is not recognised")
    n = 0
    seen = set()
    work = []
    for m in ctx.repo.pkg_modules():
        for k in m.classes.values():
            if not any(nm in k.methods for nm in ("numpy", "tobytes")) or "Tensor" not in k.name:
                continue
            for name in ("numpy", "__array__", "tobytes", "tofile", "_load"):
                f = k.methods.get(name)
                if f is not None and not isinstance(f.node, ast.Lambda):
                    work.append(f)
    ty = ctx.typer
    while work:
        f = work.pop()
        if f.key in seen:
            continue
        seen.add(f.key)
        n += 1
        bad = _value_arithmetic(f.node)
        ctx.check("R16", f"{f.local}: element data is reinterpreted, not recomputed", not bad, f, bad[0] if bad else f.node,
                  f"`{norm(bad[0])[:80] if bad else ''}` computes element values with floating arithmetic where the stored components only need to be reinterpreted "
                  "(view / astype / frombuffer): arithmetic does not keep every bit pattern - `re + 1j * im` turns an infinite or NaN imaginary part into a NaN real part "
                  "and drops the sign of -0.0 - so numpy() disagrees with the tensor's own bytes and with the reference decoder for those values",
                  how="BinOp with + - * / ** whose operand is an array (numpy maker, view/astype/slice of one, ndarray parameter, local bound to one) or a complex literal",
                  construct=f"value arithmetic in {f.local}")
        # private helpers of the same module that receive the data are decoders too
        for c in calls_in(f):
            d = dotted_of(c.func) or ""
            g = f.module.functions.get(d) if "." not in d else None
            if g is not None and d.startswith("_") and not isinstance(g.node, ast.Lambda) and any(_arrayish(f.node, a) for a in c.args):
                work.append(g)
    ctx.require(n >= 12, f"only {n} decoding methods of tensor classes found")


def rule_r17(ctx):
    n = 0
    work, seen = [], set()
    for m in ctx.repo.pkg_modules():
        for k in m.classes.values():
            f = k.methods.get("tofile")
            if f is not None and not isinstance(f.node, ast.Lambda) and len(f.params) >= 2:
                work.append((f, f.params[1]))
    while work:
        f, fp = work.pop()
        if (f.key, fp) in seen:
            continue
        seen.add((f.key, fp))
        for c in calls_in(f):
            if isinstance(c.func, ast.Attribute) and c.func.attr == "tofile" and c.args:
                a = c.args[0]
                n += 1
                ok = isinstance(a, ast.Name) and a.id == fp
                ctx.check("R17", f"{f.local}: `{norm(c)[:50]}` writes through the file object it was given", ok, f, c,
                          f"`{norm(a)[:60]}` is handed to tofile() instead of the file parameter `{fp}`: numpy then works on a layer below the caller's file object "
                          "(no flush of its pending bytes, position of the descriptor instead of the object's) - the bytes land at another offset than the "
                          "caller's position, so tofile() and tobytes() disagree about what is in the file",
                          how="argument of every <x>.tofile(…) in the tofile methods of the tensor classes and the helpers they pass the file to",
                          construct=f"tofile through {norm(a)[:40]}")
            else:
                # a private helper of the same module that is handed the file
                d = dotted_of(c.func) or ""
                g = f.module.functions.get(d) if d and "." not in d else None
                if g is not None and not isinstance(g.node, ast.Lambda):
                    for i, a in enumerate(c.args):
                        if isinstance(a, ast.Name) and a.id == fp and i < len(g.params):
                            work.append((g, g.params[i]))
    ctx.require(n >= 4, f"only {n} tofile() calls found in the tofile methods of the tensor classes")


def rule_r18(ctx):
    m = ctx.repo.module("onnx_ir._type_casting")
    n = 0
    for f in m.functions.values():
        if not f.name.startswith("unpack") or isinstance(f.node, ast.Lambda) or not f.params:
            continue
        data = f.params[0]
        body = f.node.body
        first_store = next((i for i, st in enumerate(body) if any(isinstance(a, ast.Assign) and any(
            isinstance(t, ast.Subscript) and isinstance(t.slice, ast.Slice) and t.slice.step is not None for t in a.targets) for a in ast.walk(st))), None)
        if first_store is None:
            continue
        n += 1
        flat = any(isinstance(st, ast.Assign) and any(isinstance(t, ast.Name) and t.id == data for t in st.targets) and isinstance(st.value, ast.Call)
                   and isinstance(st.value.func, ast.Attribute) and norm(st.value.func.value) == data
                   and (st.value.func.attr in ("ravel", "flatten") or (st.value.func.attr == "reshape" and st.value.args and norm(st.value.args[0]) in ("-1", "(-1,)", "[-1]")))
                   for st in body[:first_store])
        # an intermediate computed from data before the stores is flattened when data is
        ctx.check("R18", f"{f.local}: `{data}` is flattened before the strided stores", flat, f, body[first_store],
                  f"`{norm(body[first_store])[:60]}` stores an expression over `{data}` into a strided slice of the one-dimensional result without `{data}` having been "
                  "flattened: a packed array with more than one dimension (which PackedTensor accepts) does not broadcast into it, so numpy() raises ValueError for a "
                  "tensor whose tobytes() works - the representations disagree",
                  how="a rebinding `data = data.reshape(-1)` / ravel() / flatten() precedes the first `result[k::n] = …` in every unpack_* kernel",
                  construct=f"{f.name} stores an unflattened array")
    ctx.require(n >= 2, f"only {n} unpacking kernels with strided stores found")


_ORDER_FORGETTING = {"type", "kind", "char", "name", "itemsize", "newbyteorder", "base", "num"}


def rule_r19(ctx):
    m = ctx.repo.module("onnx_ir._enums")
    tables = {k for k, v in m.assigns.items() if isinstance(v, ast.Dict) and any(
        isinstance(kk, ast.Call) and (dotted_of(kk.func) or "").endswith("dtype") for kk in v.keys if kk is not None)}
    ctx.require(bool(tables), "the numpy-to-DataType table of onnx_ir._enums was not found")
    n = 0
    for f in ctx.repo.live(m.all_funcs):
        if isinstance(f.node, ast.Lambda):
            continue
        keys = []
        for x in own_nodes(f.node):
            if isinstance(x, ast.Subscript) and isinstance(x.value, ast.Name) and x.value.id in tables and isinstance(x.ctx, ast.Load):
                keys.append(x.slice)
            elif isinstance(x, ast.Compare) and len(x.ops) == 1 and isinstance(x.ops[0], (ast.In, ast.NotIn)) and isinstance(x.comparators[0], ast.Name) and x.comparators[0].id in tables:
                keys.append(x.left)
            elif isinstance(x, ast.Call) and isinstance(x.func, ast.Attribute) and x.func.attr == "get" and isinstance(x.func.value, ast.Name) and x.func.value.id in tables and x.args:
                keys.append(x.args[0])
        for k in keys:
            n += 1
            # the key through the locals it was bound to
            exprs, seen = [k], set()
            bad = None
            while exprs and bad is None:
                e = exprs.pop()
                for y in ast.walk(e):
                    if isinstance(y, ast.Attribute) and y.attr in _ORDER_FORGETTING:
                        bad = y
                        break
                    if isinstance(y, ast.Name) and y.id not in seen and y.id not in f.params:
                        seen.add(y.id)
                        exprs += [a.value for a in own_nodes(f.node) if isinstance(a, ast.Assign) and any(isinstance(t, ast.Name) and t.id == y.id for t in a.targets)]
            ctx.check("R19", f"{f.local}: the key `{norm(k)[:40]}` of the numpy-to-DataType table keeps the byte order", bad is None, f, bad if bad is not None else k,
                      f"the table is consulted with `{norm(k)[:50]}`, which is built from `{norm(bad) if bad is not None else ''}` - an attribute of the dtype that does not say in which "
                      "byte order the elements are stored: a big-endian array (`np.frombuffer(buf, '>f4')`) is accepted under the little-endian element type, and tobytes() / tofile() / "
                      "the serializer, which swap bytes for the host's order only, emit its bytes as they are - a decoder reads different values than numpy() shows",
                      how="keys of lookups in the numpy-to-DataType table, through locals × dtype attributes that forget the byte order", construct=f"table key from {norm(bad) if bad is not None else ''}")
    ctx.require(n >= 2, f"only {n} lookups in the numpy-to-DataType table found")


def copy_loop_reads(ctx):
    """[(function, read call, bounded by the remaining count, bounded by the reserved chunk constant)] for the reads of the streamed copy."""
    f = ctx.repo.func("onnx_ir._core:ExternalTensor.tofile")
    # the constant the writer reserves for an external tensor
    rb = ctx.repo.module("onnx_ir.external_data").functions.get("_reservation_bytes")
    consts = {x.attr if isinstance(x, ast.Attribute) else x.id for x in (ast.walk(rb.node) if rb is not None else ()) if isinstance(x, (ast.Attribute, ast.Name))
              and (x.attr if isinstance(x, ast.Attribute) else x.id).isupper()}
    out = []
    for lp in (x for x in own_nodes(f.node) if isinstance(x, ast.While)):
        rem = {y.id for y in ast.walk(lp.test) if isinstance(y, ast.Name)}
        for c in (x for x in ast.walk(lp) if isinstance(x, ast.Call) and isinstance(x.func, ast.Attribute) and x.func.attr in ("read", "readinto", "read1", "readinto1")):
            arg = c.args[0] if c.args else None
            if isinstance(arg, ast.Name):
                # the size bound to a local first (`want = min(CHUNK, remaining)`)
                bs = [a.value for a in ast.walk(lp) if isinstance(a, ast.Assign) and any(isinstance(t, ast.Name) and t.id == arg.id for t in a.targets)]
                arg = bs[0] if len(bs) == 1 else arg
            by_rem = by_const = False
            if c.func.attr.startswith("read") and not c.func.attr.startswith("readinto") and isinstance(arg, ast.Call) and dotted_of(arg.func) == "min" and len(arg.args) == 2:
                names = [(a.id if isinstance(a, ast.Name) else a.attr if isinstance(a, ast.Attribute) else None) for a in arg.args]
                by_rem = any(nm in rem for nm in names)
                by_const = any(nm in consts for nm in names)
            out.append((f, c, by_rem, by_const))
    return out


def rule_r20(ctx, rule="R20", which="remaining"):
    n = 0
    for f, c, by_rem, by_const in copy_loop_reads(ctx):
        n += 1
        if which == "remaining":
            ctx.check(rule, f"{f.local}: `{norm(c)[:50]}` reads no further than the tensor", by_rem, f, c,
                      f"`{norm(c)[:60]}` is not bounded by the bytes that remain of this tensor: the last read runs on into whatever follows in the data file, so tofile() into a "
                      "buffer or pipe emits more than nbytes bytes (the next tensor's data) and disagrees with tobytes() and numpy()",
                      how="reads inside the `while <remaining> > 0` loop of ExternalTensor.tofile are read(min(…, <remaining>))", construct="copy loop read not bounded by the remaining bytes")
        else:
            ctx.check(rule, f"{f.local}: `{norm(c)[:50]}` holds no more than the writer reserves for an external tensor", by_const, f, c,
                      f"`{norm(c)[:60]}` is not bounded by the chunk constant that `_reservation_bytes` reserves for an external tensor: each worker copying such a tensor holds more "
                      "than it reserved (itemsize times the chunk for a chunk scaled by the element size), so the workers together exceed the budget plus the largest tensor",
                      how="reads of the copy loop are read(min(<the constant named in external_data._reservation_bytes>, …))", construct="copy loop chunk differs from the reserved chunk")
    ctx.require(n >= 1, "the copy loop of ExternalTensor.tofile was not found")


def run(ctx):
    rule_r20(ctx)
    rule_r19(ctx)
    rule_r18(ctx)
    rule_r17(ctx)
    rule_r16(ctx)
    rule_r15(ctx)
    rule_r14(ctx)
    rule_r13(ctx)
    rule_r12(ctx)
    rule_r11(ctx)
    rule_r10(ctx)
    rule_r7(ctx)
    rule_r8(ctx)
    rule_r9(ctx)
    rule_r1(ctx)
    rule_r2(ctx)
    rule_r3(ctx)
    rule_r4(ctx)
    rule_r5(ctx)
    rule_r6(ctx)
