"""C12 — topological sort is correct across scopes, stable, deterministic, atomic."""

from __future__ import annotations

import ast

from ..cfg import CFG
from ..effects import Effects
from ..facts import calls_in, field_writes
from ..index import dotted_of, norm, own_nodes
from ..shared import s1_sites
from . import c06

PROPERTY = "C12"
RULES = {
    "R1": "atomicity: Graph.sort performs no write before its cycle verdict — every relinking call is dominated by the "
    "cycle-check rejection (C06 analysis on the sort's CFG)",
    "R2": "ownership-preserving relinking: nodes are relinked only through Graph.extend, each bucket of sorted nodes is "
    "keyed by node.graph and extended into the graph that keys it; the sort never touches the node list directly",
    "R3": "nested scopes: nodes of GRAPH and of GRAPHS attributes are both counted as predecessors (S1), in the sort and in the recursive iterator it collects its node set with; the pass sorts "
    "the main graph and every function",
    "R4": "edge completeness: in the loop over a node's inputs, recording the producer of the input as a predecessor is "
    "unconditional - the only way to skip it is the None test of the input itself (no memo, filter or early exit decides "
    "whether a dependency edge exists)",
    "R5": "one notion of scope: whether the producer of an input takes part in the ordering is decided by membership in "
    "the set of traversed nodes (all nesting levels), in sort() and in every helper or fast path it calls - never by "
    "comparing the producer's graph with particular graphs (that forgets producers in intermediate nesting levels)",
    "R6": "nested-scope edges are unconditional: under the GRAPH / GRAPHS dispatch of the sort, every node of the attribute's "
    "subgraph(s) is recorded as a predecessor of the owning node - the recording call sits directly in the loop(s) over the "
    "subgraph's nodes, with no test on the nested node (its uses, successors, outputs …) and no early exit deciding whether "
    "the edge exists",
    "R7": "a reference attribute holds no graph (shared rule S18): the GRAPH / GRAPHS dispatch of sort() and of the recursive iterator it "
    "collects its nodes with reads `attr.value` only for attributes that are not references (`is_ref()` leaves the iteration first) - "
    "for a reference attribute of graph type (an If in a function body whose branches are attribute parameters) the value is None "
    "and sorting, or merely walking, the function raises TypeError",
    "R8": "the edge recorder drops an edge for two reasons only: in the local function through which sort() records a predecessor, every "
    "exit before the recording statements is guarded by tests of the form `<predecessor> is None` (an input without a producer) or "
    "`<predecessor> not in <table of traversed nodes>` (a producer outside the sorted graphs, R5) - any other test, such as "
    "`predecessor is child`, decides by itself which dependencies exist: a node that consumes its own output is then not counted, the "
    "cycle check passes and a cyclic graph is reordered instead of being refused unchanged",
    "R9": "the sort keeps no memory of earlier calls: no condition in Graph.sort (or in the read-only phases it delegates to) reads a field "
    "of Graph that is re-bound outside the constructor - such a field is a note about earlier operations (\"already sorted\"), and the edges "
    "the order depends on are edited through nodes (Node.replace_input_with, resize_inputs) without passing through the graph, so no note can "
    "be kept current: a second sort() after a rewiring returns without looking, leaving an invalid order or an unreported cycle - the "
    "result would depend on the call history of the object, not on its structure and previous order; fields bound once in the "
    "constructor (the live containers) may be read",
    "R10": "the order of the result is the priority queue's: in the loop that drains the queue, the node that is emitted is bound from "
    "`heapq.heappop(<queue>)` and from nothing else, and a node whose last consumer has been emitted (the zero test on its counter) is "
    "handed to `heapq.heappush` under no further condition - a node passed on directly (a shortcut for straight-line chains) overtakes "
    "nodes that wait in the queue with an earlier claim, so a graph that is already in a valid order is rewritten: stability, not validity, "
    "is what is lost",
}
FLOORS = {"R1": 2, "R2": 4, "R3": 3, "R4": 1, "R5": 2, "R6": 2, "R7": 2, "R8": 1, "R9": 1, "R10": 2}
EXPLANATION = (
    "Dominance of the cycle rejection over every state-writing call of Graph.sort (effect summaries), and structural "
    "checks that relinking goes through the ownership-preserving API into the graph each node already belongs to."
)
NOT_DECIDED = "correctness of the produced order, stability and determinism (properties of the algorithm's values)"
ASSUMPTIONS = ["Graph.extend moves a node that is already in the graph to the end (DoublyLinkedSet re-insertion, C11-R3)"]

CORE = "onnx_ir._core"


def _edge_loops(repo, f, depth=0):
    """[(function, loop over <x>.inputs, edge-recording node, offending control node | None)] for f and, when f gathers its
    edges through a helper method (`for p in node.predecessors()`), for that helper."""
    out = []
    funcs = [f] + list(f.nested.values())
    for fn in funcs:
        for lp in (x for x in own_nodes(fn.node) if isinstance(x, ast.For)):
            it = lp.iter
            # edges gathered by a helper: for p in <node>.<helper>()
            if isinstance(it, ast.Call) and isinstance(it.func, ast.Attribute) and not it.args and depth < 2 and isinstance(lp.target, ast.Name):
                used = any(isinstance(c, ast.Call) and any(isinstance(a, ast.Name) and a.id == lp.target.id for a in c.args) for b in lp.body for c in ast.walk(b))
                helper = repo.cls(f"{CORE}:Node").methods.get(it.func.attr)
                if used and helper is not None and any(isinstance(c, ast.Call) and isinstance(c.func, ast.Attribute) and c.func.attr == "producer" for c in ast.walk(helper.node)):
                    out += _edge_loops(repo, helper, depth + 1)
                continue
            if not (isinstance(lp.target, ast.Name) and isinstance(it, ast.Attribute) and it.attr == "inputs"):
                continue
            v = lp.target.id
            prod_names = {a.targets[0].id for a in ast.walk(lp) if isinstance(a, ast.Assign) and isinstance(a.targets[0], ast.Name)
                          and any(isinstance(c, ast.Call) and isinstance(c.func, ast.Attribute) and c.func.attr == "producer" for c in ast.walk(a.value))}
            prod_names |= {x.target.id for x in ast.walk(lp) if isinstance(x, ast.NamedExpr) and isinstance(x.target, ast.Name)
                           and any(isinstance(c, ast.Call) and isinstance(c.func, ast.Attribute) and c.func.attr == "producer" for c in ast.walk(x.value))}

            def mentions_producer(e):
                return any((isinstance(a, ast.Name) and a.id in prod_names) or (
                    isinstance(a, ast.Call) and isinstance(a.func, ast.Attribute) and a.func.attr == "producer") for a in ast.walk(e))

            edge = [c for c in ast.walk(lp) if isinstance(c, ast.Call) and not (isinstance(c.func, ast.Attribute) and c.func.attr == "producer")
                    and any(mentions_producer(a) for a in c.args)]
            # … or a store keyed by / of the producer (helper building the predecessor collection)
            edge += [st for b in lp.body for st in ast.walk(b) if isinstance(st, ast.Assign) and any(
                isinstance(t, ast.Subscript) and mentions_producer(t.slice) for t in st.targets)]
            # … or the producer is handed on to the recording loop by a generator (`yield <input>.producer()`)
            edge += [y for b in lp.body for y in ast.walk(b) if isinstance(y, ast.Yield) and y.value is not None and mentions_producer(y.value)]
            if not edge:
                continue
            ec = edge[0]

            def none_test(t, positive):
                # `<v> is None` / `<producer> is None` (positive) or `… is not None` (negative)
                if isinstance(t, ast.Compare) and len(t.ops) == 1 and isinstance(t.comparators[0], ast.Constant) and t.comparators[0].value is None \
                        and isinstance(t.ops[0], ast.Is if positive else ast.IsNot):
                    left = t.left.target if isinstance(t.left, ast.NamedExpr) else t.left
                    return isinstance(left, ast.Name) and (left.id == v or left.id in prod_names)
                return False

            def all_none_tests(t, positive):
                if isinstance(t, ast.BoolOp) and isinstance(t.op, ast.And if not positive else ast.Or):
                    return all(none_test(x, positive) for x in t.values)
                return none_test(t, positive)

            outer = getattr(lp, "_parent", None)
            per_node = set()
            if isinstance(outer, ast.For) and lp in outer.body:
                for st in outer.body[: outer.body.index(lp)]:
                    if isinstance(st, (ast.Assign, ast.AnnAssign)) and getattr(st, "value", None) is not None:
                        for t in st.targets if isinstance(st, ast.Assign) else [st.target]:
                            if isinstance(t, ast.Name):
                                per_node.add(t.id)

            def per_node_memo_test(t):
                names = {x.id for x in ast.walk(t) if isinstance(x, ast.Name)} - {v} - prod_names
                return bool(names) and names <= per_node

            bad = None
            child, par = ec, getattr(ec, "_parent", None)
            while par is not None and par is not lp:
                if isinstance(par, ast.If):
                    in_body = any(child is x for x in par.body) or any(child is y for x in par.body for y in ast.walk(x))
                    if not ((in_body and all_none_tests(par.test, False)) or (not in_body and all_none_tests(par.test, True)) or per_node_memo_test(par.test)):
                        bad = par
                child, par = par, getattr(par, "_parent", None)
            pos = (ec.lineno, ec.col_offset)
            for x in ast.walk(lp):
                if isinstance(x, (ast.Continue, ast.Break, ast.Return)) and (x.lineno, x.col_offset) < pos:
                    g = getattr(x, "_parent", None)
                    # only `continue` skips one input; break/return abandon the remaining inputs whatever the test
                    if not (isinstance(x, ast.Continue) and isinstance(g, ast.If) and x in g.body and (all_none_tests(g.test, True) or per_node_memo_test(g.test))):
                        bad = bad or g or x
            out.append((fn, lp, ec, bad))
    return out


def run(ctx):
    ef = ctx._shared.get("effects")
    if ef is None:
        ef = ctx._shared["effects"] = Effects(ctx.repo, ctx.typer, tier4=(ctx.tier == "thorough"))
    ef.compute()
    repo = ctx.repo
    f = repo.func(f"{CORE}:Graph.sort")
    cfg, per = ef.events(f)
    # sort() may delegate its read-only phases (collect, count predecessors, order, cycle check) to private methods of Graph that
    # it calls on self: they are read together with it
    gcls0 = repo.cls(f"{CORE}:Graph")
    helpers = []
    for c in calls_in(f):
        if isinstance(c.func, ast.Attribute) and norm(c.func.value) == f.params[0] and c.func.attr.startswith("_") and c.func.attr in gcls0.methods:
            h = gcls0.methods[c.func.attr]
            if not ef.summary(h).mods and h not in helpers:
                helpers.append((h, c))
    # … and so are private read-only functions of the module that sort() (or such a phase) calls with a node, a value or a graph
    # (a generator over the candidates for predecessors)
    mod0 = repo.module(CORE)
    for host in [f] + [h for h, _c in helpers]:
        for c in calls_in(host):
            d = dotted_of(c.func) or ""
            g_ = mod0.functions.get(d) if d.startswith("_") and "." not in d else None
            if g_ is not None and not isinstance(g_.node, ast.Lambda) and not ef.summary(g_).mods and all(g_ is not h for h, _ in helpers) and any(
                    isinstance(x, ast.Attribute) and x.attr in ("attributes", "inputs") for x in ast.walk(g_.node)):
                helpers.append((g_, c))
    parts = [f] + [h for h, _c in helpers]
    # R1
    used: dict = {}
    sites = c06.analyse_mutator(ef, f, used)
    bad = [(m, c, u) for m, c, u, _ in sites if u]
    ctx.check("R1", "Graph.sort: no write precedes a feasible rejection", not bad, f, bad[0][1].node if bad else f.node,
              f"sort can raise after it has already changed a graph's order: {[r.key for r in bad[0][2]][:3] if bad else ''}",
              how="C06 forward may-analysis (M before C) over the sort's CFG")
    raises = [(p_, n) for p_ in parts for n in own_nodes(p_.node) if isinstance(n, ast.Raise)]
    mnodes = [nid for nid, evs in per.items() if any(e.kind == "M" and (e.tags - {None}) for e in evs)]
    ok = len(raises) == 1 and bool(mnodes)
    if ok:
        rp, rz = raises[0]
        iff = getattr(rz, "_parent", None)
        # the guard compares the number of nodes the sort could order with the number of nodes it was given
        ok = isinstance(iff, ast.If) and any(isinstance(x, ast.Compare) and any(
            isinstance(y, ast.Call) and dotted_of(y.func) == "len" for y in ast.walk(x)) for x in ast.walk(iff.test))
        if rp is f:
            tn = [x for x in cfg.node_of(iff) if x.kind == "test"][0]
        else:
            # the check lives in a read-only phase: the call of that phase is what has to come first
            hc = next(c for h, c in helpers if h is rp)
            tn = cfg.nodes_containing(hc)[0]
        ok = ok and all(cfg.dominates(tn, cfg.nodes[nid]) and tn.id != nid for nid in mnodes)
    ctx.check("R1", f"the cycle check dominates all {len(mnodes)} state-writing statement(s) of sort", bool(ok), f, f.node,
              "a graph is relinked before it is known whether the dependencies contain a cycle",
              how="dominator query: `if sorted != len(nodes): raise` over every M event of the function")
    # R2
    direct = [w for w in field_writes(f) if w.field in ("_nodes", "_graph", "graph", "next", "prev")]
    ctx.check("R2", "sort does not touch node lists or node.graph directly", not direct, f, direct[0].stmt if direct else f.node,
              "sort relinks nodes behind the ownership bookkeeping", how="no direct writes of _nodes / graph / links")
    ext = [c for c in calls_in(f) if isinstance(c.func, ast.Attribute) and c.func.attr == "extend" and any(e.kind == "M" for e in per.get(cfg.nodes_containing(c)[0].id, ()))]
    ok = len(ext) == 1
    if ok:
        loop = None
        p = getattr(ext[0], "_parent", None)
        while p is not None and p is not f.node:
            if isinstance(p, ast.For):
                loop = p
            p = getattr(p, "_parent", None)
        ok = loop is not None and norm(loop.iter).endswith(".items()") and isinstance(loop.target, ast.Tuple)
        if ok:
            gvar, bvar = norm(loop.target.elts[0]), norm(loop.target.elts[1])
            table = norm(loop.iter)[: -len(".items()")]
            ok = norm(ext[0].func.value) == gvar and bvar in norm(ext[0].args[0])
            # the table is filled in sort() itself, or in the phase whose result it is (`table = self._phase()` … `return <name>`)
            tables = {id(f): {table}}
            for h, hc in helpers:
                par = getattr(hc, "_parent", None)
                if isinstance(par, ast.Assign) and any(norm(t) == table for t in par.targets):
                    tables[id(h)] = {norm(r.value) for r in own_nodes(h.node) if isinstance(r, ast.Return) and isinstance(r.value, ast.Name)}
            puts = [n for p_ in parts for n in own_nodes(p_.node) if isinstance(n, ast.Call) and isinstance(n.func, ast.Attribute) and n.func.attr in ("append", "appendleft")
                    and isinstance(n.func.value, ast.Subscript) and norm(n.func.value.value) in tables.get(id(p_), ())]
            ok = ok and len(puts) == 1 and norm(puts[0].func.value.slice) == f"{norm(puts[0].args[0])}.graph"
    ctx.check("R2", "each bucket is keyed by node.graph and extended into that graph", bool(ok), f, ext[0] if ext else f.node,
              "sorted nodes can be relinked into a graph other than the one they belong to (a node changes graphs, or Graph.extend rejects it half-way)",
              how="bucket[node.graph].append(node) … for graph, bucket in buckets.items(): graph.extend(… bucket …)")
    # the nodes are produced in reverse topological order: either appended and reversed when relinked, or pushed at the
    # front (deque.appendleft) and relinked as they are
    front = [n for p_ in parts for n in own_nodes(p_.node) if isinstance(n, ast.Call) and isinstance(n.func, ast.Attribute) and n.func.attr == "appendleft" and isinstance(n.func.value, ast.Subscript)]
    rev = bool(ext) and (("reversed(" in norm(ext[0].args[0])) != bool(front))
    ctx.check("R2", "buckets (built in reverse topological order) are reversed when relinked", rev, f, ext[0] if ext else f.node,
              "nodes are relinked in reverse order", how="reversed(bucket)", nontrivial=False)
    def _mentions_graph(p_, e, depth=0):
        # `.graph` read in the expression, or in what a local it iterates was bound to (`owners = {n.graph for n in nodes}`)
        for x in ast.walk(e):
            if isinstance(x, ast.Attribute) and x.attr == "graph":
                return True
            if isinstance(x, ast.Name) and depth < 2:
                for a in own_nodes(p_.node):
                    if isinstance(a, (ast.Assign, ast.AnnAssign)) and getattr(a, "value", None) is not None and a.value is not e \
                            and any(isinstance(t, ast.Name) and t.id == x.id for t in (a.targets if isinstance(a, ast.Assign) else [a.target])) \
                            and _mentions_graph(p_, a.value, depth + 1):
                        return True
        return False

    keys = [n for p_ in parts for n in own_nodes(p_.node) if isinstance(n, (ast.DictComp,)) and _mentions_graph(p_, n)]
    ctx.check("R2", "one bucket per graph that owns a traversed node", bool(keys), f, f.node, "bucket table is not derived from node.graph", nontrivial=False)
    # R3
    n = 0
    for g, node, ok, detail, label in s1_sites(repo, {CORE}):
        if g.key not in {p_.key for p_ in parts}:
            continue
        n += 1
        ctx.check("R3", f"S1 Graph.sort: {label}"[:150], ok, g, node, detail, how="GRAPH/GRAPHS sibling agreement", construct=f"S1 {label}")
    ctx.require(n >= 1, "GRAPH/GRAPHS dispatch in Graph.sort not found")
    it = [c for p_ in parts for c in calls_in(p_) if (dotted_of(c.func) or "").endswith("RecursiveGraphIterator")]
    ctx.check("R3", "sort traverses the graph recursively (all nested nodes take part)", bool(it), f, f.node,
              "nodes of nested graphs are not collected", how="RecursiveGraphIterator(self)", nontrivial=False)
    # … and the traversal the node set comes from descends into GRAPH and GRAPHS attributes alike (S1 on the iterator)
    if it:
        nt = 0
        for g, node, ok, detail, label in s1_sites(repo, {"onnx_ir.traversal"}):
            nt += 1
            ctx.check("R3", f"S1 {g.local} (node set of the sort): {label}"[:150], ok, g, node,
                      detail + " - nodes nested below the shallower branch are missing from the sort's node set, so producers they depend on are not ordered before their control-flow node",
                      how="GRAPH/GRAPHS sibling agreement in the traversal Graph.sort collects its nodes with", construct=f"S1 traversal {label}")
        ctx.require(nt >= 1, "GRAPH/GRAPHS dispatch in the recursive iterator not found")
    p = repo.func("onnx_ir.passes.common.topological_sort:TopologicalSortPass.call")
    sorts = [norm(c.func) for c in calls_in(p) if isinstance(c.func, ast.Attribute) and c.func.attr == "sort"]
    ok = "model.graph.sort" in sorts and any(s != "model.graph.sort" for s in sorts) and any(
        isinstance(x, ast.For) and "model.functions" in norm(x.iter) for x in own_nodes(p.node))
    ctx.check("R3", "TopologicalSortPass sorts the main graph and every function", ok, p, p.node,
              "functions (or the main graph) are left unsorted by the pass", how="sort calls on model.graph and in a loop over model.functions")
    # R4
    n_edges = 0
    for g, lp, ec, bad in [x for p_ in parts for x in _edge_loops(repo, p_)]:
        n_edges += 1
        ctx.check("R4", f"{g.local}: {norm(ec)[:60]} is recorded for every non-None input", bad is None, g, bad if bad is not None else ec,
                  f"the dependency edge from an input's producer is recorded only when `{norm(bad.test) if isinstance(bad, ast.If) else norm(bad) if bad is not None else ''}` "
                  "allows it: a skipped edge lets the sort place a consumer before its producer",
                  how="control conditions of the edge-recording statement inside the loop over node.inputs (in sort or in the helper it iterates); exits before it",
                  construct="producer edge recorded conditionally")
    ctx.require(n_edges >= 1, "Graph.sort: loop recording the producers of node.inputs not found")
    # R8: where predecessors are recorded (a local function called per candidate, or the body of the loop over the candidates)
    from ..effects import _lookup_bindings

    n8 = 0
    for q in [x for p_ in parts for x in [p_] + list(p_.nested.values())]:
        looked_up = _lookup_bindings(q.node)  # locals bound once to <table>.get(<key>)

        def through_table(e) -> bool:
            while isinstance(e, ast.Attribute):
                e = e.value
            return isinstance(e, ast.Subscript) or (isinstance(e, ast.Name) and e.id in looked_up)

        # the recording statement: <table>[<child>]… .append(<predecessor>)
        records = [x for x in own_nodes(q.node) if isinstance(x, ast.Call) and isinstance(x.func, ast.Attribute) and x.func.attr in ("append", "add", "appendleft")
                   and through_table(x.func.value) and len(x.args) == 1 and isinstance(x.args[0], ast.Name)
                   and any(isinstance(y, (ast.AugAssign,)) and any(isinstance(z, ast.Name) and z.id == x.args[0].id for z in ast.walk(y.target)) or (
                       isinstance(y, ast.AugAssign) and isinstance(y.target, ast.Attribute) and isinstance(y.target.value, ast.Name) and y.target.value.id in looked_up)
                       for y in own_nodes(q.node))]
        for x in records:
            pred = x.args[0].id

            def atom(t, positive: bool) -> bool:
                # `rec is None` for `rec = <table>.get(<pred>)` is `<pred> not in <table>`
                if isinstance(t, ast.Compare) and len(t.ops) == 1 and isinstance(t.left, ast.Name) and t.left.id in looked_up and isinstance(t.comparators[0], ast.Constant) \
                        and t.comparators[0].value is None and isinstance(looked_up[t.left.id][1], ast.Name) and looked_up[t.left.id][1].id == pred:
                    return isinstance(t.ops[0], ast.IsNot if positive else ast.Is)
                if isinstance(t, ast.Compare) and len(t.ops) == 1 and isinstance(t.left, ast.Name) and t.left.id == pred:
                    if isinstance(t.ops[0], ast.IsNot if positive else ast.Is) and isinstance(t.comparators[0], ast.Constant) and t.comparators[0].value is None:
                        return True
                    if isinstance(t.ops[0], ast.In if positive else ast.NotIn) and isinstance(t.comparators[0], (ast.Name, ast.Attribute)):
                        return True
                return False

            def allowed(t, positive: bool) -> bool:
                """positive: a test under which the edge IS recorded (`p is not None and p in table`); otherwise a test under which
                the candidate is passed over (`p is None or p not in table`)."""
                if isinstance(t, ast.UnaryOp) and isinstance(t.op, ast.Not):
                    return allowed(t.operand, not positive)
                if isinstance(t, ast.BoolOp) and isinstance(t.op, ast.And if positive else ast.Or):
                    return all(allowed(v, positive) for v in t.values)
                return atom(t, positive)

            # tests that mention the candidate between its binding (parameter / loop variable) and the recording
            scope = q.node
            par = getattr(x, "_parent", None)
            while par is not None and par is not q.node:
                if isinstance(par, ast.For) and any(isinstance(y, ast.Name) and y.id == pred for y in ast.walk(par.target)):
                    scope = par
                    break
                par = getattr(par, "_parent", None)
            n8 += 1
            bad = None
            child, par = x, getattr(x, "_parent", None)
            while par is not None:
                for fld in ("body", "orelse"):
                    blk = getattr(par, fld, None)
                    if isinstance(blk, list) and child in blk:
                        for st in blk[: blk.index(child)]:
                            if isinstance(st, ast.If) and not st.orelse and st.body and isinstance(st.body[-1], (ast.Return, ast.Raise, ast.Continue, ast.Break)) \
                                    and not allowed(st.test, False):
                                bad = bad or st
                        if isinstance(par, ast.If) and not allowed(par.test, fld == "body"):
                            bad = bad or par
                if par is scope:
                    break
                child, par = par, getattr(par, "_parent", None)
            ctx.check("R8", f"{q.local}: an edge is dropped only for a missing or foreign producer", bad is None, q, bad if bad is not None else x,
                      f"`{norm(bad.test)[:80] if bad is not None else ''}` decides whether the predecessor is counted, for a reason other than `{pred} is None` / `{pred} not in <traversed nodes>`: "
                      "the dependency is real but invisible to the sort - a node that reads its own output (a cycle of length one) is accepted and the graph is "
                      "reordered instead of being refused unchanged",
                      how="tests that govern the statement recording a predecessor (between the binding of the candidate and the recording): guard clauses before it and ifs around it",
                      construct=f"edge dropped by {norm(bad.test)[:60] if bad is not None else ''}")
    ctx.require(n8 >= 1, "the statement through which Graph.sort records predecessors was not found")
    # R9: conditions of the sort read no re-bound field of Graph
    gslots = set(gcls0.slots or ())
    init = gcls0.methods.get("__init__")
    rebound: dict[str, str] = {}
    for g_ in repo.all_funcs():
        if not g_.key.startswith("onnx_ir") or g_ is init or isinstance(g_.node, ast.Lambda):
            continue
        for w in field_writes(g_):
            if w.kind == "store" and w.field in gslots and w.field not in rebound:
                rc = {k.name for k in ctx.typer.recv_classes(g_, w.recv)} if norm(w.recv) != "self" else ({g_.owner_class.name} if g_.owner_class is not None else set())
                if not rc or rc & {"Graph", "Function"}:
                    rebound[w.field] = g_.local
    n9 = 0
    for q in parts:
        for x in own_nodes(q.node):
            tests = []
            if isinstance(x, (ast.If, ast.While, ast.IfExp)):
                tests = [x.test]
            elif isinstance(x, ast.Assert):
                tests = [x.test]
            elif isinstance(x, ast.comprehension):
                tests = list(x.ifs)
            for t in tests:
                n9 += 1
                hit = next((y for y in ast.walk(t) if isinstance(y, ast.Attribute) and y.attr in rebound and isinstance(y.ctx, ast.Load)), None)
                if hit is not None:
                    ctx.check("R9", f"{q.local}: `{norm(t)[:60]}` reads no re-bound field of Graph", False, q, t,
                              f"`{norm(t)[:80]}` reads `{norm(hit)}`, a field of Graph that {rebound[hit.attr]} re-binds after construction: it records what earlier calls did, "
                              "and rewiring a node's inputs (Node.replace_input_with, resize_inputs) does not pass through the graph - a later sort() that trusts the note "
                              "returns without looking: an order made invalid by the rewiring stays, a cycle goes unreported (no ValueError)",
                              how="conditions of sort() and its read-only phases × fields in Graph.__slots__ stored outside Graph.__init__",
                              construct=f"sort consults the memo field {hit.attr}")
    ctx.ob("R9", f"{n9} conditions of the sort examined; re-bound Graph fields: {sorted(rebound)}", True, how="field_writes(store) outside Graph.__init__ ∩ Graph.__slots__")
    ctx.require(n9 >= 5, f"only {n9} conditions found in Graph.sort")
    # R10: emission order is the queue's
    n10 = 0
    # the drain loop may live in a private module-level helper that sort() (or a phase of it) calls - also one that counts down in place
    drain_parts = list(parts)
    for host in list(parts):
        for c in calls_in(host):
            d = dotted_of(c.func) or ""
            g_ = mod0.functions.get(d) if d.startswith("_") and "." not in d else None
            if g_ is not None and not isinstance(g_.node, ast.Lambda) and all(g_ is not x for x in drain_parts):
                drain_parts.append(g_)
    for q in drain_parts:
        pops = [c for c in calls_in(q) if (dotted_of(c.func) or "").endswith("heappop")]
        for c in pops:
            st = getattr(c, "_parent", None)
            while st is not None and not isinstance(st, ast.stmt):
                st = getattr(st, "_parent", None)
            if not isinstance(st, ast.Assign):
                continue
            names = [y.id for t in st.targets for y in ast.walk(t) if isinstance(y, ast.Name) and y.id != "_"]
            lp = getattr(st, "_parent", None)
            while lp is not None and not isinstance(lp, (ast.While, ast.For)):
                lp = getattr(lp, "_parent", None) if lp is not q.node else None
            if lp is None or not names:
                continue
            # names that carry what was popped: the targets of the pop and locals of the loop bound from them
            carried = set(names)
            for _ in range(2):
                for a in ast.walk(lp):
                    if isinstance(a, ast.Assign) and a is not st and any(isinstance(y, ast.Name) and y.id in carried for y in ast.walk(a.value)):
                        carried |= {y.id for t in a.targets for y in ast.walk(t) if isinstance(y, ast.Name) and isinstance(y.ctx, ast.Store)}
            emitted = names[-1]
            n10 += 1
            other = [a for a in ast.walk(lp) if isinstance(a, (ast.Assign, ast.AnnAssign, ast.AugAssign)) and a is not st and any(
                isinstance(y, ast.Name) and y.id in carried and isinstance(y.ctx, ast.Store) for t in (
                    a.targets if isinstance(a, ast.Assign) else [a.target]) for y in ast.walk(t))
                and not any(isinstance(y, ast.Name) and y.id in carried for y in ast.walk(getattr(a, "value", None) or ast.Pass()))]
            ctx.check("R10", f"{q.local}: the emitted node `{emitted}` comes from the queue only", not other, q, other[0] if other else st,
                      f"`{norm(other[0])[:70] if other else ''}` binds the node that is emitted next from something else than `{norm(c)[:40]}`: it jumps the queue - nodes with an "
                      "earlier place in the previous order are still waiting, so a graph that was already in a valid order comes out rearranged (`[A, B, C, D]` with C after A and "
                      "D after B becomes `[A, C, B, D]`)",
                      how="bindings of the names that carry what heapq.heappop returned inside the drain loop", construct="emitted node bound outside heappop")
            # every node that becomes free is pushed, whatever else holds
            for iff in (x for x in ast.walk(lp) if isinstance(x, ast.If)):
                zero = any(isinstance(y, ast.Compare) and len(y.ops) == 1 and isinstance(y.ops[0], (ast.Eq, ast.LtE)) and isinstance(y.comparators[0], ast.Constant)
                           and y.comparators[0].value == 0 for y in ast.walk(iff.test))
                if not zero:
                    continue
                n10 += 1
                direct = any(isinstance(b, ast.Expr) and isinstance(b.value, ast.Call) and (dotted_of(b.value.func) or "").endswith("heappush") for b in iff.body)
                ctx.check("R10", f"{q.local}: a node whose counter reaches zero is pushed unconditionally", direct, q, iff,
                          f"under `{norm(iff.test)[:50]}` the freed node is not simply pushed onto the queue (the push is missing from the branch or sits under a further condition): "
                          "a node that bypasses the queue is emitted ahead of nodes that were in front of it",
                          how="the zero test of the drain loop has heapq.heappush as a direct statement of its body", construct="freed node not pushed unconditionally")
    ctx.require(n10 >= 2, "the drain loop of Graph.sort (heappop / zero test) was not found")
    # R7
    from ..shared import ref_attr_guards

    n7 = 0
    rgi = repo.cls("onnx_ir.traversal:RecursiveGraphIterator")
    for g in parts + [m_ for m_ in repo.live(rgi.methods.values()) if not isinstance(m_.node, ast.Lambda)]:
        for node, guarded in ref_attr_guards(g):
            n7 += 1
            ctx.check("R7", f"S18 {g.local}: the graph-attribute dispatch is not reached for reference attributes", guarded, g, node,
                      f"`{norm(getattr(node, 'test', node))[:60]}` holds for a reference attribute of graph type as well, whose value is None: iterating it raises TypeError - sorting or "
                      "walking a function whose control-flow node takes its branches from attribute parameters fails (and so does deserialize_model for a model with device "
                      "configurations, which walks every node)",
                      how="an is_ref() test that continues / encloses precedes every `attr.type == GRAPH(S)` dispatch that reads attr.value", construct=f"reference attributes reach the graph dispatch of {g.local}")
    ctx.require(n7 >= 2, "graph-attribute dispatches of sort() / the recursive iterator not found")
    # … and passing over one attribute does not end the walk over the others: the loops over a node's attributes are left only
    # by running out of attributes (no `return` / `break` of their own - a reference attribute is skipped with `continue`)
    n7b = 0
    for g in parts + [m_ for m_ in repo.live(rgi.methods.values()) if not isinstance(m_.node, ast.Lambda)]:
        for lp in (x for x in own_nodes(g.node) if isinstance(x, ast.For) and any(isinstance(y, ast.Attribute) and y.attr == "attributes" for y in ast.walk(x.iter))):
            n7b += 1
            bad = None
            stack = list(lp.body)
            while stack:
                st = stack.pop()
                if isinstance(st, (ast.FunctionDef, ast.AsyncFunctionDef, ast.Lambda)):
                    continue
                if isinstance(st, ast.Return) or (isinstance(st, ast.Break)):
                    bad = bad or st
                for ch in ast.iter_child_nodes(st):
                    if isinstance(ch, (ast.For, ast.While)):
                        # a break inside an inner loop leaves that loop only; a return still leaves everything
                        stack += [r for r in ast.walk(ch) if isinstance(r, ast.Return)]
                    else:
                        stack.append(ch)
            ctx.check("R7", f"{g.local}: the loop over the node's attributes visits every attribute", bad is None, g, bad if bad is not None else lp,
                      f"`{norm(bad) if bad is not None else ''}` inside the loop over `{norm(lp.iter)[:50]}` ends the walk at the first attribute it applies to: a graph attribute stored after a "
                      "reference attribute is never visited, so the nodes of that subgraph are missing from the traversal and from the sort (its producers are not ordered, "
                      "a cycle through it goes unnoticed)",
                      how="no return / break directly in the body of the loops over <node>.attributes in sort() and the recursive iterator",
                      construct=f"walk over the attributes of a node cut short in {g.local}")
    ctx.require(n7b >= 2, "loops over a node's attributes in sort() / the recursive iterator not found")
    # R6
    n_nested = 0
    for fn in [q for p_ in parts for q in [p_] + list(p_.nested.values())]:
        for br in (x for x in own_nodes(fn.node) if isinstance(x, ast.If)):
            kinds = {y.attr for y in ast.walk(br.test) if isinstance(y, ast.Attribute) and y.attr in ("GRAPH", "GRAPHS") and (dotted_of(y) or "").endswith(f"AttributeType.{y.attr}")}
            if not kinds:
                continue
            # a generator hands every node of the subgraph on with `yield from <graph>` (the recording loop consumes them)
            for yf in [x for st in br.body for x in ast.walk(st) if isinstance(x, ast.YieldFrom)]:
                n_nested += 1
                bad = None
                par = getattr(yf, "_parent", None)
                while par is not None and par is not br:
                    if isinstance(par, (ast.If, ast.While, ast.Try, ast.IfExp, ast.BoolOp, ast.Match)):
                        bad = bad or par
                    par = getattr(par, "_parent", None)
                ctx.check("R6", f"{fn.local}: {'/'.join(sorted(kinds))} branch hands on every nested node (`{norm(yf)[:40]}`)", bad is None, fn, bad if bad is not None else yf,
                          f"the nodes of the subgraph are handed to the recording loop only when `{norm(bad.test)[:70] if isinstance(bad, (ast.If, ast.While, ast.IfExp)) else norm(bad)[:70] if bad is not None else ''}` "
                          "allows it: a nested node without the edge does not hold its outer producers before the owning node",
                          how="control conditions between the GRAPH/GRAPHS dispatch and the `yield from`", construct="nested-node edge recorded conditionally")
            loops = [x for st in br.body for x in ast.walk(st) if isinstance(x, ast.For) and isinstance(x.target, ast.Name)]
            for lp in loops:
                edge = [c for st in lp.body for c in ast.walk(st) if isinstance(c, ast.Call) and any(isinstance(a, ast.Name) and a.id == lp.target.id for a in c.args)
                        and not any(isinstance(z, ast.For) and z is not lp and any(c is w for w in ast.walk(z)) for z in ast.walk(lp))]
                if not edge:
                    continue
                ec = edge[0]
                n_nested += 1
                bad = None
                par = getattr(ec, "_parent", None)
                while par is not None and par is not br:
                    if isinstance(par, (ast.If, ast.While, ast.Try, ast.IfExp, ast.BoolOp, ast.Match)):
                        bad = bad or par
                    par = getattr(par, "_parent", None)
                pos = (ec.lineno, ec.col_offset)
                for st in br.body:
                    for x in ast.walk(st):
                        if isinstance(x, (ast.Continue, ast.Break, ast.Return)) and (x.lineno, x.col_offset) < pos:
                            bad = bad or getattr(x, "_parent", None) or x
                ctx.check("R6", f"{fn.local}: {'/'.join(sorted(kinds))} branch records {norm(ec)[:50]} for every nested node", bad is None, fn, bad if bad is not None else ec,
                          f"the edge from a node of the subgraph to the node that owns it is recorded only when `{norm(bad.test)[:70] if isinstance(bad, (ast.If, ast.While, ast.IfExp)) else norm(bad)[:70] if bad is not None else ''}` "
                          "allows it: a nested node without the edge does not hold its outer producers before the owning node (and whether it has one "
                          "depends on state outside the sorted graphs, e.g. uses by nodes that belong to no graph)",
                          how="control conditions and exits between the GRAPH/GRAPHS dispatch and the edge-recording call", construct="nested-node edge recorded conditionally")
    ctx.require(n_nested >= 2, "Graph.sort: loops recording the nodes of GRAPH / GRAPHS subgraphs as predecessors not found")
    # R5
    gcls = repo.cls(f"{CORE}:Graph")
    scope_funcs = [q for p_ in parts for q in [p_] + list(p_.nested.values())]
    seen = {f.key}
    work = [f]
    while work:
        g = work.pop()
        for c in calls_in(g):
            if isinstance(c.func, ast.Attribute) and norm(c.func.value) == "self" and c.func.attr in gcls.methods:
                h = gcls.methods[c.func.attr]
                if h.key not in seen and h.name not in ("extend", "append", "remove"):
                    seen.add(h.key)
                    scope_funcs.append(h)
                    scope_funcs += list(h.nested.values())
                    work.append(h)
    n_cmp = 0
    for g in scope_funcs:
        prod = {a.targets[0].id for a in own_nodes(g.node) if isinstance(a, ast.Assign) and isinstance(a.targets[0], ast.Name)
                and any(isinstance(c, ast.Call) and isinstance(c.func, ast.Attribute) and c.func.attr == "producer" for c in ast.walk(a.value))}
        # loop variables over a node's predecessors() are producers as well
        prod |= {x.target.id for x in own_nodes(g.node) if isinstance(x, ast.For) and isinstance(x.target, ast.Name) and isinstance(x.iter, ast.Call)
                 and isinstance(x.iter.func, ast.Attribute) and x.iter.func.attr == "predecessors"}
        # … and over a read-only helper of the sort that yields producers
        yielders = {p_.name for p_ in parts if any(isinstance(y, (ast.Yield, ast.YieldFrom)) for y in ast.walk(p_.node))
                    and any(isinstance(c, ast.Call) and isinstance(c.func, ast.Attribute) and c.func.attr == "producer" for c in ast.walk(p_.node))}
        prod |= {x.target.id for x in own_nodes(g.node) if isinstance(x, ast.For) and isinstance(x.target, ast.Name) and isinstance(x.iter, ast.Call)
                 and (dotted_of(x.iter.func) or "").split(".")[-1] in yielders}
        # parameters of nested helpers that receive a producer
        if g.parent is not None:
            outer_loop_prod = {x.target.id for x in own_nodes(g.parent.node) if isinstance(x, ast.For) and isinstance(x.target, ast.Name) and isinstance(x.iter, ast.Call)
                               and isinstance(x.iter.func, ast.Attribute) and x.iter.func.attr == "predecessors"}
            outer_prod = {a.targets[0].id for a in own_nodes(g.parent.node) if isinstance(a, ast.Assign) and isinstance(a.targets[0], ast.Name)
                          and any(isinstance(c, ast.Call) and isinstance(c.func, ast.Attribute) and c.func.attr == "producer" for c in ast.walk(a.value))}
            for c in calls_in(g.parent):
                if isinstance(c.func, ast.Name) and c.func.id == g.name:
                    for i, arg in enumerate(c.args):
                        direct = isinstance(arg, ast.Call) and isinstance(arg.func, ast.Attribute) and arg.func.attr == "producer"
                        if (direct or (isinstance(arg, ast.Name) and (arg.id in outer_prod or arg.id in outer_loop_prod))) and i < len(g.params):
                            prod.add(g.params[i])
        if not prod:
            continue
        # what a table answers for a producer (`rec = table.get(producer)`) stands for the producer's membership in it
        prod |= {a.targets[0].id for a in own_nodes(g.node) if isinstance(a, ast.Assign) and isinstance(a.targets[0], ast.Name) and isinstance(a.value, ast.Call)
                 and isinstance(a.value.func, ast.Attribute) and a.value.func.attr == "get" and a.value.args and isinstance(a.value.args[0], ast.Name) and a.value.args[0].id in prod}
        for cmp_ in (x for x in own_nodes(g.node) if isinstance(x, ast.Compare)):
            sides = [cmp_.left, *cmp_.comparators]
            if not any(isinstance(y, ast.Name) and y.id in prod for sd in sides for y in ast.walk(sd)):
                continue
            n_cmp += 1
            by_graph = [sd for sd in sides if isinstance(sd, ast.Attribute) and sd.attr == "graph" and isinstance(sd.value, ast.Name) and sd.value.id in prod]
            ctx.check("R5", f"{g.local}: `{norm(cmp_)}` decides the scope by membership in the traversed nodes", not by_graph, g, cmp_,
                      f"`{norm(cmp_)}` decides whether a producer counts by looking at the graph it belongs to: producers that live in a graph nested "
                      "between the sorted graph and the consumer's graph are treated as 'outside', so the early exit / edge is wrong for three "
                      "or more nesting levels",
                      how="comparisons on producer-derived names in sort() and the helpers it calls; `<producer>.graph` never compared",
                      construct=f"scope by graph identity: {norm(cmp_)}")
    ctx.require(n_cmp >= 2, f"only {n_cmp} comparisons on producers found in Graph.sort and its helpers")
    # Function.sort is Graph.sort of the function's graph on every path (no shortcut in the wrapper)
    fs = repo.func(f"{CORE}:Function.sort")
    cfg_f = CFG(fs.node)
    deleg = [c for c in calls_in(fs) if isinstance(c.func, ast.Attribute) and c.func.attr == "sort" and norm(c.func.value) in ("self._graph", "self.graph")]
    ok = len(deleg) == 1 and not cfg_f.path_exists_avoiding(cfg_f.entry, {cfg_f.exit.id}, {cfg_f.nodes_containing(deleg[0])[0].id}, exc=False)
    ctx.check("R3", "Function.sort delegates to its graph's sort on every path", ok, fs, fs.node,
              "Function.sort can return without sorting (a shortcut before the delegation): nested subgraphs of the body stay unsorted and a "
              "cycle is not reported on the Function path",
              how="the call self._graph.sort() lies on every path from entry to exit", construct="Function.sort shortcut")
