"""C20 — journaling observes without interfering and always restores the classes."""

from __future__ import annotations

import ast

from ..cfg import CFG
from ..facts import calls_in
from ..index import ClassInfo, FuncInfo, dotted_of, norm, own_nodes

PROPERTY = "C20"
RULES = {
    "R1": "three-table agreement: the targets captured in get_original_methods, patched in wrap_ir_classes "
    "and re-assigned in restore_ir_classes are the same set; each key names its own target; restore uses the "
    "captured original (properties: original fget + captured fset)"
    " ; the originals are captured unconditionally in the patching function before the first patch (not at construction time)",
    "R2": "Journal.__exit__ restores the classes and the previous current journal unconditionally; "
    "__enter__ saves both before patching",
    "R3": "wrapper transparency: each wrapper calls the original exactly once with its arguments unchanged, "
    "returns its result, has no try/except; each details_func accepts the wrapped method's signature"
    "  and does not iterate the call's arguments (nor does a module helper it calls)",
    "R4": "completed operations only: journal.record is dominated by the normal return of the original call",
    "R5": "no strong references: Journal.record hands the object to JournalEntry only as weakref/id/class; "
    "every details value is a string-building expression or None"
    " ; no field of JournalEntry is declared with a frame-bearing type (FrameInfo, FrameType, traceback, exception), and the values record() hands to the "
    "entry reach - through locals and the module's helpers - no call that returns live frames (inspect.stack / currentframe, sys._getframe, sys.exc_info, "
    "traceback.walk_stack): a frame keeps its locals, hence the callers' IR objects, alive for as long as the journal exists",
    "R6": "entries stay weak (shared rule S8): no memoised callable (lru_cache/cache/cached_property) of the journaling "
    "package dereferences a weak reference or reads changeable state - a cached referent is a strong reference held by the "
    "entry, and it answers `alive` after the object should have been collected",
    "R7": "no instrumented operation on a half-built object: in the constructors of the IR classes, a call that hands `self` to a "
    "method patched by wrap_ir_classes (graph.append(self) …) comes after the assignment of every field of the class's "
    "__slots__ - inside a journal the patched method formats its argument for the entry (repr reads doc_string, name, …), so a "
    "field assigned later makes the constructor raise AttributeError inside a journal and succeed outside",
    "R8": "one entry per recorded operation: every normal path through Journal.record appends one entry to the journal's list and then runs "
    "the hooks - there is no return before the append and no test that drops an entry (a filter such as 'same object, operation "
    "and details as the last entry' silently merges genuine repetitions: `g.outputs.clear()` twice is two operations)",
}
_FRAME_TYPES = ("FrameInfo", "FrameType", "TracebackType", "Traceback", "BaseException", "Exception")
_FRAME_CALLS = {"inspect.stack", "inspect.currentframe", "inspect.getouterframes", "inspect.getinnerframes", "inspect.trace", "sys._getframe", "sys.exc_info",
                "traceback.walk_stack", "traceback.walk_tb", "sys.exception"}
FLOORS = {"R1": 43, "R2": 4, "R3": 40, "R4": 4, "R5": 40, "R6": 2, "R7": 1, "R8": 2}
EXPLANATION = (
    "Compares the patch table, the capture table and the restore table of the journaling wrappers as sets of "
    "resolved targets; checks the shape of every wrapper (CFG: exactly one call of the original on every path, "
    "record after it) and of every details lambda against the signature of the method it wraps."
)
NOT_DECIDED = "equality of IR state, return values and exceptions with and without a journal (execution property)"
ASSUMPTIONS = [
    "journals are properly nested (the statement's quantifier)",
    "functools.wraps and property() behave as documented",
]

WR = "onnx_ir.journaling._wrappers"
JR = "onnx_ir.journaling._journaling"
FACTORIES = ("_init_wrapper", "_setter_wrapper", "_method_wrapper", "_container_method_wrapper")


def _strip_mod(d: str) -> str:
    """``_core.Node.name.fset`` -> ``Node.name.fset``."""
    return d.split(".", 1)[1] if "." in d else d


_TABLE_NAMES: set[str] = {"original_methods"}


def _table_names(f: FuncInfo) -> set[str]:
    """Names that hold the table of original methods inside f: locals bound to get_original_methods() and the
    parameters of f (the restore function receives the table as its argument)."""
    out = set(f.params)
    for n in own_nodes(f.node):
        if isinstance(n, (ast.Assign, ast.AnnAssign)) and getattr(n, "value", None) is not None and any(
                isinstance(x, ast.Call) and (dotted_of(x.func) or "").endswith("get_original_methods") for x in ast.walk(n.value)):
            for t in n.targets if isinstance(n, ast.Assign) else [n.target]:
                if isinstance(t, ast.Name):
                    out.add(t.id)
    return out


def _om_key(e) -> str | None:
    """<table>["K"] -> K"""
    if isinstance(e, ast.Subscript) and isinstance(e.value, ast.Name) and e.value.id in _TABLE_NAMES:
        if isinstance(e.slice, ast.Constant) and isinstance(e.slice.value, str):
            return e.slice.value
    return None


def _captured(ctx, f: FuncInfo) -> dict[str, str]:
    """The table get_original_methods returns: the entries of every dict display it is put together from (`{**a(), **b()}` with a, b
    private functions of the module returning displays, a single display, or displays merged by `|` / update)."""
    out: dict[str, str] = {}
    nodes = [f.node]
    for c in calls_in(f):
        g = f.module.functions.get(dotted_of(c.func) or "")
        if g is not None and g is not f and not isinstance(g.node, ast.Lambda):
            nodes.append(g.node)
    for fn in nodes:
        for n in ast.walk(fn):
            if isinstance(n, ast.Dict):
                for k, v in zip(n.keys, n.values):
                    if isinstance(k, ast.Constant) and isinstance(k.value, str):
                        out[k.value] = dotted_of(v) or norm(v)
    ctx.require(len(out) > 5, "get_original_methods: capture dictionary not found")
    return out


def _fold(e, env: dict):
    """Copy of e with the names of env replaced by string constants and f-strings made of constants folded."""
    from ..inline import clone

    class F(ast.NodeTransformer):
        def visit_Name(self, node):
            if isinstance(node.ctx, ast.Load) and node.id in env:
                v = env[node.id]
                if isinstance(v, ast.AST):
                    return ast.copy_location(clone(v), node)  # a name standing for an expression (a table entry, a local of the loop)
                return ast.copy_location(ast.Constant(value=v), node)
            return node

        def visit_Lambda(self, node):
            return node  # a scope of its own

        def visit_JoinedStr(self, node):
            self.generic_visit(node)
            parts = []
            for v in node.values:
                if isinstance(v, ast.Constant):
                    parts.append(str(v.value))
                elif isinstance(v, ast.FormattedValue) and isinstance(v.value, ast.Constant) and v.conversion == -1 and v.format_spec is None:
                    parts.append(str(v.value.value))
                else:
                    return node
            return ast.copy_location(ast.Constant(value="".join(parts)), node)

    out = F().visit(clone(e))
    ast.fix_missing_locations(out)
    return out


def _assign_targets(f: FuncInfo):
    """[(target dotted, value expr, stmt)] for ``_core.X.y = …`` statements - and for the same written as a loop
    ``for name in ("a", "b"): setattr(_core.X, name, <value using name>)``, read as the assignments it performs."""
    out = []
    for n in own_nodes(f.node):
        if isinstance(n, ast.Assign) and len(n.targets) == 1 and isinstance(n.targets[0], ast.Attribute):
            d = dotted_of(n.targets[0])
            if d and d.split(".")[0] in ("_core", "_graph_containers"):
                out.append((d, n.value, n))
        elif isinstance(n, ast.For) and isinstance(n.target, ast.Name) and not n.orelse and len(n.body) == 1 and isinstance(n.body[0], ast.Expr) \
                and isinstance(n.body[0].value, ast.Call) and dotted_of(n.body[0].value.func) == "setattr" and len(n.body[0].value.args) == 3:
            it = n.iter
            if isinstance(it, ast.Name):
                binds = [a.value for a in own_nodes(f.node) if isinstance(a, ast.Assign) and any(isinstance(t, ast.Name) and t.id == it.id for t in a.targets)]
                it = binds[0] if len(binds) == 1 else it
            call = n.body[0].value
            cls_d = dotted_of(call.args[0])
            if isinstance(it, (ast.Tuple, ast.List)) and all(isinstance(e, ast.Constant) and isinstance(e.value, str) for e in it.elts) \
                    and isinstance(call.args[1], ast.Name) and call.args[1].id == n.target.id and cls_d and cls_d.split(".")[0] in ("_core", "_graph_containers"):
                for e in it.elts:
                    out.append((f"{cls_d}.{e.value}", _fold(call.args[2], {n.target.id: e.value}), n))
        elif isinstance(n, ast.For) and not n.orelse and n.body and isinstance(n.body[-1], ast.Expr) and isinstance(n.body[-1].value, ast.Call) \
                and dotted_of(n.body[-1].value.func) == "setattr" and len(n.body[-1].value.args) == 3 \
                and all(isinstance(st, ast.Assign) and len(st.targets) == 1 and isinstance(st.targets[0], ast.Name) for st in n.body[:-1]):
            # `for name, extra in TABLE.items(): <locals>; setattr(_core.X, name, <value>)` with TABLE a dict display keyed by strings
            it = n.iter
            tab = None
            if isinstance(it, ast.Call) and isinstance(it.func, ast.Attribute) and it.func.attr == "items" and not it.args and isinstance(it.func.value, ast.Name):
                binds = [a.value for a in own_nodes(f.node) if isinstance(a, (ast.Assign, ast.AnnAssign)) and getattr(a, "value", None) is not None and any(
                    isinstance(t, ast.Name) and t.id == it.func.value.id for t in (a.targets if isinstance(a, ast.Assign) else [a.target]))]
                tab = binds[0] if len(binds) == 1 and isinstance(binds[0], ast.Dict) else None
            call = n.body[-1].value
            cls_d = dotted_of(call.args[0])
            if tab is not None and isinstance(n.target, ast.Tuple) and len(n.target.elts) == 2 and all(isinstance(e, ast.Name) for e in n.target.elts) \
                    and all(isinstance(k_, ast.Constant) and isinstance(k_.value, str) for k_ in tab.keys) \
                    and isinstance(call.args[1], ast.Name) and call.args[1].id == n.target.elts[0].id and cls_d and cls_d.split(".")[0] in ("_core", "_graph_containers"):
                kname, vname = n.target.elts[0].id, n.target.elts[1].id
                for k_, v_ in zip(tab.keys, tab.values):
                    env = {kname: k_.value, vname: v_}
                    for st in n.body[:-1]:
                        env[st.targets[0].id] = _fold(st.value, env)
                    out.append((f"{cls_d}.{k_.value}", _fold(call.args[2], env), n))
    return out


def _resolve_target(ctx, wmod, target: str):
    """``_core.Node.resize_inputs`` -> FuncInfo / property dict."""
    parts = target.split(".")
    obj = ctx.repo.resolve_dotted_in(wmod, ".".join(parts[:2]))
    if not isinstance(obj, ClassInfo):
        return None
    return ctx.repo.lookup(obj, parts[2])


def rule_r1(ctx):
    repo = ctx.repo
    wmod = repo.module(WR)
    cap_f = repo.func(f"{WR}:get_original_methods")
    wrap_f = repo.func(f"{WR}:wrap_ir_classes")
    rest_f = repo.func(f"{WR}:restore_ir_classes")
    cap = _captured(ctx, cap_f)
    ctx.tables["captured_targets"] = len(cap)
    # capture: key names its own target and the target exists
    for key, val in sorted(cap.items()):
        ok = _strip_mod(val) == key
        tgt = key[: -len(".fset")] if key.endswith(".fset") else key
        hit = _resolve_target(ctx, wmod, val.rsplit(".fset", 1)[0] if key.endswith(".fset") else val)
        exists = isinstance(hit, FuncInfo) if not key.endswith(".fset") else (isinstance(hit, dict) and "set" in hit)
        ctx.check("R1", f"capture {key}", ok and exists, cap_f, cap_f.node,
                  f"capture key {key!r} is bound to {val!r}" + ("" if exists else " (target does not exist in the package)"),
                  how="key == dotted target minus module alias; target resolved in _core/_graph_containers",
                  construct=f"capture {key}")
    wrap_keys, rest_keys = {}, {}
    for (fn, table, what) in ((wrap_f, wrap_keys, "wrap"), (rest_f, rest_keys, "restore")):
        _TABLE_NAMES.clear()
        _TABLE_NAMES.update(_table_names(fn))
        for target, value, stmt in _assign_targets(fn):
            tkey = _strip_mod(target)
            is_prop = isinstance(value, ast.Call) and dotted_of(value.func) == "property"
            if is_prop:
                want = tkey + ".fset"
                ok = len(value.args) == 2 and dotted_of(value.args[0]) == target + ".fget"
                used = [k for k in (_om_key(x) for x in ast.walk(value.args[1] if len(value.args) > 1 else value)) if k]
            else:
                want = tkey
                ok = True
                used = [k for k in (_om_key(x) for x in ast.walk(value)) if k]
            if what == "restore" and not is_prop:
                ok = ok and _om_key(value) == want
            if what == "restore" and is_prop:
                ok = ok and len(value.args) == 2 and _om_key(value.args[1]) == want
            ok = ok and used == [want]
            table[want] = stmt
            ctx.check("R1", f"{what} {target}", ok, fn, stmt,
                      f"{what} of {target} uses original_methods{used} (expected [{want!r}])"
                      + ("; property getter is not the target's own fget" if is_prop else ""),
                      how="assignment target ↔ original_methods key ↔ property fget",
                      construct=f"{what} {target}")
    for name, have in (("wrap_ir_classes", set(wrap_keys)), ("restore_ir_classes", set(rest_keys))):
        missing, extra = set(cap) - have, have - set(cap)
        ctx.check("R1", f"{name} covers the captured table", not missing and not extra, repo.func(f"{WR}:{name}"),
                  repo.func(f"{WR}:{name}").node,
                  f"{name}: missing {sorted(missing)}, not captured {sorted(extra)}",
                  how="set equality over resolved targets",
                  construct=f"{name}: missing={sorted(missing)} extra={sorted(extra)}")
    # wrap returns the captured table
    rets = [n for n in own_nodes(wrap_f.node) if isinstance(n, ast.Return)]
    tnames = _table_names(wrap_f) - set(wrap_f.params)
    ok = bool(rets) and all(isinstance(r.value, ast.Name) and r.value.id in tnames for r in rets)
    assigned = [n for n in own_nodes(wrap_f.node) if isinstance(n, ast.Assign) and isinstance(n.targets[0], ast.Name) and n.targets[0].id in tnames]
    # the capture is unconditional, at the top of the patching function: the "originals" are whatever the classes hold at
    # the moment of patching (a table captured earlier - at construction - can be stale: another journal may have been
    # entered or left in between)
    # unconditional (a top-level statement of the function) and before the first class attribute is patched
    patch_stmts = [st for _t, _v, st in _assign_targets(wrap_f)]
    ok = ok and len(assigned) == 1 and norm(assigned[0].value) == "get_original_methods()" and \
        assigned[0] in wrap_f.node.body and all(
            p_ in wrap_f.node.body and wrap_f.node.body.index(assigned[0]) < wrap_f.node.body.index(p_) for p_ in patch_stmts)
    ctx.check("R1", "wrap_ir_classes returns the table captured before patching", ok, wrap_f, assigned[0] if assigned else wrap_f.node,
              "the table that is wrapped and later handed to restore is not captured unconditionally at the time of patching "
              "(first statement of wrap_ir_classes): with a table captured at another time, nested or re-entered journals wrap and "
              "restore the wrong methods",
              how="single unconditional capture as first statement; returned unchanged")


def _saved_state(en: FuncInfo, ex: FuncInfo):
    """How __enter__ hands what it has to undo over to __exit__.

    Returns (carriers, exit_names): carriers = {field: (kind, holds)} with kind 'slot' (`self.F = v`) or 'stack' (`self.F.append(v)`
    paired with `self.F.pop()` in __exit__) and holds ⊆ {'table', 'previous'} (the table returned by wrap_ir_classes, the journal that
    was current before); exit_names = {name or `self.F`: holds} for the expressions of __exit__ that read a carrier back."""
    me = en.params[0]
    holds: dict[str, set[str]] = {}
    # locals of __enter__: what they hold
    for n in own_nodes(en.node):
        if isinstance(n, ast.Assign) and len(n.targets) == 1 and isinstance(n.targets[0], ast.Name):
            v = n.value
            if isinstance(v, ast.Call) and (dotted_of(v.func) or "").endswith("wrap_ir_classes"):
                holds.setdefault(n.targets[0].id, set()).add("table")
            if isinstance(v, ast.Name) and v.id == "_current_journal":
                holds.setdefault(n.targets[0].id, set()).add("previous")

    def what(e) -> set[str]:
        out: set[str] = set()
        for x in ast.walk(e):
            if isinstance(x, ast.Call) and (dotted_of(x.func) or "").endswith("wrap_ir_classes"):
                out.add("table")
            if isinstance(x, ast.Name) and x.id == "_current_journal":
                out.add("previous")
            if isinstance(x, ast.Name) and x.id in holds:
                out |= holds[x.id]
        return out

    carriers: dict[str, tuple[str, set[str]]] = {}
    fields: dict[str, dict[str, set[str]]] = {}
    for n in own_nodes(en.node):
        if isinstance(n, ast.Assign) and len(n.targets) == 1 and isinstance(n.targets[0], ast.Attribute) and norm(n.targets[0].value) == me:
            h = what(n.value)
            if h:
                carriers[n.targets[0].attr] = ("slot", h)
        if isinstance(n, ast.Call) and isinstance(n.func, ast.Attribute) and n.func.attr == "append" and isinstance(n.func.value, ast.Attribute) \
                and norm(n.func.value.value) == me and n.args:
            h = what(n.args[0])
            if h:
                carriers[n.func.value.attr] = ("stack", h)
                # a record pushed as `Record(a, b)` (a NamedTuple / dataclass of the module) is read back by field name
                a0 = n.args[0]
                if isinstance(a0, ast.Call) and isinstance(a0.func, ast.Name) and a0.func.id in en.module.classes and not a0.keywords:
                    cls = en.module.classes[a0.func.id]
                    names = [st.target.id for st in cls.node.body if isinstance(st, ast.AnnAssign) and isinstance(st.target, ast.Name)]
                    if len(names) == len(a0.args):
                        fields[n.func.value.attr] = {nm: what(arg) for nm, arg in zip(names, a0.args)}
                elif isinstance(a0, ast.Call) and isinstance(a0.func, ast.Name) and a0.func.id in en.module.classes and a0.keywords and not a0.args:
                    fields[n.func.value.attr] = {k.arg: what(k.value) for k in a0.keywords if k.arg}
    me2 = ex.params[0]
    exit_names: dict[str, set[str]] = {}
    for f_, (kind, h) in carriers.items():
        if kind == "slot":
            exit_names[f"{me2}.{f_}"] = set(h)
    for n in own_nodes(ex.node):
        if isinstance(n, ast.Assign) and isinstance(n.value, ast.Call) and isinstance(n.value.func, ast.Attribute) and n.value.func.attr == "pop" \
                and isinstance(n.value.func.value, ast.Attribute) and norm(n.value.func.value.value) == me2 and not n.value.args:
            fld = n.value.func.value.attr
            if fld in carriers and carriers[fld][0] == "stack":
                for t in n.targets:
                    for x in ast.walk(t):
                        if isinstance(x, ast.Name):
                            exit_names[x.id] = set(carriers[fld][1])
                            for fname, h in fields.get(fld, {}).items():
                                exit_names[f"{x.id}.{fname}"] = set(h)
    # locals of __exit__ copied from what was read back (`a, b = self.A, self.B` / `a = self.A`)
    for _ in range(2):
        for n in own_nodes(ex.node):
            if not isinstance(n, ast.Assign) or len(n.targets) != 1:
                continue
            t, v = n.targets[0], n.value
            pairs = list(zip(t.elts, v.elts)) if isinstance(t, ast.Tuple) and isinstance(v, ast.Tuple) and len(t.elts) == len(v.elts) else [(t, v)]
            for tt, vv in pairs:
                if isinstance(tt, ast.Name) and norm(vv) in exit_names:
                    exit_names.setdefault(tt.id, set()).update(exit_names[norm(vv)])
    return carriers, exit_names


def rule_r2(ctx):
    repo = ctx.repo
    jc = repo.cls(f"{JR}:Journal")
    ex, en = jc.methods.get("__exit__"), jc.methods.get("__enter__")
    ctx.require(ex is not None and en is not None, "Journal.__enter__/__exit__ not found")
    carriers, exit_names = _saved_state(en, ex)
    ctx.tables["journal state handed from __enter__ to __exit__"] = {k: [v[0], sorted(v[1])] for k, v in carriers.items()}
    cfg = CFG(ex.node)
    calls = [c for c in calls_in(ex) if (dotted_of(c.func) or "").endswith("restore_ir_classes")]
    ok = False
    if calls:
        n = cfg.nodes_containing(calls[0])
        arg = norm(calls[0].args[0]) if calls[0].args else ""
        ok = bool(n) and cfg.dominates(n[0], cfg.exit) and n[0].kind == "stmt" and \
            getattr(getattr(calls[0], "_parent", None), "_parent", None) is ex.node and "table" in exit_names.get(arg, ())
    ctx.check("R2", "__exit__: restore_ir_classes(<the table captured on entry>) on every path", ok, ex, ex.node,
              "leaving the journal does not always restore the IR classes (guarded or missing restore call, or not the table captured by this entry)",
              how="call is a top-level statement dominating the exit; its argument reads back what __enter__ stored from wrap_ir_classes(self)")
    prev = [n for n in own_nodes(ex.node) if isinstance(n, ast.Assign) and norm(n.targets[0]) == "_current_journal"]
    ok = bool(prev) and "previous" in exit_names.get(norm(prev[0].value), ()) and getattr(prev[0], "_parent", None) is ex.node
    ok = ok and not any(isinstance(n, (ast.Try, ast.Return)) for n in own_nodes(ex.node))
    ctx.check("R2", "__exit__: previous current journal restored unconditionally", ok, ex, ex.node,
              "the previous current journal is not restored on every path",
              how="top-level assignment from the journal saved on entry; no early return")
    # __enter__: the previous journal is read before it is replaced; the captured table is kept
    cfg_e = CFG(en.node)
    reads = [n for n in own_nodes(en.node) if isinstance(n, (ast.Assign, ast.Expr)) and any(isinstance(x, ast.Name) and x.id == "_current_journal" and isinstance(x.ctx, ast.Load)
                                                                                               for x in ast.walk(n))]
    sets = [n for n in own_nodes(en.node) if isinstance(n, ast.Assign) and norm(n.targets[0]) == "_current_journal"]
    ok = bool(reads) and len(sets) == 1 and norm(sets[0].value) == en.params[0]
    if ok:
        rn, sn = cfg_e.node_of(reads[0]), cfg_e.node_of(sets[0])
        ok = bool(rn and sn) and cfg_e.dominates(rn[0], sn[0]) and rn[0].id != sn[0].id
    ok = ok and any("table" in h for _k, h in carriers.values()) and any("previous" in h for _k, h in carriers.values())
    ctx.check("R2", "__enter__: saves previous journal, stores the captured table", bool(ok), en, en.node,
              "__enter__ does not save the previous journal before replacing it / loses the captured table",
              how="the read of _current_journal dominates its replacement; both saved values reach a field of the journal")
    # … and every entry patches for itself: wrap_ir_classes(self) lies on every path through __enter__ - what an entry later restores
    # is the state it found, so an entry that borrows the table of an enclosing entry (a shortcut for `with j: … with j:`) makes the
    # inner exit undo the outer entry's patch while the outer block is still running
    wraps = [c for c in calls_in(en) if (dotted_of(c.func) or "").endswith("wrap_ir_classes")]
    ok = False
    if wraps:
        wn = cfg_e.nodes_containing(wraps[0])
        ok = bool(wn) and cfg_e.dominates(wn[0], cfg_e.exit)
    ctx.check("R2", "__enter__: wrap_ir_classes(self) on every path", ok, en, wraps[0] if wraps else en.node,
              "some path through __enter__ does not patch the classes itself (and so saves a table that another entry captured): when that entry is left, the classes are "
              "restored to what they were before the *enclosing* entry - operations in the rest of the enclosing block are no longer recorded, and the classes do not "
              "behave as they did before the inner block was entered",
              how="the call of wrap_ir_classes dominates the exit of __enter__", construct="entry without a patch of its own")
    glob = [n for n in ast.walk(ex.node) if isinstance(n, ast.Global)] and [n for n in ast.walk(en.node) if isinstance(n, ast.Global)]
    ctx.check("R2", "enter/exit declare _current_journal global", bool(glob), en, en.node,
              "_current_journal assignment would be local", nontrivial=False)
    # re-entry: `with j: … with j:` is proper nesting; what one entry saved must survive a nested entry of the same object
    refuses = any(isinstance(n, ast.Raise) for n in own_nodes(en.node))
    for fld, (kind, h) in sorted(carriers.items()):
        ok = kind == "stack" or refuses
        ctx.check("R2", f"__enter__: `{fld}` ({'/'.join(sorted(h))}) survives a nested entry of the same journal", ok, en, en.node,
                  f"`self.{fld}` is a single slot overwritten by every entry: when the same Journal object is entered again inside its own `with` block, the inner entry "
                  f"replaces what the outer one saved ({'the table of original methods' if 'table' in h else 'the previous journal'}), so the outer exit restores the inner "
                  "entry's view - the IR classes stay patched (and the current journal stays set) after the outermost block is left",
                  how="state handed from __enter__ to __exit__ is pushed on a per-journal stack and popped, or __enter__ refuses a second entry",
                  construct=f"single slot {fld} shared by nested entries")


def rule_r8(ctx):
    jc = ctx.repo.cls(f"{JR}:Journal")
    rec = jc.methods.get("record")
    ctx.require(rec is not None, "Journal.record not found")
    cfg = CFG(rec.node)
    me = rec.params[0]
    appends = [c for c in calls_in(rec) if isinstance(c.func, ast.Attribute) and c.func.attr == "append" and isinstance(c.func.value, ast.Attribute)
               and norm(c.func.value.value) == me and not any(isinstance(a, (ast.For, ast.While)) for a in _anc(c, rec.node))]
    ctx.require(bool(appends), "Journal.record: append to the entry list not found")
    via = {n.id for c in appends for n in cfg.nodes_containing(c)}
    ok = len(appends) == 1 and cfg.all_paths_through(cfg.entry, via, {cfg.exit.id}, exc=False)
    early = next((r for r in own_nodes(rec.node) if isinstance(r, ast.Return)), None)
    ctx.check("R8", "Journal.record: every normal path appends exactly one entry", bool(ok), rec, early if early is not None else rec.node,
              "Journal.record can return without appending the entry (or appends more than one): an instrumented operation that completed leaves no entry - e.g. "
              "two identical consecutive operations are merged into one",
              how="must-pass query on the CFG of record(): entry → `self.<entries>.append(…)` → exit; a single append outside loops",
              construct="record() can skip the append")
    # the hooks see every entry: the loop over the hooks is reached on every path as well and is not guarded
    loops = [lp for lp in own_nodes(rec.node) if isinstance(lp, ast.For) and isinstance(lp.iter, ast.Attribute) and norm(lp.iter.value) == me]
    okh = False
    if loops:
        ln = [n for n in cfg.node_of(loops[0]) if n.kind == "iter"]
        okh = bool(ln) and cfg.all_paths_through(cfg.entry, {ln[0].id}, {cfg.exit.id}, exc=False)
    ctx.check("R8", "Journal.record: the hooks are run for every entry", okh, rec, loops[0] if loops else rec.node,
              "the hooks of the journal are not called for every recorded entry", how="must-pass query: entry → loop over self.<hooks> → exit", nontrivial=False,
              construct="record() can skip the hooks")


def _anc(n, stop):
    p = getattr(n, "_parent", None)
    while p is not None and p is not stop:
        yield p
        p = getattr(p, "_parent", None)


def _wrapper_of(factory: FuncInfo) -> FuncInfo | None:
    return factory.nested.get("wrapper")


def _role_params(factory: FuncInfo):
    """(journal parameter, original-callable parameter) of a wrapper factory, by role: the parameter annotated with the Journal
    class, and the first positional parameter annotated as a Callable (fallback: first and second positional parameter)."""
    a = factory.node.args
    pos = a.posonlyargs + a.args
    jr = next((x.arg for x in pos if x.annotation is not None and "Journal" in norm(x.annotation)), pos[0].arg if pos else None)
    orig = next((x.arg for x in pos if x.annotation is not None and "Callable" in norm(x.annotation) and x.arg != jr),
                next((x.arg for x in pos if x.arg != jr), None))
    return jr, orig


def rule_r3_r4(ctx):
    repo = ctx.repo
    for name in FACTORIES:
        fac = repo.func(f"{WR}:{name}")
        w = _wrapper_of(fac)
        journal_param, orig_param = _role_params(fac)
        ctx.require(orig_param is not None and journal_param is not None, f"{name}: journal / original parameters not found")
        if w is None:
            # a factory may be a thin front of another factory: `return <factory>(<original>, …)` hands the original over
            # unchanged and the wrapper obligations are those of the factory it delegates to (examined under its own name)
            body = [s_ for s_ in fac.node.body if not (isinstance(s_, ast.Expr) and isinstance(s_.value, ast.Constant))]
            dele = None
            if len(body) == 1 and isinstance(body[0], ast.Return) and isinstance(body[0].value, ast.Call):
                c = body[0].value
                tg = repo.find_func(f"{WR}:{dotted_of(c.func)}") if dotted_of(c.func) else None
                if tg is not None and _wrapper_of(tg) is not None:
                    tp = _role_params(tg)[1]
                    passed = None
                    if tp is not None:
                        i = tg.params.index(tp)
                        passed = c.args[i] if i < len(c.args) else next((k.value for k in c.keywords if k.arg == tp), None)
                    if passed is not None and norm(passed) == orig_param:
                        dele = tg
            ctx.require(dele is not None, f"{name}: nested wrapper not found")
            ctx.check("R3", f"{name}: delegates to {dele.local} with the original handed over unchanged", dele.name in FACTORIES, fac, fac.node,
                      f"{name} builds its wrapper through {dele.local}, which is not one of the examined wrapper factories",
                      how="`return <factory>(<original>, …)`: the wrapper obligations are the delegate's")
            ctx.ob("R4", f"{name}: records through the wrapper of {dele.local}", True, nontrivial=False, how="delegation (see R3)")
            continue
        ocalls = [c for c in calls_in(w) if isinstance(c.func, ast.Name) and c.func.id == orig_param]
        cfg = CFG(w.node)
        # exactly once on every path
        ok = len(ocalls) == 1
        if ok:
            on = cfg.nodes_containing(ocalls[0])
            ok = bool(on) and cfg.dominates(on[0], cfg.exit) and not any(
                isinstance(a, (ast.For, ast.While, ast.ListComp, ast.GeneratorExp)) for a in _anc(ocalls[0], w.node))
        ctx.check("R3", f"{name}: original called exactly once on every path", ok, w, w.node,
                  f"wrapper calls {orig_param} {len(ocalls)} time(s) or not on every path",
                  how="single call site dominating the exit, not in a loop")
        if not ocalls:
            continue
        call = ocalls[0]
        # arguments passed through unchanged
        a = w.node.args
        want_pos = [x.arg for x in a.posonlyargs + a.args]
        got = [norm(x) for x in call.args] + [f"**{norm(k.value)}" if k.arg is None else f"{k.arg}={norm(k.value)}" for k in call.keywords]
        want = list(want_pos) + ([f"*{a.vararg.arg}"] if a.vararg else []) + ([f"**{a.kwarg.arg}"] if a.kwarg else [])
        rebinds = [n for n in own_nodes(w.node) if isinstance(n, (ast.Assign, ast.AugAssign)) and
                   any(isinstance(t, ast.Name) and t.id in set(w.params) for t in (n.targets if isinstance(n, ast.Assign) else [n.target]))]  # fmt: skip
        ctx.check("R3", f"{name}: arguments forwarded unchanged", got == want and not rebinds, w, call,
                  f"original is called with ({', '.join(got)}) but the wrapper received ({', '.join(want)})",
                  how="call arguments equal the wrapper's own parameter list; parameters never rebound")
        # result returned
        st = getattr(call, "_parent", None)
        returns_result = isinstance(st, ast.Return)
        needs = name in ("_method_wrapper", "_container_method_wrapper")
        if not returns_result and needs:
            # result bound to a local that is returned on every path
            if isinstance(st, ast.Assign) and isinstance(st.targets[0], ast.Name):
                var = st.targets[0].id
                rets = [n for n in own_nodes(w.node) if isinstance(n, ast.Return)]
                returns_result = bool(rets) and all(isinstance(r.value, ast.Name) and r.value.id == var for r in rets) \
                    and all(cfg.dominates(cfg.nodes_containing(call)[0], cfg.node_of(r)[0]) for r in rets)
                on = cfg.nodes_containing(call)[0]
                returns_result = returns_result and cfg.all_paths_through(on, {cfg.node_of(r)[0].id for r in rets}, {cfg.exit.id}, exc=False)
        ctx.check("R3", f"{name}: result of the original returned", returns_result or not needs, w, call,
                  "the wrapped method's return value is dropped", how="return <original call> (or a local bound to it)")
        has_try = any(isinstance(n, ast.Try) for n in own_nodes(w.node))
        ctx.check("R3", f"{name}: no try/except in the wrapper", not has_try, w, w.node,
                  "wrapper can swallow or change the original's exception", nontrivial=False)
        # R4: record after the original returned normally
        recs = [c for c in calls_in(w) if norm(c.func) == f"{journal_param}.record"]
        ctx.require(len(recs) >= 1, f"{name}: journal.record call not found")
        on = cfg.nodes_containing(call)[0]
        for r in recs:
            rn = cfg.nodes_containing(r)[0]
            ok = cfg.dominates(on, rn) and on.id != rn.id
            ctx.check("R4", f"{name}: record after the original completes", ok, w, r,
                      "the operation is journaled before the wrapped call runs, so a rejected (raising) "
                      "call still leaves an entry",
                      how="original call dominates journal.record in the wrapper's CFG",
                      construct="journal.record precedes the call of the original")


def _anc(node, stop):
    p = getattr(node, "_parent", None)
    while p is not None and p is not stop:
        yield p
        p = getattr(p, "_parent", None)


def _sig_compatible(lam: ast.Lambda, meth: FuncInfo) -> str | None:
    """None if every call accepted by the method is accepted by the lambda (self included)."""
    la, ma = lam.args, meth.node.args
    l_pos = [x.arg for x in la.posonlyargs + la.args]
    m_posonly = [x.arg for x in ma.posonlyargs]
    m_pos = [x.arg for x in ma.args]
    m_all_pos = m_posonly + m_pos
    n_l_def, n_m_def = len(la.defaults), len(ma.defaults)
    if la.vararg is None and len(l_pos) < len(m_all_pos):
        return f"lambda takes {len(l_pos)} positional parameters, method takes {len(m_all_pos)}"
    if la.vararg is None and ma.vararg is not None:
        return "method accepts *args, lambda does not"
    # required-ness: a parameter optional in the method must be optional in the lambda
    m_required = len(m_all_pos) - n_m_def
    l_required = len(l_pos) - n_l_def
    if l_required > m_required:
        return f"lambda requires {l_required} positional arguments, method only {m_required}"
    # keyword-callable names must match
    if la.kwarg is None:
        for i, nme in enumerate(m_all_pos):
            if i < len(m_posonly) or i == 0:
                continue
            if i < len(l_pos) and l_pos[i] != nme:
                return f"parameter {i} is {nme!r} in the method but {l_pos[i]!r} in the lambda (keyword calls fail)"
        lk = {x.arg for x in la.kwonlyargs} | set(l_pos)
        for x in ma.kwonlyargs:
            if x.arg not in lk:
                return f"keyword-only parameter {x.arg!r} not accepted by the lambda"
        if ma.kwarg is not None:
            return "method accepts **kwargs, lambda does not"
    # defaults must agree in value for documented optional parameters
    if n_l_def and n_m_def:
        for ld, md in zip(reversed(la.defaults), reversed(ma.defaults)):
            if norm(ld) != norm(md):
                return f"default {norm(ld)} differs from the method's {norm(md)}"
    return None


def _stringy(e: ast.expr, mod=None, depth=0) -> bool:
    if isinstance(e, ast.JoinedStr):
        return True
    if isinstance(e, ast.Constant):
        return e.value is None or isinstance(e.value, str)
    if isinstance(e, ast.Call) and dotted_of(e.func) in ("repr", "str", "format"):
        return True
    if isinstance(e, ast.Call) and isinstance(e.func, ast.Attribute) and e.func.attr in ("join", "format") and _stringy(e.func.value, mod, depth):
        return True
    if isinstance(e, ast.Call) and mod is not None and depth < 2:
        # a helper of the wrapper module: every value it returns is a string-building expression
        g = mod.functions.get(dotted_of(e.func) or "")
        if g is not None:
            rets = [r for r in own_nodes(g.node) if isinstance(r, ast.Return)]
            return bool(rets) and all(r.value is not None and _stringy(r.value, mod, depth + 1) for r in rets)
    if isinstance(e, ast.IfExp):
        return _stringy(e.body, mod, depth) and _stringy(e.orelse, mod, depth)
    if isinstance(e, ast.BinOp) and isinstance(e.op, (ast.Add, ast.Mod)):
        return _stringy(e.left, mod, depth)
    return False


_CONSUMING = ("list", "tuple", "set", "frozenset", "sorted", "iter", "next", "len", "sum", "any", "all", "min", "max", "enumerate", "zip", "reversed", "dict")


def _consumes_params(fn_node, mod=None, depth=0):
    """A node inside a details function (lambda or helper) that iterates one of its parameters, or None.
    The details are built before the wrapped method runs and receive the caller's own argument objects: iterating a
    one-shot iterable there leaves nothing for the real method (repr()/str()/f-string formatting do not iterate)."""
    a = fn_node.args
    pl = [x.arg for x in a.posonlyargs + a.args + a.kwonlyargs]
    # the receiver (`self`, first parameter of a details lambda) is a container of the library, not a caller-supplied
    # iterable; only the call's own arguments can be one-shot
    params = set(pl[1:]) if depth == 0 and pl and pl[0] == "self" else set(pl)
    body = fn_node.body if isinstance(fn_node.body, list) else [fn_node.body]
    for st in body:
        for x in ast.walk(st):
            if isinstance(x, ast.Call):
                d = dotted_of(x.func) or ""
                if d in _CONSUMING and any(isinstance(y_, ast.Name) and y_.id in params for y_ in x.args):
                    return x
                if mod is not None and depth < 2 and d in mod.functions:
                    g = mod.functions[d]
                    passed = [i for i, arg in enumerate(x.args) if isinstance(arg, ast.Name) and arg.id in params]
                    if passed:
                        hit = _consumes_params(g.node, mod, depth + 1)
                        if hit is not None:
                            return x
            if isinstance(x, (ast.For, ast.comprehension)) and isinstance(x.iter, ast.Name) and x.iter.id in params:
                return x.iter
            if isinstance(x, ast.Starred) and isinstance(x.value, ast.Name) and x.value.id in params:
                return x
    return None


def rule_r3_sigs_r5(ctx):
    repo = ctx.repo
    wmod = repo.module(WR)
    wrap_f = repo.func(f"{WR}:wrap_ir_classes")
    _TABLE_NAMES.clear()
    _TABLE_NAMES.update(_table_names(wrap_f))
    for target, value, stmt in _assign_targets(wrap_f):
        for call in [x for x in ast.walk(value) if isinstance(x, ast.Call) and dotted_of(x.func) in FACTORIES]:
            fac = dotted_of(call.func)
            df = next((k.value for k in call.keywords if k.arg == "details_func"), None)
            keys = [k for k in (_om_key(x) for x in ast.walk(call)) if k]
            key = keys[0] if keys else _strip_mod(target)
            if fac == "_setter_wrapper":
                # reads getattr(self, "<private>") — must be the field the setter writes
                priv = call.args[2].value if len(call.args) > 2 and isinstance(call.args[2], ast.Constant) else None
                cls = repo.resolve_dotted_in(wmod, ".".join(target.split(".")[:2]))
                ok = False
                if isinstance(cls, ClassInfo) and priv:
                    prop = repo.lookup(cls, target.split(".")[2])
                    if isinstance(prop, dict) and "set" in prop:
                        slots = set()
                        for k in repo.mro(cls):
                            if isinstance(k, ClassInfo):
                                slots |= set(k.slots or ())
                        ok = priv in slots or any(
                            isinstance(n, ast.Attribute) and n.attr == priv for n in ast.walk(prop["set"].node))
                ctx.check("R3", f"setter wrapper {target}: reads existing field {priv!r}", ok, wrap_f, stmt,
                          f"old value is read through getattr(self, {priv!r}) which is not a field of the class — "
                          "the wrapper would raise where the bare setter succeeds",
                          how="field is a slot of the class or written by the setter", construct=f"setter {target} {priv}")
                ctx.ob("R5", f"{target}: details is an f-string of reprs", True, nontrivial=False)
                continue
            if df is None:
                # default details_func=repr
                ctx.ob("R5", f"{target}: details_func defaults to repr", True, nontrivial=False)
                continue
            if isinstance(df, ast.Name) and df.id in wmod.functions:
                # a named module-level function that only returns an expression is read like the lambda it replaces
                g = wmod.functions[df.id]
                body = [x for x in g.node.body if not (isinstance(x, ast.Expr) and isinstance(x.value, ast.Constant) and isinstance(x.value.value, str))
                        and not isinstance(x, ast.Pass) and not (isinstance(x, ast.Delete) and all(isinstance(t, ast.Name) for t in x.targets))]
                if not body:
                    body = [ast.Return(value=None)]
                if len(body) == 1 and isinstance(body[0], ast.Return) and not g.node.decorator_list:
                    lam = ast.Lambda(args=g.node.args, body=body[0].value if body[0].value is not None else ast.Constant(value=None))
                    ast.copy_location(lam, g.node)
                    lam._parent = getattr(df, "_parent", None)
                    df = lam
            if not isinstance(df, ast.Lambda):
                ctx.check("R5", f"{target}: details_func is a lambda or a one-expression module function", False, wrap_f, stmt,
                          "details_func is neither a lambda nor a module-level function returning one expression; cannot check what it retains", construct=f"details {target}")
                continue
            used = _consumes_params(df, wmod)
            ctx.check("R3", f"{target}: details_func does not iterate the call's arguments", used is None, wrap_f, used if used is not None else df,
                      f"the details function iterates an argument of the journaled call (`{norm(used) if used is not None else ''}`): it runs on "
                      "the caller's own objects before the wrapped method, so a one-shot iterable (generator, map, iter(...)) is exhausted and "
                      "the real method receives nothing - the operation behaves differently inside a journal",
                      how="no list()/tuple()/sorted()/len()/for/* over a parameter in the lambda or the module helper it calls",
                      construct=f"details {target} consumes an argument")
            ctx.check("R5", f"{target}: details value is a string-building expression", _stringy(df.body, wmod), wrap_f, df,
                      "details_func may return a live IR object, which the journal entry would keep alive",
                      how="lambda body is an f-string / repr() / str() / None", construct=f"details {target}")
            if fac == "_init_wrapper":
                ok = len(df.args.args) == 1 and not df.args.kwonlyargs
                ctx.check("R3", f"{target}: details_func(self)", ok, wrap_f, df,
                          "init details_func must take exactly self", construct=f"sig {target}", nontrivial=False)
                continue
            tpath = target if not key.endswith(".fset") else target
            hit = _resolve_target(ctx, wmod, tpath)
            meth = hit.get("set") if isinstance(hit, dict) else hit
            if not isinstance(meth, FuncInfo):
                ctx.check("R3", f"{target}: wrapped method resolvable", False, wrap_f, stmt,
                          "wrapped method not found in the package", construct=f"sig {target}")
                continue
            why = _sig_compatible(df, meth)
            ctx.check("R3", f"{target}: details_func accepts {meth.local}'s signature", why is None, wrap_f, df,
                      f"details_func{norm(df.args) and '(' + norm(df.args) + ')'} vs {meth.local}({norm(meth.node.args)}): {why}",
                      how="positional arity, required-ness, keyword names, defaults compared with the definition",
                      construct=f"sig {target}")
    # Journal.record
    rec = repo.cls(f"{JR}:Journal").methods.get("record")
    ctx.require(rec is not None, "Journal.record not found")
    obj = rec.params[1]
    bad = []
    for n in own_nodes(rec.node):
        if isinstance(n, ast.Name) and n.id == obj:
            p = getattr(n, "_parent", None)
            ok = (
                (isinstance(p, ast.Call) and dotted_of(p.func) in ("weakref.ref", "id") and p.args and p.args[0] is n)
                or (isinstance(p, ast.Attribute) and p.attr == "__class__")
                or (isinstance(p, ast.Compare))
            )
            if not ok:
                bad.append(norm(p))
    ctx.check("R5", "Journal.record: object only as weakref.ref(obj) / id(obj) / obj.__class__", not bad, rec, rec.node,
              f"the recorded object escapes strongly through {bad}",
              how="every occurrence of the parameter classified by its parent expression")
    je = repo.cls(f"{JR}:JournalEntry")
    ok = je.is_frozen_dataclass()
    ctx.check("R5", "JournalEntry is a frozen dataclass", ok, je, je.node, "entries are mutable", nontrivial=False)
    for fname, annx in je.ann_fields.items():
        t = norm(annx)
        ok = not any(k in t for k in ("Any", "object")) or fname in ()
        ctx.check("R5", f"JournalEntry.{fname}: {t}", ok, je, je.node,
                  f"field {fname} may hold an arbitrary (strong) object reference", nontrivial=False,
                  construct=f"field {fname}: {t}")
        framey = next((k for k in _FRAME_TYPES if k in t), None)
        ctx.check("R5", f"JournalEntry.{fname}: no frame-bearing type", framey is None, je, je.node,
                  f"field {fname} is declared `{t}`: a {framey} holds the live frame object, and through the frame's locals every IR object the callers had in "
                  "hand - an entry then keeps those objects alive for as long as the journal exists (`ref` being weak does not help)", nontrivial=False,
                  construct=f"field {fname} holds frames: {t}")
    # … and what record() stores besides the object comes from frame-free sources: the values handed to the JournalEntry
    # constructor (through the module's helpers) call nothing that returns live frames or tracebacks
    jmod = repo.module(JR)
    ctor = [c for c in calls_in(rec) if (dotted_of(c.func) or "").split(".")[-1] == "JournalEntry"]
    ctx.require(bool(ctor), "Journal.record: the JournalEntry(...) call was not found")

    def frame_source(e, depth=0, seen=None):
        seen = seen if seen is not None else set()
        for x in ast.walk(e):
            if isinstance(x, ast.Call):
                d = dotted_of(x.func) or ""
                if d in _FRAME_CALLS or d.split(".")[-1] in {k.split(".")[-1] for k in _FRAME_CALLS if k.startswith(("inspect.", "sys._"))}:
                    return x
                g = jmod.functions.get(d) if "." not in d else None
                if g is not None and g.key not in seen and depth < 4 and not isinstance(g.node, ast.Lambda):
                    seen.add(g.key)
                    for y in own_nodes(g.node):
                        if isinstance(y, (ast.Return, ast.Assign)) and getattr(y, "value", None) is not None:
                            r = frame_source(y.value, depth + 1, seen)
                            if r is not None:
                                return r
            if isinstance(x, ast.Attribute) and x.attr in ("__traceback__", "tb_frame", "f_back", "f_locals", "gi_frame"):
                return x
            if isinstance(x, ast.Name) and depth < 4:
                for a in own_nodes(rec.node):
                    if isinstance(a, ast.Assign) and any(isinstance(t_, ast.Name) and t_.id == x.id for t_ in a.targets) and id(a) not in seen:
                        seen.add(id(a))
                        r = frame_source(a.value, depth + 1, seen)
                        if r is not None:
                            return r
        return None

    for c in ctor:
        for k in c.keywords:
            bad = frame_source(k.value)
            ctx.check("R5", f"Journal.record: `{k.arg}` of the entry comes from a frame-free source", bad is None, rec, k.value,
                      f"`{k.arg}={norm(k.value)[:50]}` reaches `{norm(bad)[:60] if bad is not None else ''}`, which returns live frame (or traceback) objects: every entry then strongly "
                      "references the frames that were on the stack when it was recorded and, through their locals, the IR objects the callers held - after those functions "
                      "return, the objects are never collected while the journal is alive, although `entry.ref` is weak",
                      how="values of the JournalEntry(...) keywords in Journal.record, followed through locals and the module's helper functions × frame-returning calls "
                          "(inspect.stack / currentframe / getouterframes / trace, sys._getframe, sys.exc_info, traceback.walk_stack / walk_tb) and frame attributes",
                      construct=f"entry field {k.arg} holds live frames")


def rule_r7(ctx):
    repo = ctx.repo
    wmod = repo.module(WR)
    wrap_f = repo.func(f"{WR}:wrap_ir_classes")
    patched = set()
    for target, _value, _stmt in _assign_targets(wrap_f):
        hit = _resolve_target(ctx, wmod, target)
        if isinstance(hit, FuncInfo):
            patched.add(hit.key)
    ctx.require(len(patched) >= 10, f"only {len(patched)} patched methods resolved")
    n = 0
    for mn in ("onnx_ir._core", "onnx_ir._graph_containers"):
        for c in repo.module(mn).classes.values():
            init = c.methods.get("__init__")
            if init is None or not c.slots:
                continue
            selfn = init.params[0]
            cfg = None
            for call in calls_in(init):
                if not any(isinstance(a, ast.Name) and a.id == selfn for a in call.args):
                    continue
                try:
                    hits, _ = ctx.typer.callees(init, call, False)
                except Exception:
                    hits = []
                if not any(h.key in patched for h in hits):
                    continue
                n += 1
                cfg = cfg or CFG(init.node)
                cn = cfg.nodes_containing(call)
                missing = []
                for slot in c.slots:
                    if slot.startswith("__"):
                        continue
                    stores = [x for x in own_nodes(init.node) if isinstance(x, (ast.Assign, ast.AnnAssign)) and any(
                        isinstance(t, ast.Attribute) and isinstance(t.value, ast.Name) and t.value.id == selfn and t.attr == slot
                        for t in (x.targets if isinstance(x, ast.Assign) else [x.target]))]
                    if stores and not any(cn and cfg.node_of(st) and cfg.dominates(cfg.node_of(st)[0], cn[0]) for st in stores):
                        missing.append(slot)
                ctx.check("R7", f"{init.local}: every field is set before {norm(call)[:50]}", not missing, init, call,
                          f"`{norm(call)}` hands the object to an instrumented method before {missing} is assigned: inside a journal the method's "
                          "entry is built from repr(self), which reads the missing field - the constructor raises AttributeError inside a journal "
                          "and succeeds outside",
                          how="stores of every __slots__ field dominate the call that passes self to a patched method",
                          construct=f"instrumented call before {missing}")
    ctx.require(n >= 1, "no constructor hands self to an instrumented method")


def run(ctx):
    rule_r8(ctx)
    rule_r7(ctx)
    rule_r1(ctx)
    rule_r2(ctx)
    rule_r3_r4(ctx)
    rule_r3_sigs_r5(ctx)
    from ..shared import rule_s8

    rule_s8(ctx, "R6", ("onnx_ir.journaling",),
            "the journal entry keeps the IR object alive (and keeps answering with it), so journaling changes object lifetimes")
